import Fs.Core.Wire
import Fs.Model.Sched
/-! Driver handler for the `sched` model (C19).

Request:  `sched  run  <locked 0|1>  <init>  <programs>  <schedule>`
  init      := `,`-separated objects that exist before the sessions start: `D<d>` database · `S<d>.<s>` schema ·
               `T<t>` empty table · `T<t>:<k>.<v>:<k>.<v>…` table with rows            (or `-`)
  programs  := sessions separated by `|`, statements by `;`:
               `N<d>.<s>[/<cd><cs>/<lock|->]` connect (flags create_database / create_schema, lock number as seen
               in the real trace; names are the folded names) · `T<t>.<c|->` CREATE TABLE [COMMENT] · `I<t>.<k>.<v>` INSERT · `C<t>.<c>` COMMENT ON · `A<t>.<c>` ALTER … SET COMMENT ·
               `O<t>.<c>` CREATE OR REPLACE TABLE … COMMENT · `Z` a statement without engine calls (SET variable) · `R<t>` SELECT rows ·
               `W<t>` table metadata (exists, comment) · `G<t>.<k1>.<v1>.<k2>.<v2>…` MERGE
  schedule  := `,`-separated session ids (one turn each), or `-`; or the real trace `<sid>:<tag>,…` (see `alignAll`)
Reply:    `impl=<observable results per session>  final=<tables>  done=<0|1>  nserial=<n>  ok=<0|1>  finding=<key|->
           serial=<outcome~outcome…>`   (outcome = results#final)
  results   := sessions `|`, entries `,`: `E` a statement raised · `r<k.v:k.v>` rows · `m<0|1>.<cmt|->` metadata
  ok        := the outcome (results of every session + final state) equals the outcome of SOME statement-level order
-/
namespace Fs.Drv.Sched
open Fs.Wire Fs.Sched

def nats (s : String) : Option (List Nat) := (s.splitOn ".").mapM (·.toNat?)

def pairs : List Nat → List (Nat × Nat)
  | a :: b :: r => (a, b) :: pairs r
  | _ => []

def parseStmt (locked : Bool) (s : String) : Option Stmt :=
  let tl := (s.drop 1).toString
  match s.front with
  | 'N' => match tl.splitOn "/" with
    | [ds] => match nats ds with | some [d, sc] => some (connectStmt locked d sc) | _ => none
    | ["!", _, lk] => some (connectBad (if lk == "-" then none else lk.toNat?) 77)
    | ["-", _, lk] => some (connectNone (if lk == "-" then none else lk.toNat?))
    | [ds, flags, lk] => match nats ds with
      | some [d, sc] =>
        let cd := (flags.take 1).toString == "1"
        let cs := (flags.drop 1).toString == "1"
        some (connectWith (if lk == "-" then none else lk.toNat?) cd cs d sc)
      | _ => none
    | _ => none
  | 'T' => match tl.splitOn "." with
    | [t, c] => do
      let t ← t.toNat?
      if c == "-" then some (createTable t none) else some (createTable t (some (← c.toNat?)))
    | _ => none
  | 'I' => match nats tl with | some [t, k, v] => some (insertStmt t k v) | _ => none
  | 'C' => match nats tl with | some [t, c] => some (commentStmt t c) | _ => none
  | 'A' => match nats tl with | some [t, c] => some (commentStmt t c) | _ => none
  | 'O' => match nats tl with | some [t, c] => some (replaceTable t c) | _ => none
  | 'Z' => some nopStmt
  | 'H' => some nopStmt        -- a session-setting probe (time zone): constant in every session, so nothing to predict
  | 'Q' => some nopStmt        -- conn.close(): no engine call the model knows; other sessions are not affected
  | 'R' => tl.toNat?.map selectStmt
  | 'W' => tl.toNat?.map showStmt
  | 'G' => match nats tl with | some (t :: r) => some (mergeStmt t (pairs r)) | _ => none
  | _ => none

def parseRow (s : String) : Option (Nat × Nat) :=
  match nats s with | some [k, v] => some (k, v) | _ => none

def applyInit (g : Key → Val) (s : String) : Key → Val :=
  let tl := (s.drop 1).toString
  match s.front with
  | 'D' => match tl.toNat? with | some d => setG g (.db d) { ex := true, info := true } | none => g
  | 'S' => match nats tl with | some [d, sc] => setG g (.schema d sc) { ex := true } | _ => g
  | 'T' => match tl.splitOn ":" with
    | t :: rows => match t.toNat? with
      | some t => setG g (.tbl t) { ex := true, rows := rows.filterMap parseRow }
      | none => g
    | _ => g
  | _ => g

def encRows (l : List (Nat × Nat)) : String := ":".intercalate (l.map fun r => s!"{r.1}.{r.2}")

def encRes : Res → Option String
  | .err => some "E"
  | .rows l => some ("r" ++ encRows l)
  | .tmeta ex c => some s!"m{encBool ex}.{encOptNat c}"
  | _ => none

def sortRows (l : List (Nat × Nat)) : List (Nat × Nat) :=
  (l.toArray.qsort fun a b => a.1 < b.1 || (a.1 == b.1 && a.2 < b.2)).toList

def encOuts (c : Cfg) (n : Nat) : String :=
  "|".intercalate ((List.range n).map fun i => ",".intercalate ((c.loc i).out.filterMap fun r =>
    match r with
    | .rows l => encRes (.rows (sortRows l))
    | r => encRes r))

def encFinal (c : Cfg) (tbls : List Nat) : String :=
  ",".intercalate (tbls.map fun t =>
    let v := c.g (.tbl t)
    if v.ex then s!"{t}:{encOptNat v.cmt}:{encRows (sortRows v.rows)}" else s!"{t}:absent")

def tablesOf (progs : List (List Stmt)) (init : List String) : List Nat :=
  let fromProgs := progs.flatMap fun p => p.flatMap fun st => st.filterMap fun ins =>
    match ins.key with | some (.tbl t) => some t | _ => none
  let fromInit := init.filterMap fun s => if s.front == 'T' then (((s.drop 1).toString.splitOn ":").head?.bind (·.toNat?)) else none
  (fromProgs ++ fromInit).eraseDups

/-- kind of the multi-call statement session `i` is in the middle of -/
def midKind (l : Loc) : Option String :=
  let cur := skipCond l.absent l.cur
  if cur.isEmpty then none
  else if cur.any (fun i => match i with | .call _ (.setCmt _) => true | _ => false) then some "C19/torn-table-comment"
  else if cur.any (fun i => match i with | .call _ (.mergeIns _) => true | _ => false) then some "C19/torn-merge"
  else if cur.any (fun i => match i with | .probe _ => true | .callIfAbsent _ _ => true | _ => false) then some "C19/connect-race"
  else some "C19/torn-multi-call"

/-- first point of the schedule where a session's turn touches a key that another session's half-done statement
    still needs: the region of the known multi-call findings -/
def interference (n : Nat) : Cfg → List Nat → String
  | _, [] => "-"
  | c, j :: σ =>
    let hit := (List.range n).findSome? fun i =>
      if i == j then none else
      match midKind (c.loc i), nextKey' c j with
      | some kind, some k => if (instrKeysL (c.loc i).cur).contains k then some kind else none
      | _, _ => none
    match hit with
    | some kind => kind
    | none => interference n (turn c j) σ
where
  nextKey' (c : Cfg) (j : Nat) : Option Key := (stepOf j (c.loc j)).map (·.1)
  instrKeysL (is : List Instr) : List Key := is.filterMap Instr.key

/-! ### alignment of the real trace with the model's turns

The harness reports every grant as `<session>:<tag>`, the tag naming WHAT the granted engine call was (not how many
calls preceded it): `pd`/`ps` existence probe of a database / schema, `wa` ATTACH, `wi` info-schema DDL, `ws` CREATE
SCHEMA, `wt` CREATE TABLE, `wc` comment upsert, `wn` INSERT, `wu` UPDATE, `or`/`om` the harness's row / metadata
read, `L+`/`L-` lock acquire / release, `x` a grant to a finished session.  A probe the model is not waiting for (the
code checks something once more) is dropped; a probe the model still has pending when the code moves on to a write is
executed just before that write.  So adding or removing read-only calls in fakesnow does not shift the correspondence.
The result is an ordinary schedule (list of session ids) – derived from the grants – on which `runSched`
and the theorems apply. -/

def opTag : Key → Op → String
  | .db _, .create => "wa"
  | .db _, .bad => "wa"
  | .db _, .setInfo => "wi"
  | .schema _ _, .create => "ws"
  | .tbl _, .create => "wt"
  | .tbl _, .replace => "wt"
  | _, .setCmt _ => "wc"
  | _, .insert _ _ => "wn"
  | _, .mergeIns _ => "wn"
  | _, .mergeUpd _ => "wu"
  | _, .readRows => "or"
  | _, .readMeta => "om"
  | _, _ => "w?"

def instrTag : Instr → String
  | .acquire _ => "L+"
  | .release _ => "L-"
  | .probe (.db _) => "pd"
  | .probe (.schema _ _) => "ps"
  | .probe _ => "p?"
  | .call k op => opTag k op
  | .callIfAbsent k op => opTag k op

def nextTag (c : Cfg) (i : Nat) : Option String :=
  match settle (c.loc i).absent (c.loc i).cur (c.loc i).rest with
  | ([], _) => none
  | (ins :: _, _) => some (instrTag ins)

def isProbeTag (t : String) : Bool := t == "pd" || t == "ps" || t == "p?"

/-- model turns of session `i` that correspond to one real grant with tag `tag` -/
def alignOne (i : Nat) (tag : String) : Nat → Cfg → Cfg × List Nat
  | 0, c => (c, [])
  | fuel + 1, c =>
    match nextTag c i with
    | none => (c, [])
    | some t =>
      if t == tag then (turn c i, [i])
      else if isProbeTag tag then (c, [])                 -- a check the model does not make: dropped
      else if isProbeTag t then                           -- the model still has a check pending: do it now
        let r := alignOne i tag fuel (turn c i)
        (r.1, i :: r.2)
      else (c, [])                                        -- an engine call the model does not know

def alignAll : Cfg → List (Nat × String) → List Nat
  | _, [] => []
  | c, (i, tag) :: es =>
    let r := alignOne i tag 8 c
    r.2 ++ alignAll r.1 es

/-- trailing checks the code no longer makes -/
def probeTail (n : Nat) : Nat → Cfg → List Nat
  | 0, _ => []
  | fuel + 1, c =>
    match (List.range n).find? fun i => match nextTag c i with | some t => isProbeTag t | none => false with
    | none => []
    | some i => i :: probeTail n fuel (turn c i)

def parseEvent (s : String) : Option (Nat × String) :=
  match s.splitOn ":" with
  | [i, t] => i.toNat?.map fun n => (n, t)
  | [i] => i.toNat?.map fun n => (n, "")
  | _ => none

def handle : List String → String
  | ["run", locked, init, progs, sched] =>
    let lk := decBool locked
    let inits := if init == "-" then [] else init.splitOn ","
    match (progs.splitOn "|").mapM (fun p => if p.isEmpty then some [] else (p.splitOn ";").mapM (parseStmt lk)) with
    | none => "bad-op"
    | some ps =>
      let n := ps.length
      let g0 := inits.foldl applyInit (fun _ => {})
      let c0 : Cfg := { g := g0, loc := (Cfg.init ps).loc }
      let evs := if sched == "-" then [] else (sched.splitOn ",").filterMap parseEvent
      let tagged := evs.any fun e => e.2 != ""
      let σ := if tagged then
                 let σ1 := alignAll c0 evs
                 σ1 ++ probeTail n 64 (runSched c0 σ1)
               else evs.map (·.1)
      let c := runSched c0 σ
      let tbls := tablesOf ps inits
      let alldone := (List.range n).all fun i => done c i
      let outcome := encOuts c n ++ "#" ++ encFinal c tbls
      let s0 : Cfg := { g := g0, loc := (Cfg.init (ps.map (·.map stripLock))).loc }
      let counts := ps.map List.length
      let serial := ((orders (counts.sum + 1) counts).map fun τ =>
        let r := runStmts s0 τ
        encOuts r n ++ "#" ++ encFinal r tbls).eraseDups
      let ok := serial.contains outcome
      let key := if ok then "-" else interference n c0 σ
      s!"impl={encOuts c n}\tfinal={encFinal c tbls}\tdone={encBool alldone}\tnserial={serial.length}\tok={encBool ok}\tfinding={key}\tserial={"~".intercalate serial}\tsigma={",".intercalate (σ.map toString)}"
  | _ => "bad-op"

end Fs.Drv.Sched
