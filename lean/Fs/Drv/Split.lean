import Fs.Core.Wire
import Fs.Model.Split
import Fs.Model.Gen
/-! Driver handler for the `split` model (C16). -/
namespace Fs.Drv.Split
open Fs.Wire Fs.Split Fs.Lex

/-- abstract statement outcomes: `o` parses and succeeds, `f` parses and fails when executed, `p` does not parse.
    World = number of statements applied. -/
def parsesOf (c : Char) : Bool := c != 'p'
def execOf (w : Nat) (c : Char) : Nat × Except String Nat := if c = 'o' then (w + 1, .ok w) else (w, .error "exec")

def encRun (r : Nat × List Nat × Option String) : String :=
  s!"{r.1},{r.2.1.length},{match r.2.2 with | none => "-" | some e => e}"

def handle : List String → String
  | ["count", text] =>
    match stmtCount (decStr text) with
    | some n => s!"n={n}"
    | none => "n=error"
  | ["run", flags] =>
    let ss := flags.toList
    let impl := execString parsesOf "parse" execOf 0 ss
    let spec := oneByOne parsesOf "parse" execOf 0 ss
    -- region of the known finding: an unparseable statement after at least one statement that would have run
    let finding := if impl != spec then "C16/unparseable-statement-executes-nothing" else "-"
    s!"impl={encRun impl}\tspec={encRun spec}\tfinding={finding}"
  | ["nop", configured, mvec] =>
    let pats : Option (List Bool) := if configured == "1" then some ((decList mvec).map decBool) else none
    s!"nop={encBool (nopDecision pats (fun p (_ : Unit) => p) ())}"
  | ["lit", s] =>
    let l := Fs.Gen.sfLit (decStr s)
    s!"lit={encStr l}\tlex={match lex l with | some [.str v] => "ok:" ++ encStr v | _ => "error"}"
  | _ => "bad-op"

end Fs.Drv.Split
