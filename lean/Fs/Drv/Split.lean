import Fs.Core.Wire
import Fs.Model.Split
import Fs.Model.Gen
import Fs.Model.Vars
/-! Driver handler for the `split` model (C16). -/
namespace Fs.Drv.Split
open Fs.Wire Fs.Split Fs.Lex

/-- abstract statement outcomes: `o` parses and succeeds, `f` parses and fails when executed, `p` does not parse.
    World = number of statements applied. -/
def parsesOf (c : Char) : Bool := c != 'p'
def execOf (w : Nat) (c : Char) : Nat × Except String Nat := if c = 'o' then (w + 1, .ok w) else (w, .error "exec")

def encRun (r : Nat × List Nat × Option String) : String :=
  s!"{r.1},{r.2.1.length},{match r.2.2 with | none => "-" | some e => e}"

def handle : List String → String
  | ["count", text] =>
    -- rawref: some `$$…$$` string holds `$word` text; execute_string re-renders it as `'…'`, where the variable phase may
    -- see a reference that the `$$` spelling hid (`$$$usd$$` vs `'$usd'`): region of C16/dollar-string-rerender-exposes-reference
    let rawref := match lex (decStr text) with
      | some ts => ts.any fun t => match t with
        | .raw b =>
          let refs (t : List Char) := ((Fs.Vars.tokenize (.copy false) t).filter fun k => match k with | .ref _ => true | _ => false).length
          -- the `'…'` spelling shows the variable phase a different number of references than the `$$…$$` spelling
          refs ('\'' :: b ++ ['\'']) != refs ('$' :: '$' :: b ++ ['$', '$'])
        | _ => false
      | none => false
    match stmtCount (decStr text) with
    | some n => s!"n={n}\trawref={encBool rawref}"
    | none => s!"n=error\trawref={encBool rawref}"
  | ["run", flags] =>
    let ss := flags.toList
    let impl := execString parsesOf "parse" execOf 0 ss
    let spec := oneByOne parsesOf "parse" execOf 0 ss
    -- region of the known finding: an unparseable statement after at least one statement that would have run
    let finding := if impl != spec then "C16/unparseable-statement-executes-nothing" else "-"
    s!"impl={encRun impl}\tspec={encRun spec}\tfinding={finding}"
  | ["nop", configured, mvec] =>
    let pats : Option (List Bool) := if configured == "1" then some ((decList mvec).map decBool) else none
    s!"nop={encBool (nopDecision pats (fun p (_ : Unit) => p) ())}"
  | ["lit", s] =>
    let l := Fs.Gen.sfLit (decStr s)
    s!"lit={encStr l}\tlex={match lex l with | some [.str v] => "ok:" ++ encStr v | _ => "error"}"
  | _ => "bad-op"

end Fs.Drv.Split
