import Fs.Core.Wire
import Fs.Model.Params
/-! Driver handler for the `params` model (C08) and the tokenizer model `Fs.Lex`. -/
namespace Fs.Drv.Params
open Fs.Wire Fs.Params Fs.Lex

def encTok : Tok → String
  | .str s => "S:" ++ encStr s
  | .raw s => "R:" ++ encStr s
  | .ident s => "I:" ++ encStr s
  | .semi => "M"
  | .chr c => "C:" ++ toString c.toNat

def encToks : Option (List Tok) → String
  | none => "error"
  | some ts => encList (ts.map encTok)

/-- value syntax: `n` | `b0`/`b1` | `N:<repr>` | `X:<repr>` | `S:<str>` | `L:<item>|<item>…` (items not lists) -/
def decScalar (s : String) : Val :=
  if s == "n" then .null
  else if s == "b1" then .bool true
  else if s == "b0" then .bool false
  else
    let body := decStr (s.drop 2).toString
    if s.startsWith "D:" then
      -- a datetime by its fields `y,mo,d,h,mi,s,us,off` (off = UTC offset in minutes, or `-` for a naive one)
      match ((s.drop 2).toString.splitOn ",") with
      | [y, mo, d, h, mi, sec, us, off] =>
        .str (dtText y.toNat! mo.toNat! d.toNat! h.toNat! mi.toNat! sec.toNat! us.toNat! (if off == "-" then none else off.toInt?))
      | _ => .str []
    else if s.startsWith "N:" then .num body
    else if s.startsWith "X:" then .special body
    else .str body

def decVal (s : String) : Val :=
  if s.startsWith "L:" then
    let b := (s.drop 2).toString
    .list (if b == "" then [] else (b.splitOn "|").map decScalar)
  else decScalar s

def encFmt : Fmt → String
  | .ok t => "ok:" ++ encStr t
  | .err => "err"
  | .unsupported => "unsupported"

def decStyle (s : String) : Style :=
  if s == "pyformat" then .pyformat else if s == "format" then .format else if s == "qmark" then .qmark else .numeric

def encStyle : Style → String
  | .pyformat => "pyformat" | .format => "format" | .qmark => "qmark" | .numeric => "numeric"

/-- args: mode `seq` with `;`-list of values, or `map` with `;`-list of `key=value` (key as code points) -/
def decArgs (mode : String) (body : String) (f : Val → List Char) : Args :=
  if mode == "map" then
    .map ((decList body).map fun kv =>
      match kv.splitOn "=" with
      | [k, v] => (decStr k, f (decVal v))
      | _ => ([], []))
  else .seq ((decList body).map fun v => f (decVal v))

def valsOf (mode body : String) : List Val :=
  if mode == "map" then (decList body).filterMap fun kv =>
    match kv.splitOn "=" with
    | [_, v] => some (decVal v)
    | _ => none
  else (decList body).map decVal

def scalarSpecial : Val → Bool
  | .special _ => true
  | _ => false
def hasSpecial : Val → Bool
  | .list items => items.any scalarSpecial
  | v => scalarSpecial v

def scalarNul : Val → Bool
  | .str s => !noNul s
  | _ => false
def hasNul : Val → Bool
  | .list items => items.any scalarNul
  | v => scalarNul v

def bigInt : Val → Bool
  | .num r => match (String.ofList r).toInt? with
    | some i => qmarkBindInt i != .exact
    | none => false
  | _ => false

def floatLitBits : Val → String
  | .num r => match decimalOfRepr r with
    | some (m, sc) => if sc > 0 && sc ≤ 22 then toString (duckDecToDouble m sc).toBits else "-"
    | none => "-"
  | _ => "-"

/-- prefix syntax of `QExpr`: `p` | `c` | `d<e>` | `a<e><e>` -/
def decQ : Nat → List Char → Option (QExpr × List Char)
  | 0, _ => none
  | _, [] => none
  | fuel + 1, c :: cs =>
    if c = 'p' then some (.ph, cs)
    else if c = 'c' then some (.const, cs)
    else if c = 'd' then (decQ fuel cs).map fun (a, r) => (.dup a, r)
    else if c = 'a' then (decQ fuel cs).bind fun (a, r) => (decQ fuel r).map fun (b, r') => (.app a b, r')
    else none

def parseOps (s : String) : List POp :=
  (decList s).filterMap fun o =>
    if o == "c" then some .connect
    else if o.startsWith "g" then some (.setGlobal (decStyle (o.drop 1).toString))
    else if o.startsWith "x" then (o.drop 1).toString.toNat?.map .exec
    else none

def handle : List String → String
  | ["lex", text] => s!"toks={encToks (lex (decStr text))}"
  | ["escape", s] =>
    let cs := decStr s
    s!"seq={encStr (escapeSeq cs)}\tone={encStr (escape cs)}\tlex={encToks (lex (quote (escapeSeq cs)))}"
  | ["lit", v] =>
    let x := decVal v
    s!"impl={encStr x.lit}\tspec={encStr x.specLit}"
  | ["fmt", cmd, mode, args] =>
    s!"out={encFmt (fmt (decStr cmd) (decArgs mode args fun v => match v with | .str s => s | _ => []))}"
  | ["exec", style, cmd, specCmd, mode, args] =>
    -- one statement with bound values: the text the code parses (impl), the text with correct literals (spec)
    let st := decStyle style
    let c := decStr cmd
    let vals := valsOf mode args
    let (impl, bind) := rewrite st c (decArgs mode args Val.lit)
    -- specCmd = the same template in pyformat spelling (for qmark the harness re-spells `?` as `%s`)
    let spec := if (decArgs mode args Val.lit).isEmpty then Fmt.ok c else fmt (decStr specCmd) (decArgs mode args Val.specLit)
    let finding :=
      if st.clientSide then
        (if vals.any hasSpecial then "C08/inf-nan" else if vals.any hasNul then "C08/nul"
         else if vals.any (fun v => floatLitBits v != "-") then "C08/float-literal-inexact" else "-")
      else "-"
    s!"impl={encFmt impl}\tspec={encFmt spec}\tbind={encBool bind}\tfinding={finding}\tfbits={encList (vals.map floatLitBits)}"
  | ["qmark", skel, n] =>
    match decQ 200 skel.toList, n.toNat? with
    | some (e, []), some k =>
      let finding := if e.dupFree then "-" else "C08/qmark-duplicated"
      s!"impl={encBool (qmarkAccepts e k)}\tspec={encBool (e.phs == k)}\tfinding={finding}"
    | _, _ => "bad-op"
  | ["explode", counts, n] =>
    match n.toNat? with
    | some k =>
      let cs := decNatList counts
      let impl := explodeAccepts cs k
      s!"impl={encBool impl}\tspec=1\tfinding={if impl then "-" else "C08/qmark-merge"}"
    | none => "bad-op"
  | ["duck", s] =>
    let cs := decStr s
    let r := match duckLex (duckGen cs ++ ['\'']) with
      | some (v, []) => "ok:" ++ encStr v
      | _ => "error"
    s!"gen={encStr (duckGen cs)}\tlex={r}"
  | ["snap", ops] =>
    let r := (prun {} (parseOps ops)).2
    s!"styles={encList (r.map fun o => match o with | some s => encStyle s | none => "-")}"
  | _ => "bad-op"

end Fs.Drv.Params
