import Fs.Core.Wire
import Fs.Model.Vars
import Fs.Model.Gen
import Fs.Drv.Params
/-! Driver handler for the `vars` model (C15). -/
namespace Fs.Drv.Vars
open Fs.Wire Fs.Vars

def encRes : Res → String
  | .ok t => "ok:" ++ encStr t
  | .undefined n => "undef:" ++ encStr n

def decEnv (s : String) : Env :=
  (decList s).filterMap fun kv =>
    match kv.splitOn "=" with
    | [k, v] => some (decStr k, decStr v)
    | _ => none

/-- value kinds of a SET: `S:<string value>` | `N:<number text>` | `P:<compound expression text>` | `R:<NAME>` -/
def storedOf (env : Env) (v : String) : Option (List Char) :=
  let body := decStr (v.drop 2).toString
  if v.startsWith "S:" then some (Fs.Gen.sfLit body)
  else if v.startsWith "N:" then some body
  else if v.startsWith "P:" then some ('(' :: body ++ [')'])
  else if v.startsWith "X:" then
    -- a compound expression that references variables (`SET total = $total + 5`): the statement is inlined first,
    -- sqlglot re-renders the expression unchanged and the repaired SET parenthesises it
    match Impl.inline env body with
    | .ok t => some ('(' :: t ++ [')'])
    | .undefined _ => none
  else if v.startsWith "R:" then env.get body
  else none

structure HSt where
  w : World
  out : List String := []

/-- ops: `s,<conn>,<NAME>,<value kind>,<statement text as written>` | `u,<conn>,<NAME>` | `q,<conn>,<text>` -/
def hstep (h : HSt) (op : String) : HSt :=
  match op.splitOn "," with
  | ["s", i, n, v, written] =>
    let i := i.toNat!
    let env := h.w.env i
    let lit := encBool (refInLiteral (decStr written))
    match Impl.inline env (decStr written) with
    | .undefined m => { h with out := h.out ++ [s!"undef:{encStr m}|{lit}"] }
    | .ok _ =>
      match storedOf env v with
      | some stored => { w := (wstep h.w (.set i (decStr n) stored)).1, out := h.out ++ [s!"d|{lit}"] }
      | none => { h with out := h.out ++ ["bad"] }
  | ["u", i, n] =>
    let (w', o) := wstep h.w (.unset i.toNat! (decStr n))
    { w := w', out := h.out ++ [if o == .keyError then "k|0" else "d|0"] }
  | ["q", i, t] =>
    let text := decStr t
    let env := h.w.env i.toNat!
    let r := Impl.inline env text
    let tag := if r == Spec.inline env text then "" else "!impl≠spec"
    { h with out := h.out ++ [s!"{encRes r}{tag}|{encBool (refInLiteral text)}"] }
  | ["b", i, t, vals] =>
    -- a statement with bound parameters: `<inlined command or error>|lit|pct|<final text>`
    let cmd := decStr t
    let env := h.w.env i.toNat!
    let lit := encBool (refInLiteral cmd)
    let pct := encBool (refPct env (tokenize (.copy false) cmd))
    let args := Fs.Params.Args.seq ((vals.splitOn "+").map fun v => (Fs.Drv.Params.decVal v).lit)
    match Impl.inline env cmd, execBound env cmd args with
    | .ok t', some (f, _) => { h with out := h.out ++ [s!"ok:{encStr t'}|{lit}|{pct}|{Fs.Drv.Params.encFmt f}"] }
    | r, _ => { h with out := h.out ++ [s!"{encRes r}|{lit}|{pct}|-"] }
  | _ => { h with out := h.out ++ ["bad"] }

def handle : List String → String
  | ["inline", env, text] =>
    let e := decEnv env
    let t := decStr text
    s!"impl={encRes (Impl.inline e t)}\tspec={encRes (Spec.inline e t)}\told={encRes (oldInline e t)}\tlit={encBool (refInLiteral t)}\tcode={encBool (refInCode t)}"
  | ["hist", nconn, ops] =>
    let h := (decList ops).foldl hstep { w := List.replicate nconn.toNat! [] }
    s!"obs={encList h.out}"
  | ["sflit", s] => s!"lit={encStr (Fs.Gen.sfLit (decStr s))}\tlex={match Fs.Lex.lex (Fs.Gen.sfLit (decStr s)) with | some [.str v] => "ok:" ++ encStr v | _ => "error"}"
  | _ => "bad-op"

end Fs.Drv.Vars
