import Fs.Core.Wire
import Fs.Model.Meta
/-!
Driver handler for the `meta` model (C09).

request:  `meta	hist	<op>;<op>;…	<probe keys>` with keys `d.s.n`, columns `name:ty`, ty = `i` | `n<p>.<s>` | `t<len>` | `f` | `b` | `d` | `z`
  op := `ct,<key>,<col>/<col>…,<comment|->,<0|1>,<pk column|->` | `cs,<key>,<src>,<n>/<n>…,<0|1>` | `cl,<key>,<src>,<0|1>`
      | `cv,<key>,<src>,<n>/<n>…,<0|1>` | `ac,<key>,<col>` | `dc,<key>,<n>` | `rc,<key>,<a>,<b>` | `rt,<key>,<n>`
      | `sc,<key>,<c>` | `dt,<key>` | `dv,<key>`
reply:    `steps=<step>;…`, step := `<ok 0|1>~<finding|->~<agree 0|1>~<objects>` where objects lists every live object as
  `<key>:<t|v>:<spec comment|->:<impl comment|->:<col>/<col>…`, col := `<name>:<spec ty>:<impl describe ty>:<impl info len|->`
-/
namespace Fs.Drv.Meta
open Fs.Wire Fs.Meta

def pKey (s : String) : Option Key :=
  match (s.splitOn ".").mapM (·.toNat?) with
  | some [d, sc, n] => some (d, sc, n)
  | _ => none

def pTy (s : String) : Option Ty :=
  let tl := (s.drop 1).toString
  match s.front with
  | 'i' => some .int
  | 't' => tl.toNat?.map .text
  | 'f' => some .float
  | 'b' => some .bool
  | 'd' => some .date
  | 'z' => some .tsNtz
  | 'n' => match (tl.splitOn ".").mapM (·.toNat?) with | some [p, sc] => some (.num p sc) | _ => none
  | _ => none

def pCol (s : String) : Option Col :=
  match s.splitOn ":" with
  | [n, t] => do let n ← n.toNat?; let t ← pTy t; pure ⟨n, t⟩
  | _ => none

def pNames (s : String) : Option (List Nat) := if s == "" then some [] else (s.splitOn "/").mapM (·.toNat?)
def pCols (s : String) : Option (List Col) := if s == "" then some [] else (s.splitOn "/").mapM pCol
def pB (s : String) : Bool := s == "1"

def pOp (s : String) : Option Op :=
  match s.splitOn "," with
  | ["ct", k, cols, c, r, pk] => do
    let k ← pKey k; let cols ← pCols cols
    let c ← (if c == "-" then some none else c.toNat?.map some)
    let pk ← (if pk == "-" then some none else pk.toNat?.map some)
    pure (.createTable k cols c (pB r) pk)
  | ["cs", k, src, sel, r] => do let k ← pKey k; let src ← pKey src; let sel ← pNames sel; pure (.ctas k src sel (pB r))
  | ["cl", k, src, r] => do let k ← pKey k; let src ← pKey src; pure (.clone k src (pB r))
  | ["cv", k, src, sel, r] => do let k ← pKey k; let src ← pKey src; let sel ← pNames sel; pure (.createView k src sel (pB r))
  | ["ac", k, c] => do let k ← pKey k; let c ← pCol c; pure (.addCol k c)
  | ["dc", k, n] => do let k ← pKey k; let n ← n.toNat?; pure (.dropCol k n)
  | ["rc", k, a, b] => do let k ← pKey k; let a ← a.toNat?; let b ← b.toNat?; pure (.renameCol k a b)
  | ["rt", k, n] => do let k ← pKey k; let n ← n.toNat?; pure (.renameTable k n)
  | ["sc", k, c] => do let k ← pKey k; let c ← c.toNat?; pure (.setComment k c)
  | ["dt", k] => (pKey k).map .dropTable
  | ["dv", k] => (pKey k).map .dropView
  | ["nop"] => some .nop
  | _ => none

def eTy : Ty → String
  | .int => "i" | .num p s => s!"n{p}.{s}" | .text n => s!"t{n}" | .float => "f" | .bool => "b" | .date => "d" | .tsNtz => "z"

def eOpt : Option Nat → String | none => "-" | some n => toString n
def eKey (k : Key) : String := s!"{k.1}.{k.2.1}.{k.2.2}"

def eTab (w : World) (t : Tab) : String :=
  let di := ((describeI w t.key).getD []).map (·.ty)
  let ii := ((infoColumnsI w t.key).getD []).map (·.2)
  let cols := (t.cols.zip (di.zip ii)).map fun (c, d, i) => s!"{c.name}:{eTy c.ty}:{eTy d}:{eOpt i}"
  s!"{eKey t.key}:{if t.isView then "v" else "t"}{match t.pk with | some p => s!"#{p}" | none => ""}:{eOpt t.comment}:{eOpt (lookupT w.tExt t.key)}:{"/".intercalate cols}"

def runOut (w : World) : List Op → List String
  | [] => []
  | o :: os =>
    let r := step w o
    let f := if o.viewSource w then "unsupported" else match region w o with | some k => k.name | none => "-"
    s!"{encBool r.1}~{f}~{encBool r.2.agree}~{",".intercalate (r.2.tabs.map (eTab r.2))}" :: runOut r.2 os

def handle : List String → String
  | ["hist", ops] =>
    match (decList ops).mapM pOp with
    | none => "bad-op"
    | some os => s!"steps={encList (runOut World.init os)}"
  | _ => "bad-op"

end Fs.Drv.Meta
