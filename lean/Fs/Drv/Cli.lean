import Fs.Core.Wire
import Fs.Model.Cli
/-! Driver handler for the `cli` model (C20, command line part). -/
namespace Fs.Drv.Cli
open Fs.Wire Fs.Cli

def encToks (ts : List Tok) : String := encList (ts.map encStr)
def encOptTok : Option Tok → String
  | none => "-"
  | some t => encStr t

def encPair (p : List Tok × List Tok) : String :=
  ",".intercalate (p.1.map encStr) ++ "|" ++ ",".intercalate (p.2.map encStr)

def encPRes : PRes → String
  | .error => "error"
  | .help => "help"
  | .ok db mod path => s!"ok,{encOptTok db},{encOptTok mod},{encOptTok path}"

def encOutcome : Outcome → String
  | .usage => "usage"
  | .exit2 => "exit2"
  | .exit0 => "exit0"
  | .runModule _ argv db => s!"M,{encOptTok db}," ++ ",".intercalate (argv.map encStr)
  | .runPath _ argv db => s!"P,{encOptTok db}," ++ ",".intercalate (argv.map encStr)

/-- recogniser of the argv grammar `fsopt* target targ*` (spec side): the expected outcome, or none when the
    argv is not a sentence of the grammar (then the property says nothing and only the model is compared) -/
def stripPrefix : Tok → Tok → Option Tok
  | [], t => some t
  | _ :: _, [] => none
  | a :: as, b :: bs => if a = b then stripPrefix as bs else none

def recog : List Tok → Option Tok → Nat → Option Outcome
  | _, _, 0 => none
  | [], _, _ => none
  | a :: rest, db, fuel + 1 =>
    if a = tD ∨ a = tDbPath then
      match rest with
      | v :: r => if plain v then recog r (some v) fuel else none
      | [] => none
    else if a = tMs ∨ a = tModule then
      match rest with
      | m :: r => if plain m && !m.isEmpty then some (.runModule m (m :: r) db) else none
      | [] => none
    else match stripPrefix (tDbPath ++ ['=']) a with
      | some v => recog rest (some v) fuel
      | none =>
        match stripPrefix (tModule ++ ['=']) a with
        | some m => if m.isEmpty then none else some (.runModule m (m :: rest) db)
        | none =>
          match stripPrefix tD a with
          | some v => if FsOpt.ok (.dAtt v) then recog rest (some v) fuel else none
          | none =>
            match stripPrefix tMs a with
            | some m => if Target.ok (.mAtt m) then some (.runModule m (m :: rest) db) else none
            | none => if plain a && !a.isEmpty then some (.runPath a (a :: rest) db) else none

def handle : List String → String
  | ["main", args] =>
    let ts := (decList args).map decStr
    let spec := match recog ts none (ts.length + 1) with | some o => encOutcome o | none => "-"
    let pn := split ts false
    let po := splitOld ts false
    s!"impl={encOutcome (main ts)}\told={encOutcome (mainOld ts)}\tspec={spec}\tsplit={encPair pn}\tsplitold={encPair po}\tparse={encPRes (parseArgs pn.1)}\tparseold={encPRes (parseArgs po.1)}"
  | ["parse", args] =>
    let ts := (decList args).map decStr
    s!"parse={encPRes (parseArgs ts)}"
  | _ => "bad-op"

end Fs.Drv.Cli
