import Fs.Core.Wire
import Fs.Model.Patch
/-! Driver handler for the `patch` model (C20, patch() part).

request:  run <env> <loaded> <importable> <observed slots> <runs>
  env         `m.a=obj;…`          obj ::= Rc | Rw | O<k> | F | U
  loaded      `m;…`
  importable  `m:a=bind,a=bind;…`  bind ::= Sc | Sw | O<k> | F | U
  slots       `m.a;…`
  runs        `extras|exit|nested;…`   extras ::= `m.a,m.a` | `e`; exit ::= n | r | b | g; nested ::= `-` | extras
reply:    impl=<run>;…  spec=<run>;…   run ::= outcome|inside|after|nested-outcome|nested-unchanged
  an observation is one code per observed slot, `,`-separated: Rc Rw O F U Mc Mw N(module not loaded) X(no attribute)
-/
namespace Fs.Drv.Patch
open Fs.Wire Fs.Patch

def parseSlot (s : String) : Option Slot :=
  match s.splitOn "." with
  | [m, a] => do some ((← m.toNat?), (← a.toNat?))
  | _ => none

def parseFake (s : String) : Option Fake :=
  if s == "c" then some .connect else if s == "w" then some .writePandas else none

def parseObj (s : String) : Option Obj :=
  if s == "Rc" then some (.real .connect) else if s == "Rw" then some (.real .writePandas)
  else if s == "F" then some .falsy else if s == "U" then some .userMock
  else if s.startsWith "O" then (s.drop 1).toString.toNat?.map .other else none

def parseBind (s : String) : Option Bind :=
  if s == "Sc" then some (.fromStd .connect) else if s == "Sw" then some (.fromStd .writePandas)
  else if s == "F" then some .falsy else if s == "U" then some .userMock
  else if s.startsWith "O" then (s.drop 1).toString.toNat?.map .other else none

def parseEnv (s : String) : Option Env :=
  (decList s).mapM fun e => match e.splitOn "=" with
    | [k, v] => do some ((← parseSlot k), (← parseObj v))
    | _ => none

def parseImportable (s : String) : Option (List (Nat × List (Nat × Bind))) :=
  (decList s).mapM fun e => match e.splitOn ":" with
    | [m, bs] => do
      let bl ← (if bs == "" then some [] else (bs.splitOn ",").mapM fun b => match b.splitOn "=" with
        | [a, v] => do some ((← a.toNat?), (← parseBind v))
        | _ => none)
      some ((← m.toNat?), bl)
    | _ => none

def parseSlots (s : String) : Option (List Slot) :=
  if s == "e" then some [] else (s.splitOn ",").mapM parseSlot

structure Run where
  extras : List Slot
  exit : Exit
  nested : Option (List Slot)

def parseRun (s : String) : Option Run :=
  match s.splitOn "|" with
  | [e, x, n] => do
    let ex ← parseSlots e
    let xx ← (if x == "n" then some Exit.normal else if x == "r" then some Exit.raises else if x == "b" then some Exit.raisesBase
              else if x == "g" then some Exit.generatorClosed else none)
    let nn ← (if n == "-" then some none else (parseSlots n).map some)
    some ⟨ex, xx, nn⟩
  | _ => none

def encObj : Obj → String
  | .real .connect => "Rc"
  | .real .writePandas => "Rw"
  | .other _ => "O"
  | .falsy => "F"
  | .userMock => "U"
  | .mock _ .connect => "Mc"
  | .mock _ .writePandas => "Mw"

def obsSlot (w : World) (s : Slot) : String :=
  if s.1 ∈ w.loaded then (match get w.env s with | some o => encObj o | none => "X") else "N"

def obs (w : World) (slots : List Slot) : String := ",".intercalate (slots.map (obsSlot w))

def encOutcome : Outcome → String
  | .completed => "completed"
  | .bodyRaised => "bodyRaised"
  | .refused => "refused"
  | .setupFailed .noModule => "setupFailed:noModule"
  | .setupFailed .noAttr => "setupFailed:noAttr"
  | .setupFailed .notSnowflake => "setupFailed:notSnowflake"

/-! ### specification side -/

/-- import (in the *unpatched* world) every module that is loaded in `like` -/
def importLike (w : World) (like : World) : World :=
  like.loaded.reverse.foldl (fun acc m => (importModule acc m).getD acc) w

/-- is the target usable: module importable, attribute bound to a snowflake function or already a MagicMock -/
def targetValid (w : World) (t : Slot) : Bool :=
  match importModule w t.1 with
  | none => false
  | some w1 => match get w1.env t with
    | some (.real _) => true
    | some (.mock _ _) => true
    | some .userMock => true
    | _ => false

def specInsideSlot (w : World) (targets : List Slot) (s : Slot) : String :=
  if s.1 ∈ w.loaded then
    match get w.env s with
    | some (.real f) => if s ∈ targets then encObj (.mock 0 f) else encObj (.real f)
    | some o => encObj o
    | none => "X"
  else "N"

structure RunOut where
  outcome : String
  inside : String
  after : String
  nestedOutcome : String
  nestedUnchanged : String

def RunOut.enc (r : RunOut) : String :=
  s!"{r.outcome}|{r.inside}|{r.after}|{r.nestedOutcome}|{r.nestedUnchanged}"

def implRun (v : Variant) (w : World) (slots : List Slot) (r : Run) : RunOut × World :=
  let res := patchRun v w r.extras r.exit
  let nested := match res.inside, r.nested with
    | some wi, some ex =>
      let n := patchRun v wi ex .normal
      (encOutcome n.outcome, encBool (obs n.after slots == obs wi slots && n.after.closed == wi.closed))
    | _, _ => ("-", "-")
  (⟨encOutcome res.outcome, (match res.inside with | some wi => obs wi slots | none => "-"), obs res.after slots,
    nested.1, nested.2⟩, res.after)

def specRun (w : World) (implAfter : World) (slots : List Slot) (r : Run) : RunOut :=
  let targets := targetsOf r.extras
  let w' := importLike w implAfter
  if !guardOk w then ⟨"refused", "-", obs w' slots, "-", "-"⟩
  else if targets.all (targetValid w) then
    ⟨(match r.exit with | .normal => "completed" | _ => "bodyRaised"),
     ",".intercalate (slots.map (specInsideSlot w' targets)), obs w' slots,
     (match r.nested with | some _ => "refused" | none => "-"), (match r.nested with | some _ => "1" | none => "-")⟩
  else ⟨"setupFailed", "-", obs w' slots, "-", "-"⟩

def runAll (v : Variant) (w : World) (slots : List Slot) : List Run → List (RunOut × RunOut)
  | [] => []
  | r :: rs =>
    let i := implRun v w slots r
    (i.1, specRun w i.2 slots r) :: runAll v i.2 slots rs

def handle : List String → String
  | ["run", env, loaded, imp, slots, runs] =>
    match parseEnv env, parseImportable imp, parseSlots slots, (decList runs).mapM parseRun with
    | some e, some im, some sl, some rs =>
      let w : World := { env := e, loaded := decNatList loaded, importable := im }
      let outs := runAll fixed w sl rs
      let old := runAll shipped w sl rs
      s!"impl={encList (outs.map (·.1.enc))}\tspec={encList (outs.map (·.2.enc))}\tshipped={encList (old.map (·.1.enc))}"
    | _, _, _, _ => "bad-args"
  | _ => "bad-op"

end Fs.Drv.Patch
