import Fs.Core.Wire
import Fs.Model.ErrScen
/-!
Driver handler for the `err` model (C07).

`scen <cause> <pos> <refKind> <qual> <dbSet> <schemaSet>` → impl=<outcome>|<changed>	spec=<outcome>|<changed>	finding=<key|->
`ops <dbSet> <schemaSet> <vars ,-sep> <op ;-sep>` with
   op := o | c | d:<call> (checked description) | u:<calls> (execute on another cursor: outcome, this cursor's sqlstate untouched) | x:<undefinedVar>:<parseError>:<var>:<call ,-sep>      var := - | s.NAME | u.NAME
   call := <noDb><noSchema>.<sqlcode>.<ctx>.<followup codes +-sep or ->   ctx := - | d (USE DATABASE X) | s (USE SCHEMA Y) | q (USE SCHEMA X.Y) | k (DROP SCHEMA <current>)
   sqlcode := 0 accept | 9 accept (pure query) | 1 binder | 2 catalog | 3 txNoActive | 4 txOther | 5 parser | 6 conversion | 7 constraint | 8 connection
 → impl=<per op: outcome|sqlstate|changed|finding ;-sep>
outcome := ok | P:<errno>:<sqlstate> | D:<errno>:<sqlstate> | R:<duck class> | Y:<python class>
-/
namespace Fs.Drv.Err
open Fs.Wire Fs.Err

def encDuck : DuckExc → String
  | .binder => "BinderException" | .catalog => "CatalogException" | .txNoActive => "TransactionException"
  | .txOther => "TransactionException" | .connection => "ConnectionException" | .parser => "ParserException"
  | .conversion => "ConversionException" | .constraint => "ConstraintException" | .invalidInput => "InvalidInputException"
  | .other => "Exception"

def encPy : PyExc → String
  | .keyError => "KeyError" | .assertionError => "AssertionError" | .notImplemented => "NotImplementedError"
  | .sqlglotParseError => "ParseError"

def encOutcome : Outcome → String
  | .ok => "ok"
  | .programming c => s!"P:{c.errno}:{c.sqlstate}"
  | .database c => s!"D:{c.errno}:{c.sqlstate}"
  | .rawDuck e => "R:" ++ encDuck e
  | .rawPy e => "Y:" ++ encPy e

def parseCause : String → Option Cause
  | "unknownTable" => some .unknownTable | "unknownView" => some .unknownView | "unknownSchema" => some .unknownSchema
  | "unknownDatabase" => some .unknownDatabase | "unknownColumn" => some .unknownColumn | "unknownFunction" => some .unknownFunction
  | "existsTable" => some .existsTable | "existsView" => some .existsView | "existsSchema" => some .existsSchema
  | "existsDatabase" => some .existsDatabase | "existsColumn" => some .existsColumn | "wrongKind" => some .wrongKind
  | "wrongValueCount" => some .wrongValueCount | _ => none

def parsePos : String → Option Pos
  | "query" => some .query | "dmlTarget" => some .dmlTarget | "dmlSource" => some .dmlSource | "ddlTarget" => some .ddlTarget
  | "ddlSource" => some .ddlSource | "useTarget" => some .useTarget | "describeTarget" => some .describeTarget
  | "commentTarget" => some .commentTarget | "showScope" => some .showScope | "dropDatabase" => some .dropDatabase | _ => none

def parseRefKind : String → Option RefKind
  | "database" => some .database | "schema" => some .schema | "useSchema" => some .useSchema | "table" => some .table
  | "noTable" => some .noTable | _ => none

def parseQual : String → Option Qual
  | "1" => some .name | "2" => some .schemaName | "3" => some .full | _ => none

def sqlCode : Nat → Option DuckExc
  | 1 => some .binder | 2 => some .catalog | 3 => some .txNoActive | 4 => some .txOther | 5 => some .parser
  | 6 => some .conversion | 7 => some .constraint | 8 => some .connection | _ => none

/-- the engine of op sequences: the SQL "text" is the code of DuckDB's reaction; the state counts accepted calls -/
def engQ (d : Nat) (q : Nat) : Except DuckExc Nat :=
  match sqlCode q with
  | some e => .error e
  | none => if q == 9 then .ok d else .ok (d + 1)      -- 9 = accepted, a pure query: no state change

def parseCall (s : String) : Option (Call Nat) :=
  match s.splitOn "." with
  | [flags, code, ctx, fol] => do
    let q ← code.toNat?
    let fl := flags.toList
    let cx ← match ctx with
      | "-" => some CtxUpdate.none
      | "d" => some (.setDatabase "X")
      | "s" => some (.setSchema "Y")
      | "q" => some (.setSchema "Y" (some "X"))
      | "k" => some (.dropped false "S1")          -- DROP SCHEMA of the session's current schema
      | _ => none
    let fs := if fol == "-" then [] else (fol.splitOn "+").filterMap (·.toNat?)
    pure { noDatabase := fl.getD 0 '0' == '1', noSchema := fl.getD 1 '0' == '1', sql := q, ctx := cx, followups := fs }
  | _ => none

def parseVar (s : String) : Option VarUpdate :=
  if s == "-" then some .none
  else if s.startsWith "s." then some (.set (s.drop 2).toString "1")
  else if s.startsWith "u." then some (.unset (s.drop 2).toString)
  else none

inductive DrvOp
  | exec (usesVar : Option String) (s : Stmt Nat) (cteRef : Bool := false)
      -- `usesVar`: the text mentions `$NAME`; `cteRef`: the table expression the pre-check looks at is a reference to the statement's own CTE
  | other
  | close
  | connUse (s : Stmt Nat)                            -- an execute on ANOTHER cursor of the connection (conn.commit(), execute_string, write_pandas …)
  | descr (c : Call Nat)                              -- checked `cursor.description`: the DESCRIBE call and DuckDB's reaction to it

def parseOp (s : String) : Option DrvOp :=
  if s == "o" then some .other
  else if s == "c" then some .close
  else match s.splitOn ":" with
    | ["d", call] => (parseCall call).map .descr
    | ["u", calls] => do
      let cs ← (calls.splitOn ",").mapM parseCall
      pure (.connUse { calls := cs })
    | ["X", u, p, v, calls] => do
      let vu ← parseVar v
      let cs ← (if calls == "-" then some [] else (calls.splitOn ",").mapM parseCall)
      let uses := if u.startsWith "v." then some (u.drop 2).toString else none
      pure (.exec uses { undefinedVar := u == "1", parseError := p == "1", varUpdate := vu, calls := cs } true)
    | ["x", u, p, v, calls] => do
      let vu ← parseVar v
      let cs ← (if calls == "-" then some [] else (calls.splitOn ",").mapM parseCall)
      let uses := if u.startsWith "v." then some (u.drop 2).toString else none
      pure (.exec uses { undefinedVar := u == "1", parseError := p == "1", varUpdate := vu, calls := cs })
    | _ => none

/-- step-by-step trace of an op sequence: outcome, sqlstate, changed?, finding.  Whether a mentioned variable is
    undefined is decided from the model's own session variables (`Variables.inline_variables`). -/
def traceOps (w : World Nat) (st : Option String) : List DrvOp → List String
  | [] => []
  | .exec uses s0 cte :: ops =>
    let s : Stmt Nat := match uses with
      | some n => { s0 with undefinedVar := !(w.sess.vars.any (·.1 == n)) }
      | none => s0
    let r := execute engQ w s
    let changed := r.world.duck != w.duck || r.world.sess != w.sess
    let key := if cte && (r.outcome == .programming c90105 || r.outcome == .programming c90106) then "C07/cte-reference-needs-context"
               else (stmtFinding w.sess s).getD "-"
    s!"{encOutcome r.outcome}|{r.sqlstate.getD "-"}|{encBool changed}|{key}" :: traceOps r.world r.sqlstate ops
  | .connUse s :: ops =>
    let r := execute engQ w s
    s!"{encOutcome r.outcome}|{st.getD "-"}|{encBool (r.world.duck != w.duck)}|-" :: traceOps r.world st ops
  | .descr c :: ops => s!"{encOutcome (descriptionOutcome engQ w c)}|{st.getD "-"}|0|-" :: traceOps w st ops
  | .other :: ops => s!"-|{st.getD "-"}|0|-" :: traceOps w st ops
  | .close :: ops => s!"-|{st.getD "-"}|0|-" :: traceOps { w with closed := true } st ops

def handle : List String → String
  | ["scen", c, p, k, q, a, b] =>
    match parseCause c, parsePos p, parseRefKind k, parseQual q with
    | some c, some p, some k, some q =>
      let sc : Scenario := ⟨c, p, k, q, decBool a, decBool b⟩
      let i := predict sc
      let s := specOutcome sc
      s!"impl={encOutcome i.1}|{encBool i.2}\tspec={encOutcome s.1}|{encBool s.2}\tfinding={(scenarioFinding sc).getD "-"}"
    | _, _, _, _ => "bad-op"
  | ["ops", a, b, vars, ops] =>
    match (ops.splitOn ";").mapM parseOp with
    | none => "bad-op"
    | some os =>
      let vs := if vars == "-" then [] else (vars.splitOn ",").map fun n => (n, "1")
      let w : World Nat := { duck := 0, sess := { database := some "DB1", schema := some "S1", databaseSet := decBool a, schemaSet := decBool b, vars := vs } }
      s!"impl={";".intercalate (traceOps w none os)}"
  | _ => "bad-op"

end Fs.Drv.Err
