import Fs.Core.Wire
import Fs.Model.Rewrite
/-! Driver handler for the `rewrite` model (C10).  Optional arguments are `-` when absent. -/
namespace Fs.Drv.Rewrite
open Fs.Wire Fs.Rewrite Fs.Json

def parseNArg (s : String) : Option NArg :=
  if s == "s" then some .str else ((s.drop 1).toString.toNat?).map .num

def encNArg : NArg → String
  | .str => "s"
  | .num n => s!"n{n}"

def encNumOut : NumOut → String
  | .decimal p s => s!"D{encNArg p},{encNArg s}"
  | .notImplemented => "NI"

def parseUnit : String → Option DUnit
  | "year" => some .year | "quarter" => some .quarter | "month" => some .month | "week" => some .week
  | "day" => some .day | "hour" => some .hour | "minute" => some .minute | "second" => some .second | _ => none

def parseShape : String → Option DShape
  | "castDate" => some .castDate | "dateExpr" => some .dateExpr | "tsExpr" => some .tsExpr | "strLit" => some .strLit | _ => none

def encRType : RType → String
  | .date => "date" | .timestamp => "timestamp"

def parseRand (s : String) : Option RandArg :=
  if s == "none" then some .none else if s == "other" then some .other else ((s.drop 1).toString.toNat?).map .lit

def parseOptInt (s : String) : Option (Option Int) := if s == "-" then some none else s.toInt?.map some

def handle : List String → String
  | ["rx", pos, occ, params, group] =>
    let a : RxArgs := { position := decOptNat pos, occurrence := decOptNat occ, params := decOptStr params, group := decOptNat group }
    let o := rxRewrite a
    let sg := match a.group with | some g => g | none => if (a.params.getD []).contains 'e' then 1 else 0
    s!"indomain={encBool a.inDomain}\timpl_slice={o.sliceFrom}\timpl_group={o.group}\timpl_params={encStr o.params}\timpl_index={genIndex o.index}\tspec_from={a.position.getD 1}\tspec_group={sg}\tspec_occ={a.occurrence.getD 1}\tfinding={if a.ok then "-" else "C10/regexp-substr-e-default-group"}"
  | ["rr", pat, hasRepl, pos, occ, params] =>
    let node : Option StrNode := match pat with | "lit" => some .lit | "raw" => some .raw | "expr" => some .expr | _ => none
    match node with
    | none => "bad-op"
    | some n =>
      let a : RrArgs := { hasReplacement := decBool hasRepl, position := decOptNat pos, occurrence := decOptNat occ, params := decOptStr params }
      let out := match rrRule (dollarQuotedString n) a with
        | .rewritten d => s!"rewritten:{encBool d}" | .rejected => "rejected" | .untouched => "untouched"
      s!"impl={out}\tdoc_all={encBool a.docIsReplaceAll}"
  | ["aliasjoin", aliases, joins] =>
    let pj (t : String) : Option JoinOn :=
      if t == "n" then some .noOn else if t == "o" then some .other else ((t.drop 1).toString.toNat?).map .aliasLeft
    match (decList joins).mapM pj with
    | some js => "impl=" ++ encList ((aliasInJoin (decNatList aliases) js).map encBool)
    | none => "bad-op"
  | ["tots", scale] =>
    let sc := decOptNat scale
    let fn := match unixToTimeFn sc with | .toTimestamp => "to_timestamp" | .epochMs => "epoch_ms" | .makeTimestamp => "make_timestamp"
    s!"fn={fn}\ttzaware={encBool (toTimestampTzAware true sc)}"
  | ["decdesc", p, s] =>
    match p.toNat?, s.toNat? with
    | some p, some s => let r := parseDecimalType (renderDecimalType p s); s!"precision={r.1}\tscale={r.2}"
    | _, _ => "bad-op"
  | ["tonum", fn, args] =>
    match (decList args).mapM parseNArg with
    | none => "bad-op"
    | some as =>
      let impl := if fn == "to_number" then toNumberRule (slots as).1 (slots as).2.1 (slots as).2.2 else toDecimalAnonRule as
      match toNumberSpec as with
      | none => "unsupported"
      | some spec => s!"spec={encNumOut spec}\timpl={encNumOut impl}\tfinding=-"
  | ["round", m, d] =>
    match m.toInt?, d.toNat? with
    | some m, some d => s!"half_away={roundHalfAway m d}\ttrunc={truncDiv m d}"
    | _, _ => "bad-op"
  | ["dateadd", unit, shape] =>
    match parseUnit unit, parseShape shape with
    | some u, some s =>
      let key := if u == .quarter then "C10/dateadd-quarter" else if s == .dateExpr && u.dayOrLarger then "C10/dateadd-date-expression" else "-"
      s!"spec={encRType (dateaddSpec u s)}\timpl={encRType (dateaddImpl u s)}\tfinding={key}"
    | _, _ => "bad-op"
  | ["eqnull", a, b] =>
    match parseOptInt a, parseOptInt b with
    | some x, some y => s!"spec={encBool (equalNullSpec x y)}\timpl={encBool (isNotDistinct x y)}\tfinding=-"
    | _, _ => "bad-op"
  | ["values", n, underSelect, hasAlias] =>
    match n.toNat? with
    | some n =>
      match valuesRule (decBool underSelect) (decBool hasAlias) n with
      | some names => "names=" ++ encList (names.map encStr)
      | none => "names=-"
    | none => "bad-op"
  | ["seed", s] =>
    match s.toInt? with
    | some s => s!"indomain={encBool (seedInDomain s)}\tnum={seedNum s}\tden={seedDen}"
    | none => "bad-op"
  | ["random", calls] =>
    match (decList calls).mapM parseRand with
    | some cs =>
      let o := randomImpl cs
      let key := if cs.length > 1 then "C10/random-twice" else if cs == [.other] then "C10/random-negative-seed" else "-"
      s!"impl={encList (o.rewritten.map encBool)}\tspec={encList ((randomSpecRewritten cs).map encBool)}\tseed={encOptNat o.seed}\tfinding={key}"
    | none => "bad-op"
  | ["sha2", fn, len] =>
    let f : Option ShaFn := match fn with | "sha2" => some .sha2 | "sha2_hex" => some .sha2Hex | "sha2_binary" => some .sha2Binary | _ => none
    match f with
    | some f =>
      let out := match sha2Rule f (decOptNat len) with | .hex256 => "hex256" | .bin256 => "bin256" | .passedOn => "passedOn"
      s!"impl={out}"
    | none => "bad-op"
  | ["trim", s, chars, textCast] =>
    let cs := decOptStr chars
    let impl := trimImplG (decBool textCast) (decStr s) cs
    s!"spec=T{encStr (trimSpec (decStr s) cs)}\timpl=T{encStr impl}\tfinding={if cs.isSome && trimSpec (decStr s) cs != impl then "C10/trim-chars" else "-"}"
  | ["trim", s, chars] =>
    let cs := decOptStr chars
    s!"spec=T{encStr (trimSpec (decStr s) cs)}\timpl=T{encStr (trimImpl (decStr s) cs)}\tfinding={if cs.isSome && trimSpec (decStr s) cs != trimImpl (decStr s) cs then "C10/trim-chars" else "-"}"
  | _ => "bad-op"

end Fs.Drv.Rewrite
