import Fs.Core.Wire
import Fs.Model.Http
/-! Driver handler for the `http` model (C17). -/
namespace Fs.Drv.Http
open Fs.Wire Fs.Http

def encOptInt : Option Int → String | none => "-" | some i => toString i

def encWire (w : TsWire) : String := s!"{w.epoch},{w.fraction},{encOptInt w.tz}"
def encDec (d : Int × Option Int) : String := s!"{d.1},{encOptInt d.2}"

def parseTy (s : String) : DuckTy :=
  match s.splitOn ":" with
  | ["bigint"] => .bigint | ["integer"] => .integer | ["blob"] => .blob | ["boolean"] => .boolean
  | ["date"] => .date | ["double"] => .double | ["json"] => .json | ["time"] => .time
  | ["timestamptz"] => .timestamptz | ["timestamp_ns"] => .timestampNs | ["timestamp"] => .timestamp
  | ["varchar"] => .varchar
  | ["decimal", p, sc] => match p.toNat?, sc.toNat? with | some p, some sc => .decimal p sc | _, _ => .other
  | _ => .other

def encSf : Option SfTy → String
  | none => "-" | some .fixed => "fixed" | some .binary => "binary" | some .boolean => "boolean"
  | some .date => "date" | some .real => "real" | some .variant => "variant" | some .time => "time"
  | some .timestampTz => "timestamp_tz" | some .timestampNtz => "timestamp_ntz" | some .text => "text"

def encPy : Option PyTy → String
  | none => "-" | some .int => "int" | some .decimal => "Decimal" | some .float => "float" | some .str => "str"
  | some .bool => "bool" | some .date => "date" | some .time => "time" | some .naive => "naive"
  | some .aware => "aware" | some .bytes => "bytes" | some .bytearray => "bytearray" | some .list => "list"

def tyFinding (t : DuckTy) : String :=
  if isFixedScale0 t then "C17/fixed-scale0-int-vs-decimal"
  else if t == .blob then "C17/binary-bytearray-vs-bytes"
  else if t == .other then "C17/http500-undescribable-rows" else "-"

def encOptNat' : Option Nat → String | none => "-" | some n => toString n

def parseExec (s : String) : Option Exec :=
  match s.splitOn ":" with
  | ["P", e, st] => e.toInt?.map fun e => .progErr e st ""
  | ["X"] => some .otherExc
  | ["K", d, n, rc] => match n.toNat?, rc.toNat? with
    | some n, some rc => some (.ok (d == "1") n rc) | _, _ => none
  | _ => none

def encDesc : Desc → String | .cols => "cols" | .empty => "empty" | .raises => "raises"

def encObs : Obs → String
  | .progErr e st _ => s!"P:{e}:{st}" | .raw => "RAW" | .http500 => "H500"
  | .ok n rc d => s!"K:{n}:{rc}:{encDesc d}"

def parseBacking : String → Backing | "i" => .isolated | "p" => .path | _ => .shared

def parseQ (s : String) : Option Q :=
  match s.splitOn "," with
  | ["sv", n, v] => match n.toNat?, v.toInt? with | some n, some v => some (.setVar n v) | _, _ => none
  | ["gv", n] => n.toNat?.map .getVar
  | ["us", n] => n.toNat?.map .useSchema
  | ["cs"] => some .curSchema
  | ["put", v] => v.toInt?.map .put
  | ["all"] => some .getAll
  | ["begin"] => some .begin
  | ["commit"] => some .commit
  | ["rollback"] => some .rollback
  | ["fail"] => some .fail
  | ["bad"] => some .malformed
  | _ => none

/-- `L:<tok>:<backing>:<schema>` | `Q:<auth or ->:<q>` — tok/auth as code-point strings -/
def parseReq (s : String) : Option Req :=
  match s.splitOn ":" with
  | ["L", tok, b, sch] =>
    if sch == "-" then some (.login (decStr tok) (parseBacking b) none)
    else sch.toNat?.map fun sch => .login (decStr tok) (parseBacking b) (some sch)
  | ["Q", auth, q] => (parseQ q).map fun q => .query (decOptStr auth) q
  | _ => none

def encResp : Resp → String
  | .token t => s!"T:{encStr t}" | .unauthorized c => s!"U:{c}" | .status => "S"
  | .val v => s!"V:{encOptInt v}" | .schema n => s!"C:{encOptNat n}" | .rows vs => "R:" ++ ",".intercalate (vs.map toString)
  | .error => "E" | .unsupported => "X"

def handle : List String → String
  | ["ts", tz, us] =>
    match us.toInt? with
    | none => "bad-op"
    | some us =>
      let hasTz := decBool tz
      let m := (us % 1000000).toNat
      match encodeTs hasTz us with
      | none => s!"wire=ERR\tdec=ERR\toldexact={encBool (floatFractionExact m)}"
      | some w => s!"wire={encWire w}\tdec={encDec (decodeTs w)}\toldexact={encBool (floatFractionExact m)}"
  | ["tscol", mask, tz, xs] =>
    let col : List (Option Int) := (decList xs).map fun s => if s == "-" then none else s.toInt?
    let hasTz := decBool tz
    let enc (o : Option (List Slot)) : String := match o with
      | none => "ERR"
      | some ss => encList ((decodeCol ss).map fun d => match d with | none => "-" | some d => encDec d)
    let spec := encList ((specCol hasTz col).map fun d => match d with | none => "-" | some d => encDec d)
    s!"impl={enc (encodeCol (decBool mask) hasTz col)}\tspec={spec}"
  | ["time", us] =>
    match us.toNat? with
    | none => "bad-op"
    | some us =>
      let d := decodeTime (encodeTime us)
      s!"ns={encodeTime us}\tdec={d.1},{d.2.1},{d.2.2.1},{d.2.2.2}"
  | ["ty", t] =>
    let t := parseTy t
    let m := arrowMeta t
    let r := rowtypeNums t
    s!"sf={encSf (sfType t)}\trow={encOptNat' r.1},{encOptNat' r.2.1},{encOptNat' r.2.2}\tmeta={m.1},{m.2.1},{m.2.2}\timpl={encPy (httpPy t)}\tspec={encPy (inprocPy t)}\tfinding={tyFinding t}"
  | ["resp", e] =>
    match parseExec e with
    | none => "bad-op"
    | some e => s!"spec={encObs (specObs e)}\timpl={encObs (implObs e)}\tfinding={findingOf e}\tenv={encBool (execInEnv e)}"
  | ["sess", reqs] =>
    match (decList reqs).mapM parseReq with
    | none => "bad-op"
    | some rs => s!"out={encList ((run {} rs).2.map encResp)}"
  | ["slice", a] => s!"tok={encStr (slice17 (decStr a))}\thdr={encStr (authHeader (decStr a))}"
  | ["floatinexact", lo, hi] =>
    match lo.toNat?, hi.toNat? with
    | some lo, some hi =>
      let bad := (List.range (hi - lo)).filterMap fun i => if floatFractionExact (lo + i) then none else some (lo + i)
      s!"n={bad.length}\tfirst={encNatList (bad.take 20)}\tsum={bad.foldl (· + ·) 0}"
    | _, _ => "bad-op"
  | _ => "bad-op"

end Fs.Drv.Http
