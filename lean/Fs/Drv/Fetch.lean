import Fs.Core.Wire
import Fs.Model.Fetch
/-! Driver handler for the `fetch` model. -/
namespace Fs.Drv.Fetch
open Fs.Wire Fs.Fetch

def parseOp (s : String) : Option (Op Nat) :=
  let tl := (s.drop 1).toString
  match s.front with
  | 'x' => tl.toNat?.map fun n => .exec (List.range n)
  | 'y' => tl.toNat?.map fun v => .exec [v]        -- a statement answering with one (status) row
  | 'o' => some .one
  | 'f' => some .fail
  | 'p' => some .pandas
  | 'm' => tl.toNat?.map .many
  | 'a' => some .all
  | 's' => tl.toNat?.map .setAs
  | _ => none

def encOut : Out Nat → String
  | .unit => "u"
  | .noResult => "E"
  | .row none => "n"
  | .row (some i) => s!"r{i}"
  | .rows l => "l" ++ ",".intercalate (l.map toString)
  | .frame l => "p" ++ ",".intercalate (l.map toString)

def handle : List String → String
  | ["run", ops] =>
    match (decList ops).mapM parseOp with
    | none => "bad-op"
    | some os =>
      let i := (run ({} : Cur Nat) os).1
      let s := (srun ({} : SCur Nat) os).1
      s!"impl={encList (i.map encOut)}\tspec={encList (s.map encOut)}"
  | ["row", names] =>
    let ns := (decList names).map decString
    let r : Row Nat := ns.zipIdx
    let enc (l : List Nat) := ",".intercalate (l.map toString)
    let encD (d : Row Nat) := encList (d.map fun p => s!"{encString p.1}:{p.2}")
    s!"tuple={enc (tupleColumnwise r)}\tviadict={enc (tupleViaDict r)}\tdict={encD (dictRow r)}\tdistinct={encBool (namesDistinct r)}"
  | _ => "bad-op"

end Fs.Drv.Fetch
