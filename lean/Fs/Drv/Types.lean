import Fs.Core.Wire
import Fs.Model.Types
/-! Driver handler for the `types` model (C01). -/
namespace Fs.Drv.Types
open Fs.Wire Fs.Types

instance (k : Kind) (v : Val) : Decidable (dom k v) := by
  cases k <;> cases v <;> simp only [dom] <;> infer_instance
instance (d : Duck) (v : Val) : Decidable (duckDom d v) := by
  cases d <;> cases v <;> simp only [duckDom] <;> infer_instance
instance (v : Val) : Decidable (int64 v) := by
  cases v <;> simp only [int64] <;> infer_instance

/-- `NAME` or `NAME(a)` or `NAME(a,b)`; parameters matter for NUMBER/DECIMAL/NUMERIC only -/
def parseTy (s : String) : Option Kind :=
  match s.splitOn "(" with
  | [n] => parseSf n
  | [n, args] =>
    let as := ((args.dropEnd 1).toString.splitOn ",").map fun a => a.trimAscii.toString.toNat?
    match n, as with
    | "NUMBER", [some p, some sc] | "DECIMAL", [some p, some sc] | "NUMERIC", [some p, some sc] => some (.decimal p sc)
    | "NUMBER", [some p] | "DECIMAL", [some p] | "NUMERIC", [some p] => some (.decimal p 0)
    | _, _ => parseSf n
  | _ => none

def encDuck : Duck → String
  | .boolean => "BOOLEAN" | .tinyint => "TINYINT" | .smallint => "SMALLINT" | .integer => "INTEGER" | .bigint => "BIGINT"
  | .decimal p s => s!"DECIMAL({p},{s})" | .float4 => "FLOAT" | .double => "DOUBLE" | .varchar => "VARCHAR"
  | .date => "DATE" | .time => "TIME" | .timestamp => "TIMESTAMP" | .timestamptz => "TIMESTAMP WITH TIME ZONE"
  | .blob => "BLOB" | .json => "JSON" | .unknown => "?"

def encPy : Py → String
  | .bool => "bool" | .int => "int" | .decimal => "Decimal" | .float => "float" | .str => "str" | .date => "date"
  | .time => "time" | .naive => "naive" | .aware => "aware" | .bytes => "bytes" | .none => "-"

def parseVal (s : String) : Option Val :=
  match s.splitOn ":" with
  | ["bool", b] => some (.bool (b == "1"))
  | ["num", m, sc] => match m.toInt?, sc.toNat? with | some m, some sc => some (.num m sc) | _, _ => none
  | ["dbl", b] => b.toNat?.map .dbl
  | ["str"] => some (.str [])
  | ["date", d] => d.toInt?.map .date
  | ["time", t] => t.toNat?.map .time
  | ["ts", t] => t.toInt?.map .ts
  | ["bin", n] => n.toNat?.map fun n => .bin (List.replicate n 255)
  | ["json"] => some (.json [])
  | _ => none

def encSfName : SfName → String
  | .fixed => "fixed" | .real => "real" | .text => "text" | .boolean => "boolean" | .date => "date" | .time => "time"
  | .timestampNtz => "timestamp_ntz" | .timestampTz => "timestamp_tz" | .binary => "binary" | .variant => "variant"
  | .unmapped => "?"

def encDescr (d : SfName × Option Nat × Option Nat) : String := s!"{encSfName d.1},{encOptNat d.2.1},{encOptNat d.2.2}"

def tyFinding (k : Kind) : String :=
  match k with
  | .decimal _ 0 => "C01/number-scale0-decimal"
  | _ => "-"

def parseRow (s : String) : Row := if s == "e" then [] else (s.splitOn ",").map fun c => if c == "-" then none else c.toInt?
def encRow (r : Row) : String := if r.isEmpty then "e" else ",".intercalate (r.map fun c => match c with | none => "-" | some i => toString i)
def parseRows (s : String) : List Row := (decList s).map parseRow
def encRows (rs : List Row) : String := encList (rs.map encRow)

def firstLe (k : Int) (r : Row) : Bool := match r.head? with | some (some i) => i ≤ k | _ => false

def handle : List String → String
  | ["ty", t] =>
    match parseTy t with
    | none => "kind=-"
    | some k => s!"kind=ok\tduck={encDuck (toDuck k)}\timpl={encPy (pyOf (toDuck k))}\tspec={encPy (connPy k)}\tfinding={tyFinding k}\tdescr={encDescr (sfDescr (toDuck k))}\tdecl={match declDescr k with | none => "-" | some d => encDescr d}"
  | ["fits", t, v] =>
    match parseTy t, parseVal v with
    | some k, some v =>
      let d := decide (dom k v)
      let f := decide (duckDom (toDuck k) v)
      let env := decide (isIntFamily k = true → int64 v)
      let fk := if d && !f && !env then "C01/int-family-int64" else "-"
      s!"dom={encBool d}\tfits={encBool f}\tenv={encBool env}\tfinding={fk}"
    | _, _ => "bad-op"
  | ["decstr", digits, e] =>
    match digits.toNat?, e.toInt? with
    | some d, some e => s!"sci={encBool (pyDecimalStrSci d e)}\taccepted={encBool (pyformatDecimalAccepted d e)}"
    | _, _ => "bad-op"
  | ["copy", op, k, src, tgt] =>
    match k.toInt? with
    | none => "bad-op"
    | some k =>
      let db : Db := [("SRC", { cols := ["ID", "A", "B"], rows := parseRows src }),
                      ("TGT", { cols := ["ID", "A", "B"], rows := parseRows tgt }),
                      ("BY", { cols := ["X"], rows := [[some 7], [none]] })]
      let q : Query := { src := "SRC", pred := firstLe k, proj := id, projCols := id }
      let show' (d : Db) (n : String) : String := match get d n with | none => "-" | some t => encRows t.rows
      match op with
      | "clone" => match clone db "NEW" "SRC" with
        | none => "out=ERR"
        | some d => s!"out={show' d "NEW"}\tsrc={show' d "SRC"}\tby={show' d "BY"}\tcount=-"
      | "ctas" => match ctas db "NEW" false q with
        | none => "out=ERR"
        | some d => s!"out={show' d "NEW"}\tsrc={show' d "SRC"}\tby={show' d "BY"}\tcount=-"
      | "ins" => match insertSelect db "TGT" q with
        | none => "out=ERR"
        | some (d, c) => s!"out={show' d "TGT"}\tsrc={show' d "SRC"}\tby={show' d "BY"}\tcount={c}"
      | _ => "bad-op"
  | _ => "bad-op"

end Fs.Drv.Types
