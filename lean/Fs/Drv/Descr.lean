import Fs.Core.Wire
import Fs.Model.Descr
/-!
Driver handler for the `types` model (C06).
`col <duck type>`  → impl=<code>|<precision>|<scale>|<length> or impl=raise	py=<python type|->	agrees=<0|1|->
`kind <kind>`      → describe=<ofResult|ofOther|raises>
-/
namespace Fs.Drv.Descr
open Fs.Wire Fs.Descr

def encPy : PyType → String
  | .int => "int" | .decimal => "Decimal" | .float => "float" | .str => "str" | .date => "date" | .time => "time"
  | .datetime => "datetime" | .datetimeTz => "datetime-tz" | .bytes => "bytes" | .bool => "bool"

def parseKind : String → Option Kind
  | "query" => some .query | "statusSelect" => some .statusSelect | "seededQuery" => some .seededQuery
  | "txControl" => some .txControl | "use" => some .use | "rawCommand" => some .rawCommand
  | "beforeExecute" => some .beforeExecute | _ => none

def handle : List String → String
  | ["col", t] =>
    let ty := decStr t
    let py := pyOf ty
    match asColumnInfo ty with
    | none => s!"impl=raise\tpy={(py.map encPy).getD "-"}\tagrees=-"
    | some ci =>
      let ag := match py with
        | some p => encBool (agrees ci p)
        | none => "-"
      s!"impl={ci.type.code}|{encOptNat ci.precision}|{encOptNat ci.scale}|{encOptNat ci.length}\tpy={(py.map encPy).getD "-"}\tagrees={ag}"
  | ["kind", k] =>
    match parseKind k with
    | none => "bad-op"
    | some k =>
      let d := match describeLast k with
        | .ofResult => "ofResult" | .ofOther => "ofOther" | .raises => "raises"
      s!"describe={d}"
  | ["decl", kind, p, s] =>
    let d? : Option Decl := match kind with
      | "number" => some (.number (decOptNat p) (decOptNat s)) | "int" => some .intFamily | "float" => some .floatFamily | "text" => some .text
      | "boolean" => some .boolean | "date" => some .date | "time" => some .time | "tsNtz" => some .tsNtz | "tsPlain" => some (.tsPlain (decOptNat p))
      | "tsTz" => some .tsTz | "binary" => some .binary | "variant" => some .variant | _ => none
    match d? with
    | none => "bad-op"
    | some d =>
      let enc (c : SfType × Option Nat × Option Nat) := s!"{c.1.code}|{encOptNat c.2.1}|{encOptNat c.2.2}"
      s!"impl={(describedCore d).elim "raise" enc}\tspec={enc (declaredCore d)}\tfinding={(declFinding d).getD "-"}"
  | ["dkind", k] =>
    match parseKind k with
    | none => "bad-op"
    | some k =>
      let d := match describeOf k with
        | .ofResult => "ofResult" | .ofOther => "ofOther" | .raises => "raises"
      s!"describe={d}"
  | _ => "bad-op"

end Fs.Drv.Descr
