import Fs.Core.Wire
import Fs.Model.Merge
/-! Driver handler for the `merge` model.

request:  merge \t run \t <clauses> \t <tgt rows> \t <src rows>
  clause  := D:<rpn> | U:<rpn>:<assigns> | I:<rpn>:<vals>        (list separated by ";")
  rpn     := tokens separated by ","  :  T | t0=3 | t1<5 | s0>=2 | s1!=1 | & | | | !     (t<i>/s<i> = i-th non-key column)
  assigns := j=s<i> | j=c<n>  separated by ","   (target non-key column j := source column i / constant n)
  vals    := s<i> | c<n>      separated by ","   (values of ALL non-key target columns; the key columns receive the source key)
  row     := <key>|<v0>,<v1>,…   with <key> = N (NULL) or k0,k1,…
reply:  spec=<rows> impl=<rows> scount=<i,u,d> icount=<i,u,d|N> h1= h1c= h2= same= finding=
-/
namespace Fs.Drv.Merge
open Fs.Wire Fs.Merge

def parseCmp (tok : String) : Option Cond :=
  let mk? : Option (Nat → Col) := if tok.startsWith "t" then some Col.t else if tok.startsWith "s" then some Col.s else none
  match mk? with
  | none => none
  | some mk =>
    let r := (tok.drop 1).toString
    let digits := (r.takeWhile Char.isDigit).toString
    let rest := (r.drop digits.length).toString
    match digits.toNat? with
    | none => none
    | some i =>
      let c := mk i
      if rest.startsWith ">=" then ((rest.drop 2).toString.toNat?).map (Cond.cmp c .ge)
      else if rest.startsWith "!=" then ((rest.drop 2).toString.toNat?).map (Cond.cmp c .ne)
      else if rest.startsWith "=" then ((rest.drop 1).toString.toNat?).map (Cond.cmp c .eq)
      else if rest.startsWith "<" then ((rest.drop 1).toString.toNat?).map (Cond.cmp c .lt)
      else none

def parseRpn (toks : List String) : Option Cond :=
  let rec go : List String → List Cond → Option Cond
    | [], [c] => some c
    | [], _ => none
    | "T" :: r, st => go r (.tt :: st)
    | "&" :: r, b :: a :: st => go r (.and a b :: st)
    | "|" :: r, b :: a :: st => go r (.or a b :: st)
    | "!" :: r, a :: st => go r (.not a :: st)
    | t :: r, st => match parseCmp t with
      | some c => go r (c :: st)
      | none => none
  go toks []

def parseRhs (s : String) : Option Rhs :=
  if s.startsWith "s" then ((s.drop 1).toString.toNat?).map Rhs.src
  else if s.startsWith "c" then ((s.drop 1).toString.toNat?).map Rhs.const
  else none

def parseAssign (s : String) : Option (Nat × Rhs) :=
  match s.splitOn "=" with
  | [j, r] => do let j ← j.toNat?; let r ← parseRhs r; pure (j, r)
  | _ => none

def parseClause (s : String) : Option ClauseD :=
  match s.splitOn ":" with
  | ["D", rpn] => (parseRpn (rpn.splitOn ",")).map .del
  | ["U", rpn, as] => do
      let c ← parseRpn (rpn.splitOn ",")
      let as ← (as.splitOn ",").mapM parseAssign
      pure (.upd c as)
  | ["I", rpn, vs] => do
      let c ← parseRpn (rpn.splitOn ",")
      let vs ← (vs.splitOn ",").mapM parseRhs
      pure (.ins c vs)
  | _ => none

def parseNats (s : String) : Option (List Nat) := if s == "" then some [] else (s.splitOn ",").mapM (·.toNat?)

def parseKey (s : String) : Option (Option (List Nat)) := if s == "N" then some none else (parseNats s).map some

def parseRow (s : String) : Option (Option (List Nat) × List Nat) :=
  match s.splitOn "|" with
  | [k, v] => do let k ← parseKey k; let v ← parseNats v; pure (k, v)
  | _ => none

def encNats (l : List Nat) : String := ",".intercalate (l.map toString)
def encT (t : TRow) : String := (match t.key with | none => "N" | some k => encNats k) ++ "|" ++ encNats t.vals

def encCounts (cs : List Clause) (f : Kind → String) : String :=
  ",".intercalate ([Kind.ins, .upd, .del].map fun k => if hasKind cs k then f k else "_")

def handle : List String → String
  | ["run", cls, tg, sr] =>
    match (decList cls).mapM parseClause, (decList tg).mapM parseRow, (decList sr).mapM parseRow with
    | some cds, some tg, some sr =>
      let tgt : List TRow := tg.map fun p => ⟨p.1, p.2⟩
      let src : List SRow := sr.map fun p => ⟨p.1, p.2⟩
      let cs := cds.map ClauseD.toClause
      let sp := spec cs tgt src
      let im := impl cs tgt src
      let h1 := h1b tgt src
      let h1c := h1cb tgt src
      let h2 := h2b cs tgt src
      let same := im.isPerm sp
      let empty := (cands cs tgt src).isEmpty
      let sc := encCounts cs fun k => toString (specCount cs tgt src k)
      let ic := encCounts cs fun k => match implCount cs tgt src k with | none => "N" | some n => toString n
      let finding :=
        if !h1c then "out-of-scope:nondeterministic"
        else if !same then "C12/over-delete"
        else if empty then "C12/counts-null-no-candidates"
        else "-"
      s!"spec={encList (sp.map encT)}\timpl={encList (im.map encT)}\tscount={sc}\ticount={ic}\th1={encBool h1}\th1c={encBool h1c}\th2={encBool h2}\tsame={encBool same}\tfinding={finding}"
    | _, _, _ => "bad-op"
  | _ => "bad-op"

end Fs.Drv.Merge
