import Fs.Core.Wire
import Fs.Model.Merge
/-! Driver handler for the `merge` model.

request:  merge \t run \t <clauses> \t <tgt rows> \t <src rows>
  clause  := D:<rpn> | U:<rpn> | I:<rpn>           (list separated by ";")
  rpn     := tokens separated by ","  :  T | tx=3 | tv<5 | sy>=2 | sy!=1 | & | | | !
  tgt row := k.x.v   (k = N for NULL);  src row := k.y
reply:  spec=<rows> impl=<rows> scount=<i,u,d> icount=<i,u,d|N> h1= h1c= h2= same= finding=
-/
namespace Fs.Drv.Merge
open Fs.Wire Fs.Merge

def parseCmp (tok : String) : Option Cond :=
  let col? : Option Col := if tok.startsWith "tx" then some .tx else if tok.startsWith "tv" then some .tv
    else if tok.startsWith "sy" then some .sy else none
  match col? with
  | none => none
  | some c =>
    let r := (tok.drop 2).toString
    if r.startsWith ">=" then ((r.drop 2).toString.toNat?).map (Cond.cmp c .ge)
    else if r.startsWith "!=" then ((r.drop 2).toString.toNat?).map (Cond.cmp c .ne)
    else if r.startsWith "=" then ((r.drop 1).toString.toNat?).map (Cond.cmp c .eq)
    else if r.startsWith "<" then ((r.drop 1).toString.toNat?).map (Cond.cmp c .lt)
    else none

def parseRpn (toks : List String) : Option Cond :=
  let rec go : List String → List Cond → Option Cond
    | [], [c] => some c
    | [], _ => none
    | "T" :: r, st => go r (.tt :: st)
    | "&" :: r, b :: a :: st => go r (.and a b :: st)
    | "|" :: r, b :: a :: st => go r (.or a b :: st)
    | "!" :: r, a :: st => go r (.not a :: st)
    | t :: r, st => match parseCmp t with
      | some c => go r (c :: st)
      | none => none
  go toks []

def parseClause (s : String) : Option ClauseD :=
  match s.splitOn ":" with
  | [k, rpn] =>
    match parseRpn (rpn.splitOn ",") with
    | none => none
    | some c => if k == "D" then some (.del c) else if k == "U" then some (.upd c) else if k == "I" then some (.ins c) else none
  | _ => none

def parseKey (s : String) : Option (Option Nat) := if s == "N" then some none else s.toNat?.map some

def parseT (s : String) : Option TRow :=
  match s.splitOn "." with
  | [k, x, v] => do let k ← parseKey k; let x ← x.toNat?; let v ← v.toNat?; pure ⟨k, x, v⟩
  | _ => none

def parseS (s : String) : Option SRow :=
  match s.splitOn "." with
  | [k, y] => do let k ← parseKey k; let y ← y.toNat?; pure ⟨k, y⟩
  | _ => none

def encKey : Option Nat → String | none => "N" | some k => toString k
def encT (t : TRow) : String := s!"{encKey t.key}.{t.x}.{t.v}"

def encCounts (cs : List Clause) (f : Kind → String) : String :=
  ",".intercalate ([Kind.ins, .upd, .del].map fun k => if hasKind cs k then f k else "_")

def handle : List String → String
  | ["run", cls, tg, sr] =>
    match (decList cls).mapM parseClause, (decList tg).mapM parseT, (decList sr).mapM parseS with
    | some cds, some tgt, some src =>
      let cs := cds.map ClauseD.toClause
      let sp := spec cs tgt src
      let im := impl cs tgt src
      let h1 := h1b tgt src
      let h1c := h1cb tgt src
      let h2 := h2b cs tgt src
      let same := im.isPerm sp
      let empty := (cands cs tgt src).isEmpty
      let sc := encCounts cs fun k => toString (specCount cs tgt src k)
      let ic := encCounts cs fun k => match implCount cs tgt src k with | none => "N" | some n => toString n
      let finding :=
        if !h1c then "out-of-scope:nondeterministic"
        else if !same then "C12/over-delete"
        else if empty then "C12/counts-null-no-candidates"
        else "-"
      s!"spec={encList (sp.map encT)}\timpl={encList (im.map encT)}\tscount={sc}\ticount={ic}\th1={encBool h1}\th1c={encBool h1c}\th2={encBool h2}\tsame={encBool same}\tfinding={finding}"
    | _, _, _ => "bad-op"
  | _ => "bad-op"

end Fs.Drv.Merge
