import Fs.Core.Wire
import Fs.Spec.Json
/-!
Driver handler for the `json` model (C11).

Token stream (items separated by `;`, strings as code points):
  Json: `n` | `t` | `f` | `i<int>` | `s<str>` | `a<k>` k items | `o<k>` k × (`s<key>` value)
  E   : `C` | `Ln` | `Ls<str>` | `Li<int>` | `Lb0|1` | `X<seg,seg,…>` e  (seg = `k<str>` | `x<nat>`)
        | `K<str>` e | `D<digits>` e | `P` e | `Ct|Ci|Cb` e | `U` e | `W` e | `T` e | `A` e
        | `Oo|Oa|Oe|Oc|Op` e e | `N` e | `Z` e
-/
namespace Fs.Drv.Json
open Fs.Wire Fs.Json

def parseIntS (s : String) : Option Int := s.toInt?

mutual
def pJson : Nat → List String → Option (Json × List String)
  | 0, _ => none
  | _, [] => none
  | f + 1, t :: rest =>
    let tl := (t.drop 1).toString
    match t.front with
    | 'n' => some (.null, rest)
    | 't' => some (.bool true, rest)
    | 'f' => some (.bool false, rest)
    | 'i' => (parseIntS tl).map fun n => (.num n, rest)
    | 's' => some (.str (decStr tl), rest)
    | 'a' => tl.toNat?.bind fun k => (pList f k rest).map fun (l, r) => (.arr l, r)
    | 'o' => tl.toNat?.bind fun k => (pObj f k rest).map fun (o, r) => (.obj o, r)
    | _ => none
def pList : Nat → Nat → List String → Option (JList × List String)
  | 0, _, _ => none
  | _, 0, ts => some (.nil, ts)
  | f + 1, k + 1, ts =>
    (pJson f ts).bind fun (j, r) => (pList f k r).map fun (l, r') => (.cons j l, r')
def pObj : Nat → Nat → List String → Option (JObj × List String)
  | 0, _, _ => none
  | _, 0, ts => some (.nil, ts)
  | f + 1, k + 1, kt :: ts =>
    (pJson f ts).bind fun (j, r) => (pObj f k r).map fun (o, r') => (.cons (decStr (kt.drop 1).toString) j o, r')
  | _, _, _ => none
end

def parseJson (s : String) : Option Json :=
  let ts := decList s
  match pJson (ts.length + 1) ts with
  | some (j, []) => some j
  | _ => none

def pSeg (s : String) : Option Seg :=
  let tl := (s.drop 1).toString
  match s.front with
  | 'k' => some (.key (decStr tl))
  | 'x' => tl.toNat?.map .idx
  | _ => none

def pPath (s : String) : Option Path := if s.isEmpty then some [] else (s.splitOn ",").mapM pSeg

def pE : Nat → List String → Option (E × List String)
  | 0, _ => none
  | _, [] => none
  | f + 1, t :: rest =>
    let tl := (t.drop 1).toString
    let un (mk : E → E) := (pE f rest).map fun (e, r) => (mk e, r)
    match t.front with
    | 'F' => some (.fval, rest)
    | 'C' => match tl with
      | "" => some (.col, rest)
      | "t" => un (.cast · .text)
      | "i" => un (.cast · .int)
      | "b" => un (.cast · .bool)
      | _ => none
    | 'L' =>
      let tl2 := (tl.drop 1).toString
      match tl.front with
      | 'n' => some (.lit .null, rest)
      | 's' => some (.lit (.str (decStr tl2)), rest)
      | 'i' => (parseIntS tl2).map fun n => (.lit (.int n), rest)
      | 'b' => some (.lit (.bool (tl2 == "1")), rest)
      | _ => none
    | 'X' => (pPath tl).bind fun p => un (.jx · (.path p))
    | 'K' => un (.bracket · (.str (decStr tl)))
    | 'D' => un (.bracket · (.num (decStr tl)))
    | 'P' => un .paren
    | 'J' => un .parseJson
    | 'U' => un .upper
    | 'W' => un .lower
    | 'T' => un .trim
    | 'A' => un .arraySize
    | 'N' => un .not
    | 'Z' => un .isNull
    | 'O' =>
      let op : Option Op := match tl with
        | "o" => some .or | "a" => some .and | "e" => some .eq | "c" => some .concat | "p" => some .add | _ => none
      op.bind fun o => (pE f rest).bind fun (a, r) => (pE f r).map fun (b, r') => (.bin o a b, r')
    | _ => none

def parseE (s : String) : Option E :=
  let ts := decList s
  match pE (ts.length + 1) ts with
  | some (e, []) => some e
  | _ => none

def encVal : Val → String
  | .null => "N"
  | .json .null => "N"            -- Python's None
  | .json j => "J" ++ encStr (render j)
  | .text s => "T" ++ encStr s
  | .int n => s!"I{n}"
  | .bool b => if b then "B1" else "B0"
  | .err .conv => "Econv"
  | .err .binder => "Ebinder"
  | .err .parser => "Eparser"
  | .err .invalid => "Einvalid"
  | .unsup => "U"

/-- does the expression contain an operand that errs or is outside the model strictly below the root?
    (DuckDB may or may not evaluate it: outside the model) -/
def innerBad (doc : Env) (ev : Env → E → Val) : E → Bool
  | .bin _ a b => bad a || bad b || innerBad doc ev a || innerBad doc ev b
  | .not a => bad a || innerBad doc ev a
  | .paren a => innerBad doc ev a
  | _ => false
where bad (x : E) : Bool := match ev doc x with | .err _ => true | .unsup => true | _ => false

def isTextConv : E → Option E
  | .cast x _ => some x
  | .upper x => some x
  | .lower x => some x
  | .trim x => some x
  | _ => none

def stripParen : E → E
  | .paren x => stripParen x
  | x => x

def isPathJx : E → Bool
  | .jx _ (.path _) => true
  | _ => false

/-- the finding regions (keys of KNOWN_FINDINGS.txt), decided on the source tree and the document -/
def regions (doc : Env) : E → List String
  | .col => []
  | .fval => []
  | .lit _ => []
  | .jx x _ => regions doc x
  | .jxs x _ => regions doc x
  | .bracket x i =>
    (if !i.ok then ["C11/bracket-key-unescaped"] else []) ++
    (match x with | .bracket _ _ => ["C11/chained-brackets"] | _ => []) ++ regions doc x
  | .paren x => regions doc x
  | .parseJson x => regions doc x
  | .cast x _ => conv x ++ regions doc x
  | .upper x => conv x ++ regions doc x
  | .lower x => conv x ++ regions doc x
  | .trim x => conv x ++ regions doc x
  | .arraySize x => (if (evalSpec doc x).isEmptyArr then ["C11/array-size-empty"] else []) ++ regions doc x
  | .caseLen x => regions doc x
  | .bin o a b =>
    (if o == .eq && mixedEq (evalSpec doc a) (evalSpec doc b) then ["C11/string-eq-literal"] else []) ++
      regions doc a ++ regions doc b
  | .not x => regions doc x
  | .isNull x => regions doc x
where conv (x : E) : List String :=
  if !isPathJx x && (evalSpec doc x).isJsonStr then ["C11/text-of-non-path-variant-keeps-quotes"] else []

def encPairs (l : List (List Char × Json)) : String := "J" ++ encStr (render (.obj (JObj.ofList l)))

def parseArg (s : String) : Option Arg :=
  if s == "L" then some .litNull
  else if s == "E-" then some (.expr none)
  else if s.startsWith "E" then (parseJson ((s.drop 1).toString.replace "," ";")).map fun j => .expr (some j)
  else none

def parsePair (s : String) : Option (Option (List Char) × Arg) :=
  match s.splitOn "=" with
  | [k, a] => (parseArg a).map fun a => (if k == "-" then none else some (decStr k), a)
  | _ => none

def encRows : Except Err (List Val) → String
  | .ok rows => "R" ++ ",".intercalate (rows.map encVal)
  | .error .conv => "Econv"
  | .error .binder => "Ebinder"
  | .error .parser => "Eparser"
  | .error .invalid => "Einvalid"

/-- `text=tokens` pairs (tokens `,`-separated; `!` = the text is not JSON) -/
def parseEnvPair (s : String) : Option (List Char × Option Json) :=
  match s.splitOn "=" with
  | [k, "!"] => some (decStr k, none)
  | [k, v] => (parseJson (v.replace "," ";")).map fun j => (decStr k, some j)
  | _ => none

def evalReply (d : Env) (e : E) : String :=
      let spec := evalSpec d e
      let impl := evalDuck d (pipelineAll e)
      -- on trees without f.value the modelled sub-pipeline of the Ctx theorems must be the whole pipeline
      if !e.hasFval && pipelineAll e != pipeline e then "model-inconsistent pipelineAll≠pipeline" else
      if spec == .unsup || impl == .unsup || innerBad d evalSpec e then "unsupported"
      else
        let rs := regions d e
        s!"spec={encVal spec}\timpl={encVal impl}\tfinding={if rs.isEmpty then "-" else ",".intercalate rs}\tsrcok={encBool (SrcOK e)}\tprecok={encBool (PrecOK (pipeline e))}\tprecok_noparen={encBool (PrecOK (pipelineNoParen e))}"

def handle : List String → String
  | ["eval", doc, expr, env] =>
    match parseJson doc, parseE expr, (decList env).mapM parseEnvPair with
    | some d, some e, some ps => evalReply { doc := d, pj := fun s => (ps.find? (·.1 == s)).map (·.2) } e
    | _, _, _ => "bad-op"
  | ["eval", doc, expr] =>
    match parseJson doc, parseE expr with
    | some d0, some e =>
      let d : Env := { doc := d0 }
      let spec := evalSpec d e
      let impl := evalDuck d (pipelineAll e)
      -- on trees without f.value the modelled sub-pipeline of the Ctx theorems must be the whole pipeline
      if !e.hasFval && pipelineAll e != pipeline e then "model-inconsistent pipelineAll≠pipeline" else
      if spec == .unsup || impl == .unsup || innerBad d evalSpec e then "unsupported"
      else
        let rs := regions d e
        s!"spec={encVal spec}\timpl={encVal impl}\tfinding={if rs.isEmpty then "-" else ",".intercalate rs}\tsrcok={encBool (SrcOK e)}\tprecok={encBool (PrecOK (pipeline e))}\tprecok_noparen={encBool (PrecOK (pipelineNoParen e))}"
    | _, _ => "bad-op"
  | ["obj", pairs] =>
    match (decList pairs).mapM parsePair with
    | some ps =>
      let impl := match objectConstructDuck ps with | .ok l => encPairs l | .error _ => "Eparser"
      let key := if (objectConstructImpl ps).isEmpty then "C11/object-construct-empty"
                 else if noHidden ps then "-" else "C11/object-construct-hidden-null"
      s!"spec={encPairs (objectConstructSpec ps)}\timpl={impl}\tkeep={encPairs (objectConstructKeepNull ps)}\tfinding={key}"
    | none => "bad-op"
  | ["arr", items] =>
    match parseJson items with
    | some (.arr l) =>
      match arrayLitImpl l.toList with
      | .native xs => s!"spec=J{encStr (render (.arr l))}\timpl=L{encStr (render (.arr (JList.ofList xs)))}\tfinding=C11/array-literal-native-list"
      | .err => s!"spec=J{encStr (render (.arr l))}\timpl=Eany\tfinding=C11/array-literal-heterogeneous"
      | .unsup => "unsupported"
    | _ => "bad-op"
  | ["flatten", doc, mode] =>
    match parseJson doc with
    | some d =>
      let v : Val := .json d
      if mode == "index" then
        -- `f.index`: the position of each element; fakesnow's UNNEST alias only has VALUE (BinderException)
        match flattenSpec v with
        | .ok rows => s!"spec=R{",".intercalate ((List.range rows.length).map fun i => s!"I{i}")}\timpl=Ebinder\tfinding=C11/flatten-index"
        | .error _ => "unsupported"
      else
      let (spec, impl) := if mode == "text" then (flattenTextSpec v, flattenTextImpl v)
                          else if mode == "outer" then (flattenOuterSpec v, flattenImpl v) else (flattenSpec v, flattenImpl v)
      let key := match d with
        | .obj _ => "C11/flatten-object"
        | _ => if mode == "outer" && encRows spec != encRows impl then "C11/flatten-outer-ignored" else "-"
      s!"spec={encRows spec}\timpl={encRows impl}\tfinding={key}"
    | none => "bad-op"
  | ["split", str, sep] =>
    match decStr sep with
    | [c] => "pieces=" ++ ",".intercalate ((splitOn c (decStr str)).map encStr)
    | _ => "unsupported"
  | ["path", raw] =>
    match parsePath (decStr raw) with
    | none => "path=error"
    | some p => "path=" ++ ",".intercalate (p.map fun | .key k => "k" ++ encStr k | .idx n => s!"x{n}")
  | _ => "bad-op"
where noHidden (ps : Pairs) : Bool := ps.all fun (_, a) => a.isLitNull || a.val.isSome

end Fs.Drv.Json
