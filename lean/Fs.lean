import Fs.Core.Wire
import Fs.Model.Fetch
import Fs.Proofs.Fetch
import Fs.Proofs.FetchSpec
import Fs.Props.C05
import Fs.Drv.Fetch
