import json,subprocess,sys
props={json.loads(l)['id']:json.loads(l) for l in open('/verif/properties.jsonl')}
tmpl=open('/root/wt/REDTEAM.md').read()
for pid in sys.argv[1:]:
    n=3
    p=props[pid]; wt=f'/tmp/rt-{pid}'; out=f'/tmp/rt-out/{pid}'
    subprocess.run(['git','-C','/repo','worktree','remove','--force',wt],capture_output=True)
    subprocess.run(['git','-C','/repo','worktree','add','-q','--detach',wt],check=True)
    subprocess.run(['mkdir','-p',out])
    t=tmpl.replace('@ID@',pid).replace('@TITLE@',p['title']).replace('@STATEMENT@',p['statement']).replace('@QUANT@',p['quantifier']['text']).replace('@WT@',wt).replace('@OUT@',out).replace('@N@',str(n))
    t+="\nDo not read any file under /root/.claude or any 'memory' files; use only your worktree and the installed site-packages.\n"
    open(f'{out}/PROMPT.md','w').write(t)
    print(pid,'ready')
