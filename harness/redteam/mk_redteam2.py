import json,subprocess,sys,glob
props={json.loads(l)['id']:json.loads(l) for l in open('/verif/properties.jsonl')}
tmpl=open('/root/wt/REDTEAM.md').read()
rnd=sys.argv[1]
for pid in sys.argv[2:]:
    n=3
    p=props[pid]; wt=f'/tmp/rt{rnd}-{pid}'; out=f'/tmp/rt{rnd}-out/{pid}'
    subprocess.run(['git','-C','/repo','worktree','remove','--force',wt],capture_output=True)
    subprocess.run(['git','-C','/repo','worktree','add','-q','--detach',wt],check=True)
    subprocess.run(['mkdir','-p',out])
    t=tmpl.replace('@ID@',pid).replace('@TITLE@',p['title']).replace('@STATEMENT@',p['statement']).replace('@QUANT@',p['quantifier']['text']).replace('@WT@',wt).replace('@OUT@',out).replace('@N@',str(n))
    prev=[]
    for mf in sorted(glob.glob(f'/verif/seeded/{pid}/*/meta.json')):
        m=json.load(open(mf))
        notes=open(mf.replace('meta.json','notes.md')).read().strip().splitlines()
        first=next((l for l in notes if l.strip() and not l.startswith('#')), '')
        prev.append(f"  - {m.get('breaks') or first[:300]}")
    # also notes without meta 'breaks'
    t+="\nDo not read any file under /root/.claude or any 'memory' files; use only your worktree and the installed site-packages.\n"
    if prev:
        t+="\nEARLIER ROUND: the following seeded changes for this property already exist — produce DIFFERENT ones (different site, different mechanism, different triggering input), and prefer parts of the property's statement and quantifier that these do not touch:\n"+"\n".join(prev)+"\n"
    open(f'{out}/PROMPT.md','w').write(t)
    print(pid,'ready',len(prev),'previous')
