"""C16 — execute_string equals one-by-one execution; nop_regexes only no-op matches.

Correspondence (design/C16.md):
 (a) generated statement lists × literal contents × comment / whitespace / empty-statement placement × cursor class:
     `conn.execute_string(text)` on one database against executing the same statements one by one on a twin database
     (needs no model), against the table contents the harness knows the statements produce (needs no model either), and
     against the model (`Fs.Split`: number of cursors, what is applied when a statement fails / does not parse);
 (b) nop_regexes: pattern sets × commands, through `execute` and through `execute_string`, against the same commands on
     an instance without the option and against `Fs.Split.nopDecision`;
 (c) the literal generator model `Fs.Gen.sfLit` against sqlglot (shared with C15).
"""
from __future__ import annotations

import random
import re

from lib import common
from lib.common import dec_str, enc_list, enc_str
from props.c08 import ATOMS, canon, gen_str
from props.c15 import clean_str, sql_str

SEPS = [";", "; ", " ;\n", ";\n-- c ;\n", "; /* ; */ ", ";;", ";\n;\n", " ; -- x\n ;"]
LEADS = ["", "", "-- lead ;\n", "/* c; */ ", "\n  ", "// l\n"]
TAILS = ["", ";", " ;\n", "; -- end", ";\n/* end */", "\n"]
OK = [("str", "Statement executed successfully.")]


def lit(s: str, rnd: random.Random) -> str:
    if rnd.random() < 0.15 and "$" not in s and s and not s.endswith("\\") and "\\'" not in s and "''" not in s:
        return "$$" + s + "$$"
    return sql_str(s, rnd)


# ------------------------------------------------------------------------------------------------
def _err(e):
    import snowflake.connector.errors as se
    if isinstance(e, se.Error):
        return ("err", type(e).__name__, e.errno, e.sqlstate)
    return ("err", type(e).__name__, None, None)


def _rows(cur, cls):
    rows = cur.fetchall()
    if cls == "dict":
        return ("rows", [[canon(v) for v in r.values()] for r in rows], [list(r.keys()) for r in rows][:1], cur.rowcount)
    return ("rows", [[canon(c) for c in r] for r in rows], None, cur.rowcount)


def _table(conn):
    try:
        cur = conn.cursor()
        cur.execute("select id, v from t order by id")
        return [[canon(c) for c in r] for r in cur.fetchall()]
    except Exception as e:  # noqa: BLE001  (a missing table is an observation, not a harness failure)
        return [["unreadable", type(e).__name__]]


def _run_text(conn_a, conn_b, case):
    from snowflake.connector.cursor import DictCursor, SnowflakeCursor
    cls = DictCursor if case["cls"] == "dict" else SnowflakeCursor
    for c in (conn_a, conn_b):
        c.cursor().execute("create or replace table t (id int, v varchar)")
        c.cursor().execute("set usd = 5")
    # real
    try:
        curs = conn_a.execute_string(case["text"], remove_comments=case.get("rm", False), cursor_class=cls, return_cursors=case["rc"])
        real = [_rows(c, case["cls"]) for c in curs]
        real_exc = None
    except Exception as e:  # noqa: BLE001
        real, real_exc = None, _err(e)
    real_table = _table(conn_a)
    # twin: one by one, each statement as written
    twin, twin_exc = [], None
    for s in case["stmts"]:
        try:
            cur = conn_b.cursor(cls)
            cur.execute(s)
            twin.append(_rows(cur, case["cls"]))
        except Exception as e:  # noqa: BLE001
            twin_exc = _err(e)
            break
    twin_table = _table(conn_b)
    # the caller ends whatever transaction the text left open (COMMIT or ROLLBACK), then looks again
    fin = []
    for c in (conn_a, conn_b):
        try:
            cur = c.cursor()
            cur.execute(case.get("finish", "rollback"))
            fin.append(("rows", [[canon(x) for x in r] for r in cur.fetchall()]))
        except Exception as e:  # noqa: BLE001
            fin.append(_err(e))
    res = {"real": real, "real_exc": real_exc, "real_table": real_table, "twin": twin, "twin_exc": twin_exc, "twin_table": twin_table,
           "finish": fin, "real_table2": _table(conn_a), "twin_table2": _table(conn_b)}
    for c in (conn_a, conn_b):   # leave no open transaction behind
        try:
            c.cursor().execute("rollback")
        except Exception:  # noqa: BLE001
            pass
    return res


NOP_SETS = [None, [], ["^call "], [r"^CALL\s", r"create\s+stage"], ["^insert", r"^ *select 'x'"], [r"^/\* *skip"], [".*drop"], ["^nomatch$"], ["(?i)^SELECT 2"],
            ["call ", "stage", "base"],
            # sets of ≥ 2 patterns, each valid on its own, that mean something else when glued together: a back-reference, an inline
            # flag, a named group used twice, a conditional group in a later pattern
            [r"^(CALL|GRANT)\b", r"""^ALTER\s+SESSION\s+SET\s+\w+\s*=\s*(['"]).*\1\s*$"""],
            ["^call ", r"(?s)^create\s+stage.*url"],
            [r"^(?P<kw>call)\s", r"^(?P<kw>grant)\s"],
            [r"^(x)?select 77$", r"^(alter )?(?(1)session|create\s+stage)"],
            [r"^select 'x'$", r"(?i)^INSERT"]]
NOP_CMDS = [("call foo()", None), (" CALL foo()", None), ("CaLl foo(1, 'a;b')", None), ("create stage s1", None), ("CREATE   STAGE s1 url='x'", None),
            ("insert into t values (1, 'x')", None), ("INSERT INTO t values (2, 'y')", None), ("select 'x'", None), ("select %s", ("x",)), ("select %s", ("y",)),
            ("/* skip */ insert into t values (3, 'z')", None), ("/*skip*/ select nonsense from", None), ("drop table t2", None), ("select 'drop'", None),
            ("select 1", None), ("select 2", None), ("select 'create  stage', 'call me'", None), ("update t set v = 'call ' where v = 'base'", None),
            ("nomatch", None), ("delete from t where id = 1", None),
            ("alter session set query_tag = 'x'", None), ("ALTER SESSION SET QUERY_TAG = \"q\"", None), ("alter session set query_tag = 'x\"", None),
            ("grant select on t to role r", None), ("create stage s2\n url='x'", None), ("alter session set a = 1", None), ("alter table t set comment = 'c3'", None),
            ("comment on table t is 'c4'", None),
            # phase order: the patterns see the command after variable inlining; an undefined reference raises first
            ("select $nv", None), ("call foo($nv)", None), ("call foo($undefined_zz)", None), ("$kw foo()", None)]
NOP_QCMDS = [("call foo(?)", ("x",)), ("call foo(?, ?)", ("x", 2)), ("select ?", ("x",)), ("insert into t values (?, ?)", (7, "q")), ("create stage s url = ?", ("u",)),
             ("grant select on t to role ?", ("r",))]      # executed on a connection made under paramstyle qmark
NOP_TEXTS = ["call foo(); select 1", " call foo()", "-- c\ncall foo()", "insert into t values (5, 'a;b'); select 'x'; /* skip */ select 3", "select 2; drop table t2; select 'x'",
             "create stage s; insert into t values (6, 'q')", "call foo(); grant select on t to role r", "alter session set query_tag = 'x'; select 1"]


NOP_VARS = {"$nv": "'x'", "$kw": "call"}      # session variables set by `_reset`, as their stored text


def _inlined(cmd, params):
    """the command text the nop patterns see: variables inlined, then parameters substituted"""
    for k, v in NOP_VARS.items():
        cmd = cmd.replace(k, v)
    return cmd % tuple("'" + x + "'" for x in params) if params else cmd


def _run_nop(pats):
    """every command under patch(nop_regexes=pats), each from the same initial state: (result, state before, state after).
    The state before is the state `_reset` builds (dumped once per instance); a command that matches a pattern gets the FULL dump
    (rows, tables with comments, columns), the others the light one (rows, tables with comments)."""
    import fakesnow
    import snowflake.connector as sc
    out = []
    with fakesnow.patch(nop_regexes=pats):
        conn = sc.connect(database="d", schema="s")
        _reset(conn)
        before = {True: _state(conn, True), False: _state(conn, False)}
        for cmd, params in NOP_CMDS:
            _reset(conn)
            full = bool(pats) and any(re.match(p, _inlined(cmd, params), re.IGNORECASE) for p in pats)
            cur = conn.cursor()
            try:
                cur.execute(cmd, params)
                r = ("rows", [[canon(c) for c in row] for row in cur.fetchall()], [d.name for d in cur.description], cur.rowcount)
            except Exception as e:  # noqa: BLE001
                r = _err(e)
            out.append((r, before[full], _state(conn, full)))
        for text in NOP_TEXTS:
            _reset(conn)
            try:
                r = [("rows", [[canon(c) for c in row] for row in c.fetchall()], None, c.rowcount) for c in conn.execute_string(text)]
            except Exception as e:  # noqa: BLE001
                r = _err(e)
            out.append((r, before[False], _state(conn, False)))
        sc.paramstyle = "qmark"
        try:
            qconn = sc.connect(database="d", schema="s")
        finally:
            sc.paramstyle = "pyformat"
        for cmd, params in NOP_QCMDS:
            _reset(conn)
            cur = qconn.cursor()
            try:
                cur.execute(cmd, params)
                r = ("rows", [[canon(c) for c in row] for row in cur.fetchall()], [d.name for d in cur.description], cur.rowcount)
            except Exception as e:  # noqa: BLE001
                r = _err(e)
            out.append((r, before[False], _state(conn, False)))
    return out


def _reset(conn):
    """same initial state before every command, built with statements no pattern set matches; the table has a comment that was
    set by COMMENT ON and then changed by ALTER TABLE (side tables hold state a no-op'ed statement must not touch)"""
    for q in ("set nv = 'x'", "set kw = call", "create or replace table t as select 100 as id, 'base'::varchar as v", "create or replace table t2 as select 1 as id",
              "comment on table t is 'c1'", "alter table t set comment = 'c2'"):
        try:
            conn.cursor().execute(q)
        except Exception:  # noqa: BLE001  (shows up in the state dump)
            pass


def _q(conn, sql):
    try:
        cur = conn.cursor()
        cur.execute(sql)
        return [[canon(c) for c in r] for r in cur.fetchall()]
    except Exception as e:  # noqa: BLE001  (a missing table is an observation, not a harness failure)
        return [["unreadable", type(e).__name__]]


def _state(conn, full=True):
    """dump of what a statement could have touched: rows, tables with their comments — and, for the full dump, the columns"""
    d = {"rows": _q(conn, "select 't' as tbl, id, v from t union all select 't2', id, null from t2 order by 1, 2"),
         "tables": _q(conn, "select table_name, table_type, comment from information_schema.tables where table_schema = 'S' order by table_name")}
    if full:
        d["columns"] = _q(conn, "select table_name, column_name, data_type, comment from information_schema.columns where table_schema = 'S' order by table_name, ordinal_position")
    return d


def _worker(shard):
    import fakesnow
    import snowflake.connector as sc
    out = []
    texts = [c for c in shard if c["kind"] == "text"]
    if texts:
        with fakesnow.patch():
            a = sc.connect(database="da", schema="s")
            b = sc.connect(database="db", schema="s")
            res = {id(c): _run_text(a, b, c) for c in texts}
    for c in shard:
        if c["kind"] == "text":
            out.append(res[id(c)])
        else:
            # several nop_regexes configurations one after the other in ONE process, all running the same statement texts
            out.append([_run_nop(p_) for p_ in c["group"]])
    return out


# ------------------------------------------------------------------------------------------------
def _judge_text(chk, case, res, count_rep, run_rep):
    desc = {"kind": "text", "rm": case.get("rm", False), "oracle": case.get("oracle", True), "text": case["text"], "stmts": case["stmts"], "flags": case["flags"], "cls": case["cls"], "rc": case["rc"],
            "effects": case["effects"], "tbl_ops": case["tbl_ops"], "final": case["final"], "finish": case.get("finish", "rollback")}
    chk.case(("text", case["text"], case["cls"], case["rc"]), nontrivial=len(case["stmts"]) > 1)
    chk.count("texts")
    chk.count("flags:" + ("all-ok" if set(case["flags"]) <= {"o"} else "exec-failure" if "f" in case["flags"] else "unparseable"))
    chk.count("cls:" + case["cls"])
    flags = case["flags"]
    nbad = next((i for i, f in enumerate(flags) if f != "o"), None)
    # specification from the generator's knowledge: results of the statements before the first bad one, table after them
    want_results = [(e[0], e[1]) for e in case["effects"][: nbad if nbad is not None else len(flags)] if e is not None]
    want_table, want_table2 = _spec_table(case, nbad)
    if not case.get("oracle", True):
        want_results, want_table, want_table2 = [(r[0], r[1]) for r in res["twin"]], res["twin_table"], res["twin_table2"]
        chk.count("texts:twin-only-oracle")
    problems = []
    real_res = None if res["real"] is None else [(r[0], r[1]) for r in res["real"]]
    if nbad is None:
        if res["real_exc"] is not None:
            problems.append(f"raised {res['real_exc']}")
        elif case["rc"] and real_res != want_results:
            problems.append(f"cursor results {_short(real_res)} ≠ the statements' results {_short(want_results)}")
        elif not case["rc"] and res["real"] != []:
            problems.append(f"return_cursors=False returned {_short(res['real'])}")
        if case["rc"] and res["real"] is not None and count_rep["n"] != str(len(res["real"])):
            chk.violation(f"`{case['text']}`: {len(res['real'])} cursors returned but Fs.Split.stmtCount = {count_rep['n']}", desc,
                          broken="C16_split (correspondence Fs.Split.stmtCount)", failing_input=False)
        if case["cls"] == "dict" and res["real"] and res["twin"] and [r[2] for r in res["real"]] != [r[2] for r in res["twin"]]:
            problems.append(f"DictCursor keys {[r[2] for r in res['real']]} ≠ one-by-one {[r[2] for r in res['twin']]}")
    else:
        if res["real_exc"] is None:
            problems.append(f"statement #{nbad} `{case['stmts'][nbad]}` must fail but execute_string returned {_short(real_res)}")
        elif res["real_exc"] != res["twin_exc"]:
            problems.append(f"error {res['real_exc']} ≠ one-by-one error {res['twin_exc']}")
    if res["real_table"] != want_table:
        problems.append(f"table afterwards {_short(res['real_table'])} ≠ {_short(want_table)} (statements before the first failing one applied, later ones not)")
    if res["real_table2"] != want_table2 or res["finish"][0] != res["finish"][1]:
        problems.append(f"after the caller's `{case.get('finish')}` ({res['finish'][0]}; one-by-one: {res['finish'][1]}) the table is {_short(res['real_table2'])} ≠ {_short(want_table2)}")
    # the twin must agree with the generator's knowledge, otherwise the harness itself is wrong
    if res["twin_table"] != want_table or res["twin_table2"] != want_table2 or [(r[0], r[1]) for r in res["twin"]] != want_results:
        if not problems and case.get("oracle", True):
            # execute_string gives what the statements mean, executing them one by one does not: the two differ
            chk.violation(f"execute_string({case['text']!r}) ≠ one-by-one execution: through execute_string the results are {_short(real_res)} and the table "
                          f"{_short(res['real_table'])} (what the statements mean), executed one by one with cursor.execute: results {_short([(r[0], r[1]) for r in res['twin']])}, "
                          f"table {_short(res['twin_table'])}", desc, broken="C16_exec_string_partial (twin-instance comparison: one-by-one side deviates)")
            return
        chk.violation(f"harness oracle disagrees with one-by-one execution on `{case['text']}`: twin table {_short(res['twin_table'])} results {_short(res['twin'])}; "
                      f"expected {_short(want_table)} {_short(want_results)}", desc, broken="harness oracle (C16 generator)", failing_input=False)
        return
    if not problems:
        spec = run_rep["spec"].split(",")
        if int(spec[0]) != (nbad if nbad is not None else len(flags)):
            chk.violation(f"model oneByOne applies {spec[0]} statements, expected {nbad}", desc, broken="C16_stops_at_first_failure (model)", failing_input=False)
        chk.count("held")
        return
    what = f"execute_string({case['text']!r}, remove_comments={case.get('rm', False)}, cursor_class={case['cls']}, return_cursors={case['rc']}): " + "; ".join(problems)
    if run_rep["finding"] != "-":
        impl = run_rep["impl"].split(",")
        # prediction of the model of the code: nothing applied, no cursors, a parse-time error
        if int(impl[0]) == 0 and res["real_table"] == [] and res["real_table2"] == [] and res["real_exc"] is not None and res["real_exc"][1] in ("ParseError", "TokenError"):
            chk.finding(run_rep["finding"], what, desc)
            return
    if count_rep.get("rawref") == "1" and not case.get("oracle", True) and res["real_exc"] == res["twin_exc"]:
        # a `$$` string with `$word` text: the two paths show the variable phase different spellings of it (no finer prediction is
        # made than "both end the same way — to the end, or with the same error —, results/tables differ")
        chk.finding("C16/dollar-string-rerender-exposes-reference", what, desc)
        return
    chk.violation(what, desc, broken="C16_exec_string_partial/C16_stops_at_first_failure/C16_literal_roundtrip (twin-instance comparison)")


def _spec_table(case, nbad):
    """replay the generator's bookkeeping up to the first bad statement: (table as the connection sees it after the text,
    table after the caller's COMMIT / ROLLBACK)"""
    table: dict[int, str] = {}
    snapshot = None          # table at BEGIN while a transaction is open
    for j, s in enumerate(case["stmts"]):
        if nbad is not None and j >= nbad:
            break
        eff = case["tbl_ops"][j]
        if eff is None:
            continue
        if eff[0] == "put":
            table[eff[1]] = eff[2]
        elif eff[0] == "del":
            table.pop(eff[1], None)
        elif eff[0] == "begin":
            if snapshot is None:
                snapshot = dict(table)
        elif eff[0] == "commit":
            snapshot = None
        elif eff[0] == "rollback":
            if snapshot is not None:
                table, snapshot = snapshot, None
    seen = [[("int", k), ("str", v)] for k, v in sorted(table.items())]
    if case.get("finish", "rollback") == "rollback" and snapshot is not None:
        table = snapshot
    return seen, [[("int", k), ("str", v)] for k, v in sorted(table.items())]


def _judge_nop(chk, pats, with_opt, without_opt):
    import sqlglot
    cmds = [(c, p, "execute") for c, p in NOP_CMDS] + [(t, None, "execute_string") for t in NOP_TEXTS] + [(c, p, "execute_q") for c, p in NOP_QCMDS]
    lines, metas = [], []
    for cmd, params, how in cmds:
        if how in ("execute", "execute_q"):
            text = _inlined(cmd, params if how == "execute" else None)      # qmark: the values stay values, the text is the command
            vec = [bool(re.match(p, text, re.IGNORECASE)) for p in (pats or [])]
            lines.append(f"split\tnop\t{1 if pats is not None else 0}\t" + enc_list(["1" if v else "0" for v in vec]))
            metas.append([text])
        else:
            texts = [e.sql(dialect="snowflake") for e in sqlglot.parse(cmd, read="snowflake") if e and not isinstance(e, sqlglot.exp.Semicolon)]
            metas.append(texts)
            for t in texts:
                vec = [bool(re.match(p, t, re.IGNORECASE)) for p in (pats or [])]
                lines.append(f"split\tnop\t{1 if pats is not None else 0}\t" + enc_list(["1" if v else "0" for v in vec]))
    reps = iter(common.batch(lines))
    for (cmd, params, how), texts, (r, before, after), (r0, before0, after0) in zip(cmds, metas, with_opt, without_opt):
        decisions = [next(reps)["nop"] == "1" for _ in texts]
        case = {"kind": "nop", "pats": pats, "cmd": cmd, "params": params, "how": how}
        chk.case(("nop", repr(pats), cmd, repr(params), how), nontrivial=bool(pats))
        chk.count("nop:" + how + (":match" if any(decisions) else ":nomatch"))
        if "$undefined_zz" in cmd:
            if not (isinstance(r, tuple) and r[:2] == ("err", "ProgrammingError")) or after != before:
                chk.violation(f"nop_regexes={pats}: `{cmd}` references an undefined session variable: it must raise ProgrammingError and change nothing "
                              f"(whether or not a pattern matches), got {_short(r)}", case, broken="C16_prepare_error_before_nop")
            continue
        if how in ("execute", "execute_q"):
            if decisions[0]:
                ok = r[0] == "rows" and r[1] == [OK] and r[2] == ["status"]
                # no effect: the tables are what they were before the command — compare with the state before, which is the state after the previous command
                if not ok:
                    chk.violation(f"nop_regexes={pats}: `{cmd}` {params or ''} matches ({texts[0]!r}) but returned {_short(r)} instead of the success status", case,
                                  broken="C16_nop_matches (correspondence Fs.Split.nopDecision)")
                case["effect_check"] = True
            elif (r, after) != (r0, after0):
                chk.violation(f"nop_regexes={pats}: `{cmd}` {params or ''} matches no pattern but behaves differently from an instance without the option: {_short((r, _diff(after, after0)))} vs {_short((r0, _diff(after0, after)))}",
                              case, broken="C16_nop_no_match (correspondence Fs.Split.nopDecision)")
        else:
            if isinstance(r, tuple) and r and r[0] == "err":
                got = r
            else:
                got = [x[1] for x in r]
            if all(not d for d in decisions):
                if (r, after) != (r0, after0):
                    chk.violation(f"nop_regexes={pats}: execute_string(`{cmd}`) matches no pattern but differs from an instance without the option: {_short((r, _diff(after, after0)))} vs {_short((r0, _diff(after0, after)))}",
                                  case, broken="C16_nop_no_match")
            elif isinstance(got, list):
                for d, g, t in zip(decisions, got, texts):
                    if d and g != [OK]:
                        chk.violation(f"nop_regexes={pats}: statement `{t}` of execute_string(`{cmd}`) matches but returned {g}", case, broken="C16_nop_matches")
                if all(decisions) and after != before:
                    chk.violation(f"nop_regexes={pats}: every statement of execute_string(`{cmd}`) matches, yet the state changed: {_diff(before, after)} → {_diff(after, before)}",
                                  case, broken="C16_nop_matches / C16_nop_history (no effect)")
            elif all(decisions):
                chk.violation(f"nop_regexes={pats}: every statement of execute_string(`{cmd}`) matches but it raised {got}", case, broken="C16_nop_matches")
    return


def _short(x):
    s = repr(x)
    return s if len(s) < 300 else s[:300] + "…"


def _diff(a, b):
    """the parts of state dump a that differ from b"""
    return {k: v for k, v in a.items() if b.get(k) != v}


def _nop_effects(chk, pats, with_opt, without_opt):
    """a matching command has no effect: the full state dump after it (rows, tables, comments, columns) = the dump before it"""
    for (cmd, params), (r, before, after) in zip(NOP_CMDS, with_opt):
        text = _inlined(cmd, params)
        matched = bool(pats) and any(re.match(p, text, re.IGNORECASE) for p in pats) and "$undefined_zz" not in cmd
        if matched and after != before:
            chk.violation(f"nop_regexes={pats}: after `comment on table t is 'c1'; alter table t set comment = 'c2'` the statement `{cmd}` matches a pattern "
                          f"but changed the state: before {_diff(before, after)}, after {_diff(after, before)}", {"kind": "nop", "pats": pats, "cmd": cmd},
                          broken="C16_nop_matches / C16_nop_history (no effect)")


def gen_cases(chk):
    rnd = random.Random(chk.seed)
    n = 220 if chk.tier == "quick" else 8000
    cases = []
    for k in range(n):
        force = None if k % 5 < 3 else ("f" if k % 5 == 3 else "p")
        cases.append(_gen(rnd, k, force))
    return cases


ZW = ["\ufeff", "\u200b", "\xad", "\u2028", "\x85", "\u200d", "\u2060", "\u00a0", "\ufffe"]   # BOM / zero-width / unusual separators: data inside a literal


def lit_value(rnd) -> str:
    """literal content: adversarial string, often with a zero-width or otherwise unusual code point somewhere in it"""
    s_ = clean_str(rnd)
    if rnd.random() < 0.35:
        for _ in range(rnd.randint(1, 2)):
            k = rnd.randint(0, len(s_))
            s_ = s_[:k] + rnd.choice(ZW) + s_[k:]
    return s_


def both_sides(stmt: str, rnd) -> str:
    """comments before AND after one statement (block and line comments), still one statement"""
    if stmt == "select 'unterminated" or rnd.random() > 0.3:
        return stmt
    lead = rnd.choice(["/* a */ ", "/* a */ /* b */ ", "-- a ;\n", "/* a; */\n", "// a\n"])
    trail = rnd.choice([" /* z */", " /* y */ /* z */", " -- z\n", "\n/* z; */ ", " /* y */ -- z\n"])
    return lead + stmt + trail


def _gen(rnd, tid, force):
    """statement list with the python-level bookkeeping of its effects"""
    table: dict[int, str] = {}
    stmts, flags, effects, tbl_ops = [], [], [], []
    n = rnd.randint(1, 7)
    bad_at = rnd.randrange(n) if force else None
    dollar = force is None and rnd.random() < 0.12
    bad_seen = False
    tx = rnd.random() < 0.35        # the text opens a transaction (and maybe leaves it open, also at a failure)
    if tx:
        n += 1
        bad_at = None if bad_at is None else bad_at + 1
    for j in range(n):
        k = rnd.random()
        if tx and j == 0:
            stmts.append(rnd.choice(["begin", "BEGIN", "begin transaction"]))
            flags.append("o"); effects.append(("rows", [OK])); tbl_ops.append(("begin",))
            continue
        if tx and j == n - 1 and j != bad_at and j > 1 and k < 0.4:
            w = rnd.choice(["commit", "rollback"])
            stmts.append(w)
            flags.append("o"); effects.append(("rows", [OK])); tbl_ops.append((w,))
            if w == "rollback":
                table.clear()
            continue
        if j == bad_at:
            if force == "f":
                stmts.append(rnd.choice(["select * from missing_tbl", "insert into nowhere values (1)", "select nocolumn from t"]))
            else:
                stmts.append(rnd.choice(["select 1 +", "select from where (", "insert into t values (1, 'x'", "select 'unterminated"]))
            flags.append(force)
            effects.append(None)
            tbl_ops.append(None)
            if stmts[-1] == "select 'unterminated":
                break
            continue
        ids = list(table)
        if dollar and k < 0.5:
            # `$name` inside a `$$` string / a literal: whatever the variable phase does with it (C15's recorded finding), it must do
            # the same through execute_string and one by one — judged against the twin only
            body = rnd.choice(["price in $usd", "$usd", "a $USD b -- c", "cost $zz9"])
            i = tid * 100 + j
            stmts.append(rnd.choice([f"insert into t values ({i}, $${body}$$)", f"select $${body}$$, 1", f"insert into t (id, v) values ({i}, '{body}')"]))
            flags.append("f" if "zz9" in body else "o")
            effects.append(None)
            tbl_ops.append(None)
            if "zz9" in body:
                bad_seen = True
            continue
        if k < 0.45 or not ids:
            i, s = tid * 100 + j, lit_value(rnd)
            stmts.append(f"{rnd.choice(['insert into', 'INSERT INTO', 'Insert  Into'])} t {rnd.choice(['', '(id, v) '])}values ({i}, {lit(s, rnd)})")
            table[i] = s
            effects.append(("rows", [[("int", 1)]]))
            tbl_ops.append(("put", i, s))
        elif k < 0.6:
            i, s = rnd.choice(ids), lit_value(rnd)
            stmts.append(f"update t set v = {lit(s, rnd)} where id = {i}")
            table[i] = s
            effects.append(("rows", [[("int", 1), ("int", 0)]]))
            tbl_ops.append(("put", i, s))
        elif k < 0.68:
            i = rnd.choice(ids)
            stmts.append(f"delete from t where id = {i}")
            del table[i]
            effects.append(("rows", [[("int", 1)]]))
            tbl_ops.append(("del", i))
        elif k < 0.85:
            i = rnd.choice(ids)
            stmts.append(f"select v from t where id = {i}")
            effects.append(("rows", [[("str", table[i])]]))
            tbl_ops.append(None)
        elif k < 0.93:
            a, b = lit_value(rnd), lit_value(rnd)
            alias = rnd.choice(['"a;b"', '"a;b"', '"k\ufeffk"', '"z\u200bw -- x"'])
            stmts.append(f"select {lit(a, rnd)}, {lit(b, rnd)} as {alias}")
            effects.append(("rows", [[("str", a), ("str", b)]]))
            tbl_ops.append(None)
        else:
            st, ef = rnd.choice([("select regexp_replace('a.b.c', $$\\.$$, '-'), regexp_substr('ab12', $$[0-9]+$$)", ("rows", [[("str", "a-b-c"), ("str", "12")]])),
                                 ("select $$x$$ || 'y', upper($$ab$$), regexp_like('abc', $$a.c$$)", ("rows", [[("str", "xy"), ("str", "AB"), ("bool", True)]])),
                                 ("select split($$a,b$$, $$,$$)[1], parse_json($${\"a\":1}$$):a, length($$a\\tb$$)", ("rows", [[("str", '"b"'), ("str", "1"), ("int", 4)]])),
                                 ("select to_date($$2020-01-02$$), regexp_replace($$x.y$$, $$\\.$$, $$\\\\$$)", ("rows", [[("str", "2020-01-02"), ("str", "x\\y")]])),
                                 ("select 1 /* in ; side */ , 2", ("rows", [[("int", 1), ("int", 2)]])),
                                 ("select count(*) -- c ;\n from t", ("rows", [[("int", len(table))]]))])
            stmts.append(st)
            effects.append(ef)
            tbl_ops.append(None)
        flags.append("o")
    stmts = [both_sides(x, rnd) for x in stmts]
    indented = force is None and not dollar and rnd.random() < 0.12
    if indented:
        # a script written as an indented block: EVERY line starts with the same margin, also the continuation lines of multi-line
        # literals and `$$` strings — the margin inside a literal is data (judged against the one-by-one twin, which gets the same text)
        i_ = tid * 100 + 90
        stmts.append(rnd.choice([f"insert into t (id, v) values ({i_}, 'first line\n  second line\nthird')", f"insert into t values ({i_}, $$one\ntwo\n\n  three$$)"]))
        flags.append("o"); effects.append(None); tbl_ops.append(None)
        stmts = [x.replace("\n", "\n    ") for x in stmts]
    bom = force is None and not tx and not dollar and not indented and rnd.random() < 0.04
    if bom:
        # a byte order mark at the very start of the text is not white space for the tokenizer: the first statement does not parse —
        # through execute_string and one by one alike (nothing is executed either way)
        stmts[0] = "\ufeff" + stmts[0]
        flags[0], effects[0], tbl_ops[0] = "p", None, None
        table.clear()
    parts = [rnd.choice(LEADS) if not bom else ""]
    if indented:
        parts = ["    "]
    for j, s in enumerate(stmts):
        parts.append(s)
        if j < len(stmts) - 1:
            parts.append(rnd.choice(SEPS) if not indented else rnd.choice([";\n    ", " ;\n    ", ";\n\n    "]))
    parts.append("" if stmts[-1] == "select 'unterminated" else rnd.choice(TAILS) if not indented else rnd.choice(["", ";", ";\n"]))
    return {"kind": "text", "tid": tid, "text": "".join(parts), "stmts": stmts, "flags": "".join(flags), "effects": effects, "tbl_ops": tbl_ops,
            "final": sorted(table.items()), "cls": rnd.choice(["tuple", "tuple", "dict"]), "rc": rnd.random() < 0.9, "finish": rnd.choice(["commit", "rollback"]), "rm": rnd.random() < 0.4, "oracle": not dollar and not indented}


def _execute(chk, cases):
    texts = [c for c in cases if c["kind"] == "text"]
    lines = []
    for c in texts:
        lines.append("split\tcount\t" + enc_str(c["text"]))
        lines.append("split\trun\t" + c["flags"])
    reps = common.batch(lines) if lines else []
    shards = common.chunks(cases, 16)
    results = common.shard_map(_worker, shards)
    rep_of = {id(c): (reps[2 * i], reps[2 * i + 1]) for i, c in enumerate(texts)}
    base = None
    nop_results = {}
    for shard, rs in zip(shards, results):
        for c, r in zip(shard, rs):
            if c["kind"] == "text":
                _judge_text(chk, c, r, *rep_of[id(c)])
            else:
                for p_, r_ in zip(c["group"], r):
                    nop_results[repr(p_)] = (p_, r_)
    if nop_results:
        base = nop_results[repr(None)][1]
        for pats, r in nop_results.values():
            _judge_nop(chk, pats, r, base)
            _nop_effects(chk, pats, r, base)


def run(chk) -> None:
    from props.c15 import gen_ties
    chk.rule = ("statement lists of 1-7 insert/update/delete/select statements with adversarial literal contents (quotes, backslashes, ;, --, /*, $$, control chars, "
                "unicode; $$-strings; quoted identifier with ;), separators `;` with whitespace / line and block comments / empty statements, leading and trailing "
                "comments, 2 of 5 texts with a statement that fails at execution resp. does not parse at a random position, tuple and dict cursors, return_cursors "
                "on/off; 15 nop pattern sets (5 of them with back-references / inline flags / named or conditional groups in a later pattern) × 32 commands (4 of them reference session variables: matched only after inlining / undefined reference raises first), each after COMMENT ON + ALTER … SET COMMENT with a full state dump (rows, tables, comments, columns) before and after (plain execute, with parameters) × 8 execute_string texts.  non-trivial = distinct text with ≥ 2 statements")
    gen_ties(chk)
    cases = gen_cases(chk) + [{"kind": "nop", "group": NOP_SETS[k::4]} for k in range(4)]
    _execute(chk, cases)
    chk.samples = [{"text": c["text"], "flags": c["flags"]} for c in cases[3:8] if c["kind"] == "text"]
    chk.trusted += ["sqlglot: statement-level parse→generate round trip preserves meaning (NOT modelled; covered only by the twin-database comparison)",
                    "sqlglot Snowflake tokenizer / generator for literals (Fs.Lex, Fs.Gen.sfLit; compared on every run)",
                    "CPython re.match (abstract matcher of nopDecision; the harness evaluates it on the command text)"]
    chk.assumptions = ["literal contents have no NUL (C08/nul) and no `$word` (C15/dollar-in-literal-or-comment: the re-rendered text passes the variable phase)",
                       "comments of generated texts contain no quote characters (DuckDB unicode-space quirk, see design/C08.md)",
                       "the command text the nop patterns see is, for execute_string, sqlglot's re-rendering of the statement (computed with sqlglot by the harness)"]


def replay(chk, case) -> None:
    if case.get("kind") == "text":
        c = dict(case)
        c["effects"] = [None if e is None else (e[0], [[tuple(x) for x in row] for row in e[1]]) for e in case["effects"]]
        c["tbl_ops"] = [None if t is None else tuple(t) for t in (case.get("tbl_ops") or [None] * len(case["stmts"]))]
        _execute(chk, [c])
    elif case.get("kind") == "nop":
        _execute(chk, [{"kind": "nop", "group": [None] + [p_ for p_ in NOP_SETS if p_]}])
    else:
        chk.violation("engine-model disagreement replays are re-run by the full check", case, broken="engine tie", failing_input=False)
