"""C11 — VARIANT/OBJECT/ARRAY values behave as JSON documents.

Correspondence: Snowflake SQL text is generated for (document × path × use × operator context); the text is parsed
with sqlglot (the same parser fakesnow uses) and the parsed tree is what the Lean model receives (`E`), so the
model's input is exactly the tree fakesnow's rewrites start from.  The real side executes the text through
fakesnow's public cursor API (documents in a VARIANT table column, evaluated for all rows at once, and as
PARSE_JSON literals) and the fetched Python values are compared with `evalSpec` (= navigating the document);
`evalDuck ∘ pipeline` is the model of the code and predicts the recorded findings.  OBJECT_CONSTRUCT, array
literals, SPLIT, LATERAL FLATTEN and PARSE_JSON have their own small models / oracles.
"""
from __future__ import annotations

import itertools
import json
import random

from lib import common
from lib.common import enc_list, enc_str, dec_str

# ------------------------------------------------------------------------------------------------
# documents
# ------------------------------------------------------------------------------------------------
LEAVES_SMALL = [1, "x", ' q"u ', True, None, [], {}]
LEAVES = LEAVES_SMALL + [3000000000, 40000, 200, 0, 12, -5, "a\\b", "it's", "12", "true", False, "Zed", ""]
KEYS = ["a", "b", "S", "a b"]
SEGS = ["a", "b", "S", "a b", 0, 1, 2]


def dumps(d) -> str:
    return json.dumps(d, separators=(",", ":"), ensure_ascii=False)


def small_values():
    vs = list(LEAVES_SMALL)
    for n in range(1, 3):
        for t in itertools.product(LEAVES_SMALL, repeat=n):
            vs.append(list(t))
    for k in ("a", "b"):
        for leaf in LEAVES_SMALL:
            vs.append({k: leaf})
    return vs


def exhaustive_docs():
    """all one-key documents {a: V} and all arrays [V..] of depth ≤ 2, width ≤ 2 over the 7 small leaves"""
    vs = small_values()
    docs = [{"a": v} for v in vs]
    docs += [v for v in vs if isinstance(v, list)]
    return docs


def rand_value(rnd, depth):
    r = rnd.random()
    if depth <= 0 or r < 0.45:
        return rnd.choice(LEAVES)
    if r < 0.72:
        return [rand_value(rnd, depth - 1) for _ in range(rnd.randint(0, 3))]
    keys = rnd.sample(KEYS, rnd.randint(0, 3))
    return {k: rand_value(rnd, depth - 1) for k in keys}


def rand_doc(rnd):
    keys = rnd.sample(KEYS, rnd.randint(1, 4))
    return {k: rand_value(rnd, 2) for k in keys}


def typed_doc(rnd):
    """documents sharing one schema, so that typed operator contexts rarely hit a conversion error"""
    return {
        "a": {"b": [rnd.choice([0, 1, 2, 7, -3]), rnd.choice(["x", "y", ' q"u ', "Zed", "it's"]), None, rnd.choice([True, False])]},
        "s": rnd.choice(["x", ' q"u ', "Zed", "a\\b", "", "x y"]),
        "n": rnd.choice([0, 1, 5, None, 200, 40000]),
        "big": rnd.choice([3000000000, 2147483648, 40000]),
        "i31": 2147483647,
        "f": rnd.choice([True, False, None]),
        "e": rnd.choice([[], [1], [1, "x"], [[], {}]]),
        "t": rnd.choice(["12", "7", "-3"]),
    }


def nested_doc(rnd):
    """double-encoded payloads: string values that are themselves JSON text (as produced by json.dumps upstream)"""
    inner = {"k": rnd.choice(["x", ' q"u ', "Zed", "12", "it's"]), "n": rnd.choice([0, 5, -3, 12]), "b": rnd.choice([True, False]),
             "in": {"k": rnd.choice(["y", "a\\b"])}, "l": rnd.choice([[], [1, "x"]])}
    payload = rnd.choice([dumps(inner)] * 8 + [json.dumps(inner)] * 3 + ["not json", "{bad", dumps([1, 2]), dumps("str"), "12"])
    d = {"payload": payload, "p2": dumps({"payload": dumps(inner), "k": "outer"}), "k": "top", "num": rnd.choice([12, None])}
    if rnd.random() < 0.15:
        del d["payload"]
    return d


INVALID = object()


def parse_env(doc, depth=3):
    """the JSON-text parser restricted to the texts an expression over `doc` can hand to PARSE_JSON: for every node the
    text it converts to (a string: itself; anything else: its JSON text) ↦ json.loads of it, or `!` when it is not JSON"""
    env = {}

    def text_of(x):
        return x if isinstance(x, str) else dumps(x)

    def walk(x, d):
        t = text_of(x)
        if t not in env and d > 0:
            try:
                v = json.loads(t)
                if isinstance(v, float) or (isinstance(v, (list, dict)) and not _int_only(v)):
                    raise ValueError
                env[t] = v
                walk(v, d - 1)
            except ValueError:
                env[t] = INVALID
        if isinstance(x, list):
            for y in x:
                walk(y, d)
        elif isinstance(x, dict):
            for y in x.values():
                walk(y, d)

    walk(doc, depth)
    return env


def _int_only(v) -> bool:
    if isinstance(v, float):
        return False
    if isinstance(v, list):
        return all(_int_only(y) for y in v)
    if isinstance(v, dict):
        return all(_int_only(y) for y in v.values())
    return True


def enc_env(env) -> str:
    return enc_list([f"{enc_str(t)}=" + ("!" if v is INVALID else enc_json(v, sep=",")) for t, v in env.items()])


# ------------------------------------------------------------------------------------------------
# wire encoding of documents and of sqlglot trees
# ------------------------------------------------------------------------------------------------
def enc_json(d, sep=";") -> str:
    out = []

    def go(x):
        if x is None:
            out.append("n")
        elif x is True:
            out.append("t")
        elif x is False:
            out.append("f")
        elif isinstance(x, int):
            out.append(f"i{x}")
        elif isinstance(x, str):
            out.append("s" + enc_str(x))
        elif isinstance(x, list):
            out.append(f"a{len(x)}")
            for y in x:
                go(y)
        elif isinstance(x, dict):
            out.append(f"o{len(x)}")
            for k, v in x.items():
                out.append("s" + enc_str(k))
                go(v)
        else:
            raise ValueError(x)

    go(d)
    return sep.join(out)


class Unsupported(Exception):
    pass


def to_E(node) -> list[str]:
    """sqlglot tree (Snowflake dialect parse) → prefix tokens of the Lean `E`"""
    from sqlglot import exp
    T = exp.DataType.Type
    if isinstance(node, exp.Column):
        if node.name.upper() == "V" and not node.table:
            return ["C"]
        if node.name.upper() == "VALUE" and node.table.upper() == "F":
            return ["F"]
        raise Unsupported("column")
    if isinstance(node, exp.ParseJSON):
        if isinstance(node.this, exp.Literal):
            return ["C"]
        return ["J"] + to_E(node.this)
    if isinstance(node, exp.Split):
        return ["C"]
    if isinstance(node, exp.JSONExtract):
        p = node.expression
        if not isinstance(p, exp.JSONPath) or node.args.get("expressions"):
            raise Unsupported("jsonextract path")
        segs = []
        for s in p.expressions:
            if isinstance(s, exp.JSONPathRoot):
                continue
            if isinstance(s, exp.JSONPathKey) and isinstance(s.this, str):
                segs.append("k" + enc_str(s.this))
            elif isinstance(s, exp.JSONPathSubscript) and isinstance(s.this, int) and s.this >= 0:
                segs.append(f"x{s.this}")
            else:
                raise Unsupported("path segment")
        return ["X" + ",".join(segs)] + to_E(node.this)
    if isinstance(node, exp.Bracket):
        if len(node.expressions) != 1 or not isinstance(node.expressions[0], exp.Literal):
            raise Unsupported("bracket")
        i = node.expressions[0]
        if i.is_string:
            return ["K" + enc_str(i.this)] + to_E(node.this)
        if not i.this.isdigit():
            raise Unsupported("bracket number")
        return ["D" + enc_str(i.this)] + to_E(node.this)
    if isinstance(node, exp.Cast) and not isinstance(node, exp.TryCast):
        t = node.to.this
        if node.to.expressions:
            raise Unsupported("sized type")
        if t in (T.VARCHAR, T.TEXT):
            return ["Ct"] + to_E(node.this)
        if t in (T.INT, T.BIGINT, T.SMALLINT, T.TINYINT):
            return ["Ci"] + to_E(node.this)
        if t == T.BOOLEAN:
            return ["Cb"] + to_E(node.this)
        raise Unsupported("cast type")
    if isinstance(node, exp.Upper):
        return ["U"] + to_E(node.this)
    if isinstance(node, exp.Lower):
        return ["W"] + to_E(node.this)
    if isinstance(node, exp.Trim):
        if node.args.get("expression") or node.args.get("position") or node.args.get("collation"):
            raise Unsupported("trim args")
        return ["T"] + to_E(node.this)
    if isinstance(node, exp.ArraySize):
        return ["A"] + to_E(node.this)
    if isinstance(node, exp.Paren):
        return ["P"] + to_E(node.this)
    if isinstance(node, exp.Not):
        return ["N"] + to_E(node.this)
    if isinstance(node, exp.Is):
        if isinstance(node.expression, exp.Null):
            return ["Z"] + to_E(node.this)
        raise Unsupported("is")
    for cls, tok in ((exp.Or, "Oo"), (exp.And, "Oa"), (exp.EQ, "Oe"), (exp.DPipe, "Oc"), (exp.Add, "Op")):
        if type(node) is cls:
            return [tok] + to_E(node.this) + to_E(node.expression)
    if isinstance(node, exp.Literal):
        if node.is_string:
            return ["Ls" + enc_str(node.this)]
        if node.this.isdigit():
            return ["Li" + node.this]
        raise Unsupported("number literal")
    if isinstance(node, exp.Boolean):
        return ["Lb1" if node.this else "Lb0"]
    if isinstance(node, exp.Null):
        return ["Ln"]
    raise Unsupported(type(node).__name__)


def sql_str(s: str) -> str:
    """Snowflake string literal (backslash and quote are escape characters in the Snowflake dialect)"""
    return "'" + s.replace("\\", "\\\\").replace("'", "''") + "'"


def dollar_or_quote(rnd, s: str, p: float = 0.4) -> str:
    """a Snowflake string constant for `s`: `$$…$$` (content verbatim, apostrophes and backslashes included) or single-quoted"""
    if "$" not in s and rnd.random() < p:
        return "$$" + s + "$$"
    return sql_str(s)


def parse_expr(sql_expr: str):
    import sqlglot
    tree = sqlglot.parse_one("select " + sql_expr.replace("{v}", "v"), read="snowflake")
    return to_E(tree.expressions[0])


# ------------------------------------------------------------------------------------------------
# SQL generation
# ------------------------------------------------------------------------------------------------
def ident_like(k: str) -> bool:
    return k.isidentifier() and k.isascii()


def colon_path(segs) -> str:
    out = ""
    for i, s in enumerate(segs):
        if isinstance(s, int):
            out += f"[{s}]"
        else:
            k = s if ident_like(s) else '"' + s + '"'
            out += (":" if i == 0 else ".") + k
    return out


def getpath_str(segs) -> str:
    out = ""
    for i, s in enumerate(segs):
        if isinstance(s, int):
            out += f"[{s}]"
        else:
            k = s if ident_like(s) else '"' + s + '"'
            out += ("" if i == 0 else ".") + k
    return out


def render_access(rnd, segs, style) -> str:
    """an access to `segs` of {v} in one of the Snowflake spellings"""
    if not segs:
        return "{v}"
    if style == "colon" and not isinstance(segs[0], int):
        return "{v}" + colon_path(segs)
    if style == "getpath":
        return f"get_path({{v}}, {sql_str(getpath_str(segs))})"
    if style == "nested" and len(segs) >= 2 and not isinstance(segs[0], int):
        k = rnd.randint(1, len(segs) - 1)
        return f"get_path({{v}}{colon_path(segs[:k])}, {sql_str(getpath_str(segs[k:]))})"
    if style == "brk":
        # last step as a subscript on top of a chain
        base = render_access(rnd, segs[:-1], "getpath" if len(segs) > 1 and rnd.random() < 0.5 else "colon")
        last = segs[-1]
        sub = f"[{last}]" if isinstance(last, int) else f"[{sql_str(last)}]"
        if base.startswith("{v}:"):
            # `v:a['b']` would be folded into one path by the parser; keep the subscript separate with GET_PATH
            base = f"get_path({{v}}, {sql_str(getpath_str(segs[:-1]))})"
        return base + sub
    if style == "chain":
        return "{v}" + "".join(f"[{s}]" if isinstance(s, int) else f"[{sql_str(s)}]" for s in segs)
    if isinstance(segs[0], int):
        return f"get_path({{v}}, {sql_str(getpath_str(segs))})"
    return "{v}" + colon_path(segs)


USES = ["bare", "text", "int", "bool", "upper", "lower", "trim", "size", "isnull"]


def render_use(rnd, acc: str, use: str) -> str:
    if use == "bare":
        return acc
    if use == "text":
        return rnd.choice([f"{acc}::varchar", f"{acc}::string", f"cast({acc} as varchar)", f"{acc}::text"])
    if use == "int":
        return rnd.choice([f"{acc}::int", f"cast({acc} as integer)", f"{acc}::bigint", f"{acc}::integer", f"{acc}::smallint", f"{acc}::tinyint"])
    if use == "bool":
        return rnd.choice([f"{acc}::boolean", f"cast({acc} as boolean)"])
    if use == "upper":
        return f"upper({acc})"
    if use == "lower":
        return f"lower({acc})"
    if use == "trim":
        return f"trim({acc})"
    if use == "size":
        return f"array_size({acc})"
    if use == "isnull":
        return f"{acc} is null"
    raise ValueError(use)


# typed atoms over the `typed_doc` schema: (sql, type)
def typed_atoms(rnd):
    i = rnd.choice([0, 1, 2, 3, 5])
    atoms = [
        ("{v}:a.b[0]::int", "int"), ("{v}:n::int", "int"), ("{v}:t::int", "int"), ("array_size({v}:e)", "size"), ("{v}:n::smallint", "int"), ("{v}:n::tinyint", "int"),
        ("{v}:n::integer", "int"), ("{v}:big::int", "int"), ("{v}:big::integer", "int"), ("{v}:i31::int", "int"), ("{v}:i31::integer", "int"), ("{v}:big::bigint", "int"),
        (str(rnd.randint(0, 9)), "int"), (f"{{v}}:a.b[{i}]::int", "int"),
        ("{v}:a.b[1]::varchar", "text"), ("upper({v}:s)", "text"), ("lower({v}:a.b[1])", "text"), ("trim({v}:s)", "text"),
        ("{v}:s::varchar", "text"), (sql_str(rnd.choice(["x", "Zed", ' q"u ', "ZED", "p"])), "text"),
        ("get_path({v}, 'a.b[1]')::string", "text"),
        ("{v}:a.b[3]::boolean", "bool"), ("{v}:f::boolean", "bool"), ("{v}:a.b[3]", "bool"), ("{v}:f", "bool"),
        ("{v}:zz is null", "bool"), ("{v}:n is null", "bool"), ("{v}:a.b[2] is not null", "bool"),
        (rnd.choice(["true", "false"]), "bool"), ("get_path({v}:a, 'b[3]')", "bool"), ("{v}['f']", "bool"),
        ("{v}:n", "jint"), ("{v}:a.b[0]", "jint"), ("{v}:s", "jstr"), ("{v}:a.b[1]", "jstr"),
    ]
    return atoms


LEVEL = {"or": 1, "and": 2, "not": 3, "is": 4, "eq": 5, "concat": 6, "add": 7, "atom": 10}


def gen_ctx(rnd, ty: str, depth: int):
    """(sql, level) of a random expression of type `ty`; parentheses are inserted where the Snowflake text
    would otherwise be ambiguous, and sometimes where it would not"""
    atoms = typed_atoms(rnd)

    def atom(t):
        sql, _ = rnd.choice([a for a in atoms if a[1] == t])
        lvl = LEVEL["is"] if " is " in sql else LEVEL["atom"]
        return sql, lvl

    def wrap(x, need, strict=False):
        sql, lvl = x
        if lvl < need or (strict and lvl == need) or rnd.random() < 0.1:
            return f"({sql})"
        return sql

    if depth <= 0:
        return atom(ty)
    r = rnd.random()
    if ty == "int":
        if r < 0.5:
            return atom("int")
        a, b = gen_ctx(rnd, "int", depth - 1), gen_ctx(rnd, "int", depth - 1)
        return f"{wrap(a, 7)} + {wrap(b, 7, True)}", 7
    if ty == "text":
        if r < 0.5:
            return atom("text")
        a, b = gen_ctx(rnd, "text", depth - 1), gen_ctx(rnd, "text", depth - 1)
        return f"{wrap(a, 6)} || {wrap(b, 6, True)}", 6
    # bool
    if r < 0.2:
        return atom("bool")
    if r < 0.4:
        a = gen_ctx(rnd, "bool", depth - 1)
        return f"not {wrap(a, 3)}", 3
    if r < 0.6:
        t = rnd.choice(["int", "text", "jint", "size", "int", "text", "jint", "size", "jstr"] if rnd.random() < 0.3 else ["int", "text", "jint", "size"])
        if t == "size":
            a, b = atom("size"), (str(rnd.randint(0, 3)), 10)
        elif t == "jint":
            a, b = atom("jint"), (str(rnd.randint(0, 7)), 10)
        elif t == "jstr":
            a, b = atom("jstr"), (sql_str(rnd.choice(["x", "Zed", "y"])), 10)
        else:
            a, b = gen_ctx(rnd, t, depth - 1), gen_ctx(rnd, t, depth - 1)
        return f"{wrap(a, 5, True)} = {wrap(b, 5, True)}", 5
    op = rnd.choice(["and", "or"])
    a, b = gen_ctx(rnd, "bool", depth - 1), gen_ctx(rnd, "bool", depth - 1)
    return f"{wrap(a, LEVEL[op])} {op} {wrap(b, LEVEL[op], True)}", LEVEL[op]


# ------------------------------------------------------------------------------------------------
# real side
# ------------------------------------------------------------------------------------------------
def obs_cell(x) -> str:
    if x is None:
        return "N"
    if isinstance(x, bool):
        return "B1" if x else "B0"
    if isinstance(x, int):
        return f"I{x}"
    if isinstance(x, float):
        return f"F{x!r}"
    if isinstance(x, str):
        return "S" + x
    if isinstance(x, list):
        try:
            return "L" + dumps(x)
        except TypeError:
            return "X:list"
    return f"X:{type(x).__name__}:{x!r}"


def obs_exc(e) -> str:
    import duckdb
    import snowflake.connector.errors as se
    if isinstance(e, duckdb.ConversionException):
        return "Econv"
    if isinstance(e, duckdb.ParserException):
        return "Eparser"
    if isinstance(e, duckdb.InvalidInputException):
        return "Einvalid"
    if isinstance(e, se.ProgrammingError) and e.errno == 2043:
        return "Ebinder"
    return f"X:{type(e).__name__}:{str(e)[:80]}"


def _worker(shard):
    import fakesnow
    import snowflake.connector
    tables, tasks = shard
    out = []
    with fakesnow.patch():
        conn = snowflake.connector.connect(database="db1", schema="s1")
        cur = conn.cursor()
        for name, docs in tables.items():
            cur.execute(f"create table {name} (id int, v variant)")
            for lo in range(0, len(docs), 50):
                sel = " union all ".join(f"select {lo + i}, parse_json({sql_str(dumps(d))})" for i, d in enumerate(docs[lo:lo + 50]))
                cur.execute(f"insert into {name} {sel}")
        for i, t in enumerate(tasks):
            kind = t[0]
            if kind == "tbl":
                _, table, expr, n = t
                q = f"select id, {expr.replace('{v}', 'v')} from {table}"
                res: list = [None] * n

                def span(lo, hi):
                    # all rows at once; on an error halve the id range so that only the failing rows pay for themselves
                    try:
                        cur.execute(q + f" where id >= {lo} and id < {hi} order by id")
                        rows = cur.fetchall()
                        if [r[0] for r in rows] != list(range(lo, hi)):
                            raise common.Infra(f"row ids of {q}: {[r[0] for r in rows]}")
                        for r in rows:
                            res[r[0]] = obs_cell(r[1])
                    except common.Infra:
                        raise
                    except Exception as e:
                        if hi - lo == 1:
                            res[lo] = obs_exc(e)
                        else:
                            mid = (lo + hi) // 2
                            span(lo, mid)
                            span(mid, hi)

                try:
                    span(0, 1)
                    if res[0].startswith("E") or res[0].startswith("X:"):
                        # does it fail without looking at any row (binder error, constant folding)?  then every row fails alike
                        try:
                            cur.execute(q + " where false")
                            cur.fetchall()
                            span(1, n)
                        except Exception as e:
                            res = [obs_exc(e)] * n
                    else:
                        span(1, n) if n > 1 else None
                except common.Infra:
                    raise
                out.append(res)
            elif kind == "route":
                # the document reaches PARSE_JSON by a route other than a literal: session variable, pyformat / named pyformat / qmark parameter
                _, route, text, template = t
                try:
                    if route == "variable":
                        cur.execute(f"set doc_{i} = {sql_str(text)}")
                        cur.execute("select " + template.replace("{v}", f"parse_json($doc_{i})"))
                        rows = cur.fetchall()
                    elif route == "pyformat":
                        n = template.count("{v}")
                        cur.execute("select " + template.replace("%", "%%").replace("{v}", "parse_json(%s)"), (text,) * n)
                        rows = cur.fetchall()
                    elif route == "pyformat-named":
                        cur.execute("select " + template.replace("%", "%%").replace("{v}", "parse_json(%(doc)s)"), {"doc": text})
                        rows = cur.fetchall()
                    else:
                        import snowflake.connector as sc
                        sc.paramstyle = "qmark"
                        try:
                            qc = sc.connect(database="db1", schema="s1").cursor()
                        finally:
                            sc.paramstyle = "pyformat"
                        n = template.count("{v}")
                        qc.execute("select " + template.replace("{v}", "parse_json(?)"), (text,) * n)
                        rows = qc.fetchall()
                    out.append(obs_cell(rows[0][0]) if len(rows) == 1 and len(rows[0]) == 1 else f"X:shape {rows!r}"[:200])
                except Exception as e:
                    out.append(obs_exc(e))
            elif kind == "qmark":
                try:
                    import snowflake.connector as sc
                    sc.paramstyle = "qmark"
                    try:
                        qc = sc.connect(database="db1", schema="s1").cursor()
                    finally:
                        sc.paramstyle = "pyformat"
                    qc.execute(t[1], t[2])
                    rows = qc.fetchall()
                    out.append(obs_cell(rows[0][0]) if len(rows) == 1 and len(rows[0]) == 1 else f"X:shape {rows!r}"[:200])
                except Exception as e:
                    out.append(obs_exc(e))
            elif kind == "one":
                try:
                    cur.execute(t[1])
                    rows = cur.fetchall()
                    out.append(obs_cell(rows[0][0]) if len(rows) == 1 and len(rows[0]) == 1 else f"X:shape {rows!r}"[:200])
                except Exception as e:
                    out.append(obs_exc(e))
            elif kind == "rows":
                try:
                    cur.execute(t[1])
                    out.append("R" + "\x1f".join(obs_cell(r[0]) for r in cur.fetchall()))
                except Exception as e:
                    out.append(obs_exc(e))
    return out


# ------------------------------------------------------------------------------------------------
# comparison
# ------------------------------------------------------------------------------------------------
def canon_json_text(s: str):
    return dumps(json.loads(s))


def model_obs_matches(model: str, real: str) -> bool:
    """model = encVal of Lean (N, J<cps>, T<cps>, I<n>, B0/1, E<kind>, L<cps>), real = obs_cell/obs_exc"""
    if model == "N":
        return real == "N"
    if model == "Eany":
        return real.startswith("E")
    k = model[0]
    if k == "J":
        if not real.startswith("S"):
            return False
        try:
            return canon_json_text(real[1:]) == canon_json_text(dec_str(model[1:]))
        except ValueError:
            return False
    if k == "T":
        return real == "S" + dec_str(model[1:])
    if k == "L":
        if not real.startswith("L"):
            return False
        return canon_json_text(real[1:]) == canon_json_text(dec_str(model[1:]))
    return real == model


def show(model: str) -> str:
    if model.startswith("R"):
        return "rows[" + ", ".join(show(c) for c in (model[1:].split(",") if len(model) > 1 else [])) + "]"
    if model and model[0] in "JTL" and len(model) > 1:
        return model[0] + ":" + dec_str(model[1:])
    return model


def verdict(chk, reply, real, case, what, broken):
    """the common verdict logic; returns 'skip' | 'held' | 'finding' | 'violation'"""
    if reply.get("_raw") == "unsupported" or "spec" not in reply:
        chk.count("skipped_unsupported")
        return "skip"
    spec, impl, keys = reply["spec"], reply["impl"], reply.get("finding", "-")
    if reply.get("srcok") == "0":
        chk.count("skipped_source_text_ambiguous")
        return "skip"
    if model_obs_matches(spec, real):
        if keys == "-" and impl != spec:
            chk.violation(f"model inconsistency: in the envelope but impl={show(impl)} ≠ spec={show(spec)} for {what}", case,
                          broken="C11_partial (model: envelope/regions disagree)", failing_input=False)
            return "violation"
        return "held"
    klist = [] if keys == "-" else keys.split(",")
    if klist and model_obs_matches(impl, real):
        known = [k for k in klist if k in chk.known]
        chk.finding(known[0] if known else klist[0], f"{what}: got {real!r}, required {show(spec)}", case)
        return "finding"
    chk.violation(f"{what}: fakesnow returned {real!r} but navigating the document requires {show(spec)} "
                  f"(model of the code predicts {show(impl)}; finding region: {keys})", case, broken=broken)
    return "violation"


# ------------------------------------------------------------------------------------------------
# case construction
# ------------------------------------------------------------------------------------------------
def build(chk):
    rnd = random.Random(chk.seed)
    quick = chk.tier == "quick"
    gdocs = exhaustive_docs() + [rand_doc(rnd) for _ in range(16 if quick else 80)]
    tdocs = [typed_doc(rnd) for _ in range(30 if quick else 100)]
    # objects whose keys are made only of digits, next to arrays: a QUOTED subscript navigates by key, an integer one by position
    gdocs += [{"2024": 1, "0": "z", "7": [1, {"0": "q"}], "00": 5, "a": {"0": "in", "1": [7]}}, [10, 20, {"0": "k"}], {"0": [1, 2]}, {"a": ["p", "q"]}, ["s0", "s1"]]
    ndocs = [nested_doc(rnd) for _ in range(24 if quick else 80)]
    tables = {"tg": gdocs, "tc": gdocs[::3], "tt": tdocs, "tn": ndocs}

    exprs = []  # (table, sql_expr, tag)
    p2 = [[a, b] for a in SEGS for b in SEGS]
    paths = [[s] for s in SEGS] + (rnd.sample(p2, 30) if quick else p2)
    p3 = [[a, b, c] for a in SEGS for b in SEGS for c in SEGS]
    paths += rnd.sample(p3, 8 if quick else 120)
    for segs in paths:
        for use in (USES if not quick or len(segs) == 1 else rnd.sample(USES, 6)):
            styles = ["colon", "getpath", "nested", "brk"]
            ks = rnd.sample(styles, 1 if quick else 2)
            if use in ("bare", "text", "upper") and "brk" not in ks and rnd.random() < 0.5:
                ks.append("brk")
            for st in ks:
                acc = render_access(rnd, segs, st)
                exprs.append(("tc" if use in ("int", "bool") else "tg", render_use(rnd, acc, use), f"use:{use}:{st}"))
    # the VARIANT itself under each use
    for use in USES:
        exprs.append(("tc" if use in ("int", "bool") else "tg", render_use(rnd, "{v}", use), f"use:{use}:col"))
    # adversarial subscripts: keys that `$.{key}` does not render faithfully, chained subscripts
    for k in ["a.b", "a b", "a[0]", '"a"', "a.b.c"]:
        exprs.append(("tg", f"{{v}}[{sql_str(k)}]", "adv:subscript-key"))
        exprs.append(("tg", f"{{v}}:a[{sql_str(k)}]", "adv:subscript-key-after-path"))
    for segs in [["a", "b"], ["a", 0], [0, 1], [0, "a"], ["a", "b", 0], [1, 0]]:
        exprs.append(("tg", render_access(rnd, segs, "chain"), "adv:chained-subscripts"))
        exprs.append(("tg", render_access(rnd, segs, "chain") + "::varchar", "adv:chained-subscripts"))
    for acc in ["{v}['2024']", "{v}['0']", "{v}['7']", "{v}['00']", "{v}['1']", "{v}[0]", "{v}[1]", '{v}:"2024"', '{v}:"0"', '{v}:a."0"', "{v}:a['0']", "{v}:a['1']", "{v}:a[1]",
                "get_path({v}, 'a')['0']", "get_path({v}, 'a')[0]", "get_path({v}, '\"7\"')['1']", "get_path({v}, '\"7\"')[1]", "{v}['7'][0]", "{v}['0'][1]",
                "get_path({v}, '\"0\"')", "get_path({v}, '[0]')"]:
        for use in ("bare", "text", "upper", "isnull", "size"):
            exprs.append(("tg", render_use(rnd, acc, use), "adv:digit-keys"))
    toc_accs = ["{v}:a", "{v}:a[0]", "{v}:b", "get_path({v}, 'a')", "{v}:S"]
    for acc in (toc_accs if not quick else toc_accs[:1] + rnd.sample(toc_accs[1:], 1)):
        for ei, e in enumerate(["trim({x}::int)", "trim({x}::boolean)", "trim(cast({x} as integer))", "trim({x}::bigint)", "trim({x}::smallint)", "trim(({x}::int))", "trim({x}::varchar)", "trim({x}::string)",
                  "trim({x}::int) = '1'", "trim({x}::boolean) = 'true'", "upper(trim({x}::boolean))", "trim({x}::int)::int + 1"]):
            if quick and ei >= 2 and rnd.random() < 0.5:
                continue
            exprs.append(("tc", e.replace("{x}", acc), "adv:trim-of-cast"))
    for e in ["trim({v}:n::int)", "trim({v}:f::boolean)", "trim({v}:a.b[0]::int) = '1'", "trim({v}:a.b[3]::boolean) = 'true'", "trim({v}:big::bigint)", "trim({v}:t::int)",
              "trim({v}:i31::integer) || 'x'", "not trim({v}:f::boolean) = 'false'"]:
        exprs.append(("tt", e, "adv:trim-of-cast"))
    for e in ["trim(upper({v}:a))", "upper(trim({v}:a))", "{v}:a::varchar::varchar", "upper({v}:a::varchar)",
              "trim({v}:a::varchar)", "lower(upper({v}:a[0]))", "({v}:a)::varchar", "({v}:a[1])", "array_size(({v}:a))"]:
        exprs.append(("tg", e, "adv:nested-functions"))
    # a cast-of-path nested inside another cast-of-path: PARSE_JSON over an extracted (double-encoded) string, navigated again
    inners = ["parse_json({v}:payload::varchar)", "parse_json({v}:payload::string)", "parse_json(cast({v}:payload as varchar))",
              "parse_json(get_path({v}, 'payload')::varchar)", "parse_json({v}:p2::varchar)",
              "parse_json(parse_json({v}:p2::varchar):payload::varchar)", "parse_json({v}:num::varchar)", "parse_json({v}:k::varchar)"]
    outers = [":k", ":n", ":b", ":in.k", ":l", ":zz", ":payload", ":l[1]"]
    nuses = ["{x}", "{x}::varchar", "{x}::string", "{x}::int", "{x}::boolean", "upper({x})", "lower({x})", "trim({x})", "{x} is null", "array_size({x})",
             "get_path({i}, '{p}')::varchar", "{x}::varchar = 'x'", "{x}::int + 1", "not {x}::boolean"]
    for inner in (inners if not quick else inners[:2] + rnd.sample(inners[2:], 3)):
        for o in (outers if not quick else outers[:3] + rnd.sample(outers[3:], 2)):
            for u in (nuses if not quick else rnd.sample(nuses, 4) + ["{x}::varchar", "{x}"]):
                x = inner + o
                e = u.replace("{x}", x).replace("{i}", inner).replace("{p}", o[1:])
                if "get_path(" in u and "[" in o:
                    continue
                exprs.append(("tn", e, "nested:" + ("two-level" if inner.count("parse_json") > 1 else "one-level")))
    # operator contexts over the typed documents
    for _ in range(170 if quick else 2000):
        ty = rnd.choice(["bool", "bool", "bool", "int", "text"])
        sql, _ = gen_ctx(rnd, ty, rnd.randint(1, 3))
        exprs.append(("tt", sql, f"ctx:{ty}"))
    # fixed precedence probes (every operator next to a bare extract)
    for e in ["not {v}:f", "not {v}:a.b[3] and {v}:f", "{v}:f or not {v}:a.b[3]", "{v}:n = 1 or {v}:f", "{v}:n = 1 and not {v}:f",
              "{v}:n is null and {v}:f", "not {v}:n is null", "{v}:a.b[0] = 1 = {v}:f", "({v}:a.b[0] = 1) = {v}:f",
              "not ({v}:f and {v}:a.b[3])", "{v}:s = 'x'", "'x' = {v}:s", "{v}:s::varchar || 'p' = 'xp'",
              "1 + {v}:n::int = 2", "not {v}:a.b[0]::int + 1 = 2", "get_path({v}:a, 'b[3]') and not get_path({v}, 'f')",
              "{v}['f'] and not {v}['f']", "not {v}['f']"]:
        exprs.append(("tt", e, "ctx:fixed"))

    tasks, meta = [], []
    seen = set()
    for table, sql, tag in exprs:
        if (table, sql) in seen:
            continue
        seen.add((table, sql))
        try:
            toks = parse_expr(sql)
        except Unsupported as e:
            chk.count(f"skipped_unparsed:{e}")
            continue
        except Exception as e:  # sqlglot refused the text
            chk.count(f"skipped_parse_error:{type(e).__name__}")
            continue
        tasks.append(("tbl", table, sql, len(tables[table])))
        meta.append({"kind": "tbl", "table": table, "sql": sql, "tag": tag, "E": enc_list(toks)})

    # FLATTEN of the VARIANT table column itself / of a path of it, for the documents that hold an array there
    for di, d in enumerate(tables["tg"]):
        arr_at = [("v", d)] if isinstance(d, list) else [("v:a", d["a"])] if isinstance(d, dict) and isinstance(d.get("a"), list) else []
        for acc, arr in arr_at:
            if rnd.random() < (0.15 if quick else 1.0):
                for mode, proj in (("value", "f.value"), ("text", "f.value::varchar")):
                    sql = f"select {proj} from (select v from tg where id = {di}) t, lateral flatten(input => t.{acc}) f"
                    tasks.append(("rows", sql))
                    meta.append({"kind": "flatten", "sql": sql, "line": f"json\tflatten\t{enc_json(arr)}\t{mode}", "tag": "flatten:inputs:variant-column:" + mode})
    # the same expressions over a PARSE_JSON literal instead of a column (a sample)
    tbl_idx = [i for i, m in enumerate(meta) if m["kind"] == "tbl"]
    lit_pick = rnd.sample(tbl_idx, min(len(tbl_idx), 110 if quick else 3000))
    for i in lit_pick:
        m = meta[i]
        docs = tables[m["table"]]
        j = rnd.randrange(len(docs))
        lit_txt = dollar_or_quote(rnd, dumps(docs[j]))
        sql = "select " + m["sql"].replace("{v}", f"parse_json({lit_txt})")
        tasks.append(("one", sql))
        meta.append({"kind": "lit", "sql": sql, "doc": docs[j], "E": m["E"], "tag": ("literal-dollar:" if lit_txt.startswith("$$") else "literal:") + m["tag"]})

    # documents with apostrophes / backslashes / quotes written as `$$…$$` constants
    for d in [{"a": "it's", "b": ["o'clock", "''", "\\'"], "S": "plain"}, ["it's", "x"], {"a": {"b": "l'été d'or"}}, {"a": "it''s"}]:
        if not all(ord(ch) < 128 for ch in dumps(d)):
            continue
        for e in ["{v}:a", "{v}:a::varchar", "upper({v}:a)", "{v}:b[0]::varchar", "{v}:b[1]", "{v}:b[2]::string", "{v}[0]::varchar", "{v}:a.b", "{v}", "array_size({v}:b)",
                  "{v}:a::varchar = 'it''s'", "trim({v}:a)"]:
            try:
                toks = parse_expr(e)
            except Exception:
                continue
            sql = "select " + e.replace("{v}", "parse_json($$" + dumps(d) + "$$)")
            tasks.append(("one", sql))
            meta.append({"kind": "lit", "sql": sql, "doc": d, "E": enc_list(toks), "tag": "literal-dollar:apostrophes"})
    route_docs = [{"a": 'x"y', "b": "it's", "c": "a\\b", "d": [1, ' q"u ', "t\\\"x"], "S": "plain"}, {"a": {"b": 'say "hi"'}, "b": "back\\slash"}, ["q\"1", "b\\2", "it's"],
                  {"a": "plain", "b": "no escapes", "d": [7, "x"]}]
    route_exprs = ["{v}:a", "{v}:a::varchar", "{v}:b::varchar", "{v}:c", "{v}:c::varchar", "{v}:d[1]::varchar", "{v}:d[2]", "upper({v}:a)", "{v}", "{v}:a.b::varchar", "{v}[0]::varchar", "{v}[1]",
                   "array_size({v}:d)", "{v}:a::varchar || {v}:b::varchar", "trim({v}:b)"]
    for d in route_docs:
        text = dumps(d)
        for route in ("variable", "pyformat", "pyformat-named", "qmark"):
            for e in (route_exprs if not quick else rnd.sample(route_exprs, 7) + ["{v}:a::varchar"]):
                if route == "qmark" and "array_size" in e:
                    continue    # the ARRAY_SIZE rewrite duplicates its operand, hence the placeholder (a C08 finding)
                try:
                    toks = parse_expr(e)
                except Exception:
                    continue
                tasks.append(("route", route, text, e))
                meta.append({"kind": "lit", "sql": f"[{route}] select " + e.replace("{v}", "parse_json(<doc>)") + f"  with <doc> = {text}", "doc": d, "E": enc_list(toks),
                             "tag": "route:" + route, "route": route, "template": e, "text": text})
    # casts of extracted numbers to FLOAT / DOUBLE (Snowflake: all 64-bit) with values that are inexact in 32 bits
    fdoc = {"x": 0.1, "y": 1.1, "z": 16777217, "w": 3.14159, "n": -0.0025, "big": 123456789.125, "i": 3}
    fl_text = dumps(fdoc)
    for key, val in fdoc.items():
        for ty in ("float", "double", "real", "float8", "double precision", "float4"):
            for acc in (f"{{v}}:{key}", f"get_path({{v}}, '{key}')", f"{{v}}['{key}']"):
                for form, want in ((f"{acc}::{ty}", f"F{float(val)!r}"), (f"cast({acc} as {ty})", f"F{float(val)!r}"), (f"{acc}::{ty} = {val!r}", "B1"), (f"{acc}::{ty} + 1", f"F{float(val) + 1!r}")):
                    if quick and rnd.random() < 0.75:
                        continue
                    sql = "select " + form.replace("{v}", f"parse_json({sql_str(fl_text)})")
                    tasks.append(("one", sql))
                    meta.append({"kind": "fixed_one", "sql": sql, "want": want, "tag": "float-cast"})
    for form, want in [("{v}:x::float", "F0.1"), ("{v}:y::double", "F1.1"), ("{v}:x::float = 0.1", "B1"), ("{v}:z::float", "F16777217.0")]:
        sql = "select " + form.replace("{v}", f"parse_json({sql_str(fl_text)})")
        tasks.append(("one", sql))
        meta.append({"kind": "fixed_one", "sql": sql, "want": want, "tag": "float-cast"})
        tasks.append(("route", "variable", fl_text, form))
        meta.append({"kind": "fixed_one", "sql": f"[variable] select {form} with <doc> = {fl_text}", "want": want, "tag": "float-cast:variable", "route": "variable", "template": form, "text": fl_text})
    small = build_small(chk, rnd, tasks, meta)
    return tables, tasks, meta, small


def build_small(chk, rnd, tasks, meta):
    """OBJECT_CONSTRUCT, array literals, SPLIT, FLATTEN, PARSE_JSON"""
    quick = chk.tier == "quick"
    n = 0
    # OBJECT_CONSTRUCT[_KEEP_NULL]
    vals = [("1", 1), ("'x'", "x"), ("true", True), ("NULL", "LITNULL"), ("{v}:zz", "HIDDEN"), ("NULL::int", "HIDDEN"),
            ("parse_json('[1,2]')", [1, 2]), ("'q\"u'", 'q"u'), ("{v}:a", {"b": 1}), ("{v}:a.b", 1), ("12", 12)]
    keys = ["a", "b", "c", "a b", "K"]
    combos = [[]]
    for npairs in (1, 2, 3):
        for _ in range(22 if quick else 600):
            ks = rnd.sample(keys, npairs)
            combos.append([(k if rnd.random() > 0.08 else None, rnd.choice(vals)) for k in ks])
    for v in vals:
        combos.append([("a", v)])
        combos.append([("a", ("1", 1)), ("b", v)])
    for pairs in combos:
        for fn in ("object_construct", "object_construct_keep_null"):
            if fn.endswith("keep_null") and any(k is None for k, _ in pairs):
                continue
            args = ", ".join(f"{'NULL' if k is None else sql_str(k)}, {v[0]}" for k, v in pairs)
            sql = f"select {fn}({args})".replace("{v}", "parse_json('{\"a\":{\"b\":1}}')")
            wire = []
            for k, v in pairs:
                a = "L" if v[1] == "LITNULL" else "E-" if v[1] == "HIDDEN" else "E" + enc_json(v[1], sep=",")
                wire.append(f"{'-' if k is None else enc_str(k)}={a}")
            tasks.append(("one", sql))
            meta.append({"kind": "obj", "fn": fn, "sql": sql, "line": "json\tobj\t" + enc_list(wire), "tag": "obj:" + fn})
    # array literals / ARRAY_CONSTRUCT
    items_pool = [1, 2, 0, "a", "b", True, None]
    lits = [[], [1], [1, 2, 3], ["a", "b"], [1, "a"], [None, 1], [True, False], [1, None, 2], ["a", 1, None], [True, 1]]
    lits += [[rnd.choice(items_pool) for _ in range(rnd.randint(0, 4))] for _ in range(20 if quick else 200)]
    for items in lits:
        body = ", ".join("NULL" if x is None else ("true" if x is True else "false" if x is False else sql_str(x) if isinstance(x, str) else str(x)) for x in items)
        for sql in (f"select [{body}]", f"select array_construct({body})"):
            tasks.append(("one", sql))
            meta.append({"kind": "arr", "sql": sql, "line": "json\tarr\t" + enc_json(items), "tag": "arr"})
    # SPLIT
    strs = ["a,b,c", "", ",", "a,,b", ",a,", "abc", "a b,c d", "q\"u,x", "it's,ok", "a\\b,c"]
    strs += ["".join(rnd.choice("ab,; ") for _ in range(rnd.randint(0, 8))) for _ in range(6 if quick else 300)]
    for s in strs:
        for sep in ((",", ";") if quick else (",", ";", " ")):
            pieces = s.split(sep)
            sql = f"select split({sql_str(s)}, {sql_str(sep)})"
            tasks.append(("one", sql))
            meta.append({"kind": "split", "sql": sql, "s": s, "sep": sep, "pieces": pieces,
                         "line": f"json\tsplit\t{enc_str(s)}\t{enc_str(sep)}", "tag": "split"})
            # subscript / cast / size on the SPLIT result: the result is the document
            i = rnd.randint(0, len(pieces))
            for e in (f"{{v}}[{i}]", f"{{v}}[{i}]::varchar", "array_size({v})", f"upper({{v}}[{i}])"):
                full = "select " + e.replace("{v}", f"split({sql_str(s)}, {sql_str(sep)})")
                try:
                    toks = parse_expr(e)
                except Exception:
                    continue
                tasks.append(("one", full))
                meta.append({"kind": "lit", "sql": full, "doc": pieces, "E": enc_list(toks), "tag": "split:use"})
    # subject / separator written as EXPRESSIONS (path casts, function calls, concatenation) and as bound parameters
    src_doc = {"csv": "a|b|c", "sep": "|", "csv2": "x, y,z", "sep2": ","}
    frm = f" from (select parse_json({sql_str(dumps(src_doc))}) as v) d"
    xs = [("split(v:csv::varchar, v:sep::varchar)", "a|b|c", "|"), ("split('a|b|c', v:sep::varchar)", "a|b|c", "|"), ("split(v:csv2::varchar, v:sep2::string)", "x, y,z", ","),
          ("split(v:csv::varchar, '|')", "a|b|c", "|"), ("split('a|b', lower('|'))", "a|b", "|"), ("split('a,b', ',' || '')", "a,b", ","), ("split('a b c', chr(32))", "a b c", " "),
          ("split('a--b', repeat('-', 2))", "a--b", "--"), ("split(upper('a,b'), trim(' , '))", "A,B", ","), ("split('a|b|c', get_path(v, 'sep')::varchar)", "a|b|c", "|"),
          ("split(v:csv::varchar, coalesce(v:nosuch::varchar, v:sep::varchar))", "a|b|c", "|")]
    for e, subj, sep in xs:
        pieces = subj.split(sep)
        sql = f"select {e}{frm}"
        tasks.append(("one", sql))
        meta.append({"kind": "split", "sql": sql, "s": subj, "sep": sep, "pieces": pieces, "line": None, "tag": "split:expression-args"})
        sql = f"select array_size({e}){frm}"
        tasks.append(("one", sql))
        meta.append({"kind": "fixed_one", "sql": sql, "want": f"I{len(pieces)}", "tag": "split:expression-args:size"})
        sql = f"select f.value::varchar{frm}, lateral flatten(input => {e}) f"
        tasks.append(("rows", sql))
        meta.append({"kind": "flatten", "sql": sql, "line": f"json\tflatten\t{enc_json(pieces)}\ttext", "tag": "split:expression-args:flatten"})
    for sql, params, subj, sep in [("select split(?, ?)", ("a|b|c", "|"), "a|b|c", "|"), ("select split('a|b|c', ?)", ("|",), "a|b|c", "|"), ("select split(?, ',')", ("x,y",), "x,y", ","),
                                   ("select split(?, ?)", ("a b", " "), "a b", " ")]:
        tasks.append(("qmark", sql, params))
        meta.append({"kind": "split", "sql": f"{sql} with parameters {params}", "s": subj, "sep": sep, "pieces": subj.split(sep), "line": None, "tag": "split:bound-parameters"})
    for s_, sep in [("it's,ok", ","), ("a'b'c", "'"), ("x''y", "'"), ("plain,text", ",")]:
        for qs, qsep in ((f"$${s_}$$", sql_str(sep)), (f"$${s_}$$", f"$${sep}$$"), (sql_str(s_), f"$${sep}$$")):
            sql = f"select split({qs}, {qsep})"
            tasks.append(("one", sql))
            meta.append({"kind": "split", "sql": sql, "s": s_, "sep": sep, "pieces": s_.split(sep), "line": None, "tag": "split:dollar-quoted"})
    for k_, v_ in [("it's", "o'clock"), ("k", "''"), ("a'b", "plain")]:
        for fn in ("object_construct", "object_construct_keep_null"):
            sql = f"select {fn}($${k_}$$, $${v_}$$, 'n', 1)"
            tasks.append(("one", sql))
            meta.append({"kind": "obj", "fn": fn, "sql": sql, "line": "json\tobj\t" + enc_list([f"{enc_str(k_)}=E" + enc_json(v_, sep=","), f"{enc_str('n')}=Ei1"]), "tag": "obj:dollar-quoted"})
    for d in [["it's", "o'clock"], ["''", "plain"]]:
        for mode, proj in (("value", "f.value"), ("text", "f.value::varchar")):
            sql = f"select {proj} from lateral flatten(input => parse_json($${dumps(d)}$$)) f"
            tasks.append(("rows", sql))
            meta.append({"kind": "flatten", "sql": sql, "line": f"json\tflatten\t{enc_json(d)}\t{mode}", "tag": "flatten:dollar-quoted:" + mode})
    # multi-character separators: sampled against Python only (outside the Lean model)
    for s, sep in [("a::b::c", "::"), ("abcabc", "bc"), ("aaa", "aa"), ("x", "xyz"), ("", "ab")]:
        sql = f"select split({sql_str(s)}, {sql_str(sep)})"
        tasks.append(("one", sql))
        meta.append({"kind": "split", "sql": sql, "s": s, "sep": sep, "pieces": s.split(sep), "line": None, "tag": "split:multichar"})
    # LATERAL FLATTEN
    fl_docs = [[], [1], [3, 1, 2], ["x", ' q"u '], [1, "x", None, True, [1], {"k": "v"}], [None], [[], {}], {"k": 1, "j": "x"}, {}, None,
               ["b", "a", "b"]]
    fl_docs += [[rnd.choice(LEAVES) for _ in range(rnd.randint(0, 6))] for _ in range(4 if quick else 300)]
    for d in fl_docs:
        lit = f"parse_json({sql_str(dumps(d))})"
        for mode, proj in (("value", "f.value"), ("text", "f.value::varchar"), ("index", "f.index")):
            for src in (f"(select {lit} as a) s, lateral flatten(input => s.a) f",
                        f"(select parse_json({sql_str(dumps({'w': d}))}) as a) s, lateral flatten(input => s.a:w) f",
                        # the flatten as the FIRST item of FROM (the natural form for literals and computed arrays)
                        f"lateral flatten(input => {lit}) f",
                        f"lateral flatten(input => parse_json({sql_str(dumps({'w': d}))}):w) f"):
                if quick and rnd.random() < 0.5:
                    continue
                sql = f"select {proj} from {src}"
                tasks.append(("rows", sql))
                meta.append({"kind": "flatten", "sql": sql, "line": f"json\tflatten\t{enc_json(d)}\t{mode}", "tag": "flatten:" + mode})
    # FLATTEN over inputs that are not a plain path: TRY_PARSE_JSON (literal text, VARCHAR column), ARRAY_CONSTRUCT, OBJECT_CONSTRUCT(..):path, a VARIANT column
    for d in ([[1, "a"], ["x", ' q"u '], [], [3, 1, 2], [[1], {"k": "v"}]] if not quick else [[1, "a"], ["x", ' q"u '], []]):
        txt = sql_str(dumps(d))
        for mode, proj in (("value", "f.value"), ("text", "f.value::varchar")):
            for src in (f"lateral flatten(input => try_parse_json({txt})) f", f"(select {txt} as s) x, lateral flatten(input => try_parse_json(x.s)) f",
                        f"(select 1 as one) o, lateral flatten(input => try_parse_json({txt})) f",
                        f"lateral flatten(input => object_construct('k', parse_json({txt})):k) f",
                        f"(select parse_json({txt}) as col) c, lateral flatten(input => c.col) f", f"(select parse_json({txt}) as col) c, lateral flatten(input => col) f"):
                sql = f"select {proj} from {src}"
                tasks.append(("rows", sql))
                meta.append({"kind": "flatten", "sql": sql, "line": f"json\tflatten\t{enc_json(d)}\t{mode}", "tag": "flatten:inputs:" + mode})
    for items, d in (("1, 2, 3", [1, 2, 3]), ("'a', 'b'", ["a", "b"]), ("", [])):
        for mode, proj in (("value", "f.value"), ("text", "f.value::varchar")):
            for src in (f"lateral flatten(input => array_construct({items})) f", f"lateral flatten(input => [{items}]) f"):
                sql = f"select {proj} from {src}"
                tasks.append(("rows", sql))
                m_ = {"kind": "flatten", "sql": sql, "line": f"json\tflatten\t{enc_json(d)}\t{mode}", "tag": "flatten:inputs:array_construct:" + mode}
                if any(isinstance(x, str) for x in d):
                    # a native VARCHAR list cast to JSON[] parses each string as JSON text
                    m_.update(force_impl="Econv", force_key="C11/flatten-native-string-list")
                meta.append(m_)
    # spelled-out FLATTEN arguments; empty / missing arrays
    for d in ([[], [1, "x"], None, ["only"], [None]] if not quick else [[], [1, "x"], None]):
        for extra, mode in ((", outer => false", "value"), (", outer => true", "outer"), (", recursive => false", "value"), (", mode => 'ARRAY'", "value"),
                            (", outer => false, recursive => false, mode => 'ARRAY'", "value"), (", outer => TRUE, mode => 'ARRAY'", "outer")):
            wrapped = dumps({"w": d, "k": 1})
            for src, dd in ((f"(select parse_json({sql_str(wrapped)}) as a) s, lateral flatten(input => s.a:w{extra}) f", d),
                            (f"(select parse_json({sql_str(wrapped)}) as a) s, lateral flatten(input => s.a:missing{extra}) f", None),
                            (f"lateral flatten(input => parse_json({sql_str(dumps(d))}){extra}) f", d)):
                sql = f"select f.value from {src}"
                tasks.append(("rows", sql))
                meta.append({"kind": "flatten", "sql": sql, "line": f"json\tflatten\t{enc_json(dd)}\t{mode}", "tag": "flatten:args:" + mode})
    # expressions over f.value (strings with padding / quotes / case), per element, in the select list and in WHERE
    fexprs = ["trim(f.value)", "upper(f.value)", "lower(f.value)", "f.value::varchar", "f.value::string", "trim(f.value::varchar)", "upper(trim(f.value))", "trim(upper(f.value))",
              "lower(f.value::varchar)", "trim(f.value) = 'padded'", "f.value::varchar = ' padded '", "upper(f.value::varchar) = 'X'", "f.value is null", "f.value",
              "trim(f.value) || '!'", "f.value::int", "f.value::smallint + 1", "not f.value::boolean"]
    farrs = [[" padded ", "x", ' Pad"x ', "MiXed", None, "a\\b"], ["padded"], [], [1, 200, 40000, 3000000000], [True, False, None], [" x ", 5, True, [1], {"k": "v"}]]
    for arr in (farrs if not quick else [farrs[0], farrs[3], farrs[5]]):
        lit = f"parse_json({sql_str(dumps(arr))})"
        for fe in fexprs:
            try:
                toks = parse_expr(fe)
            except Exception:
                chk.count("skipped_unparsed:flatexpr")
                continue
            for src in (f"lateral flatten(input => {lit}) f", f"(select {lit} as a) s, lateral flatten(input => s.a) f")[: (1 if quick and rnd.random() < 0.7 else 2)]:
                sql = f"select {fe} from {src}"
                tasks.append(("rows", sql))
                meta.append({"kind": "flatexpr", "sql": sql, "arr": arr, "E": enc_list(toks), "tag": "flatten:value-expr", "where": False})
            sql = f"select count(*) from lateral flatten(input => {lit}) f where {fe}"
            tasks.append(("one", sql))
            meta.append({"kind": "flatexpr", "sql": sql, "arr": arr, "E": enc_list(toks), "tag": "flatten:value-expr:where", "where": True})
    for sv, sep in [('a b,c"d,it\'s', ","), ("x", ","), ("", ","), ("a;;b", ";")]:
        pieces = sv.split(sep)
        for mode, proj in (("value", "f.value"), ("text", "f.value::varchar"), ("text", "f.value::string")):
            for src in (f"lateral flatten(input => split({sql_str(sv)}, {sql_str(sep)})) f",
                        f"(select 1 as one) o, lateral flatten(input => split({sql_str(sv)}, {sql_str(sep)})) f"):
                sql = f"select {proj} from {src}"
                tasks.append(("rows", sql))
                meta.append({"kind": "flatten", "sql": sql, "line": f"json\tflatten\t{enc_json(pieces)}\t{mode}", "tag": "flatten:computed:" + mode})
    # PARSE_JSON / TRY_PARSE_JSON round trip (oracle: the document itself)
    pj = exhaustive_docs()[:: (6 if quick else 1)] + [rand_doc(rnd) for _ in range(10 if quick else 200)] + [x for x in LEAVES if x is not None]
    for d in pj:
        for fn in ("parse_json", "try_parse_json"):
            sql = f"select {fn}({sql_str(dumps(d))})"
            tasks.append(("one", sql))
            meta.append({"kind": "parse", "sql": sql, "doc": d, "tag": fn})
    for bad in ["{bad", "[1,", "", "{'a':1}", "nul"]:
        sql = f"select try_parse_json({sql_str(bad)})"
        tasks.append(("one", sql))
        meta.append({"kind": "parse_bad", "sql": sql, "tag": "try_parse_json:malformed"})
    return n


# ------------------------------------------------------------------------------------------------
# run
# ------------------------------------------------------------------------------------------------
def model_lines(tables, meta):
    lines, index = [], []
    env_cache: dict = {}

    def env_of(table, di, d):
        if (table, di) not in env_cache:
            env_cache[(table, di)] = enc_env(parse_env(d))
        return env_cache[(table, di)]

    for mi, m in enumerate(meta):
        if m["kind"] == "tbl":
            with_env = ";J;" in (";" + m["E"] + ";") or m["E"].startswith("J;")
            for di, d in enumerate(tables[m["table"]]):
                lines.append(f"json\teval\t{enc_json(d)}\t{m['E']}" + (f"\t{env_of(m['table'], di, d)}" if with_env else ""))
                index.append((mi, di))
        elif m["kind"] == "lit":
            with_env = ";J;" in (";" + m["E"] + ";") or m["E"].startswith("J;")
            lines.append(f"json\teval\t{enc_json(m['doc'])}\t{m['E']}" + (f"\t{enc_env(parse_env(m['doc']))}" if with_env else ""))
            index.append((mi, None))
        elif m["kind"] == "flatexpr":
            for ei, el in enumerate(m["arr"]):
                lines.append(f"json\teval\t{enc_json(el)}\t{m['E']}")
                index.append((mi, ei))
        elif m.get("line"):
            lines.append(m["line"])
            index.append((mi, None))
    return lines, index


def judge(chk, tables, meta, reals, replies, index):
    by_meta: dict[int, list] = {}
    for (mi, di), rep in zip(index, replies):
        by_meta.setdefault(mi, []).append((di, rep))
    for mi, m in enumerate(meta):
        real = reals[mi]
        kind = m["kind"]
        if kind == "tbl":
            docs = tables[m["table"]]
            for di, rep in by_meta[mi]:
                case = {"kind": "eval", "sql": m["sql"], "doc": docs[di], "E": m["E"], "mode": "column"}
                v = verdict(chk, rep, real[di], case, f"`select {m['sql'].replace('{v}', 'v')}` with v = {dumps(docs[di])}",
                            "C11_partial/C11_nav (correspondence with evalDuck ∘ pipeline)")
                if v != "skip":
                    nontrivial = rep.get("spec", "N") != "N"
                    chk.case((m["sql"], di), nontrivial=nontrivial)
                    chk.count(m["tag"].split(":")[0] + ":" + m["tag"].split(":")[1])
                    chk.count("spec_kind:" + rep["spec"][0])
                    if rep.get("srcok") == "1" and rep.get("precok") != "1":
                        chk.violation(f"model inconsistency: SrcOK but not PrecOK for {m['sql']}", case, broken="C11_precedence", failing_input=False)
                    if rep.get("precok_noparen") == "0":
                        chk.count("needs_json_extract_precedence")
        elif kind == "lit":
            (_, rep), = by_meta[mi]
            case = {"kind": "eval", "sql": m["sql"], "doc": m["doc"], "E": m["E"], "mode": "literal"}
            if m.get("route"):
                case.update(mode="route", route=m["route"], template=m["template"], text=m["text"])
            v = verdict(chk, rep, real, case, f"`{m['sql']}`", "C11_partial/C11_nav (literal operand)")
            if v != "skip":
                chk.case((m["sql"],), nontrivial=rep.get("spec", "N") != "N")
                chk.count("literal")
        elif kind == "flatexpr":
            reps = [r for _, r in sorted(by_meta.get(mi, []), key=lambda t: t[0])]
            case = {"kind": "flatexpr", "sql": m["sql"], "arr": m["arr"], "E": m["E"], "where": m["where"]}
            judge_flatexpr(chk, m, real, reps, case)
        elif kind in ("obj", "arr", "flatten"):
            (_, rep), = by_meta[mi]
            rep = dict(rep)
            if m.get("force_key"):
                rep["impl"], rep["finding"] = m["force_impl"], m["force_key"]
            if kind == "obj" and m["fn"].endswith("keep_null"):
                rep["spec"], rep["impl"], rep["finding"] = rep["keep"], rep["keep"], "-"
            case = {"kind": kind, "sql": m["sql"], "line": m["line"]}
            if m.get("force_key"):
                case.update(force_impl=m["force_impl"], force_key=m["force_key"])
            thm = {"obj": "C11_object_construct_partial", "arr": "finding_array_literal (model of array literals)", "flatten": "C11_flatten/C11_flatten_text"}[kind]
            v = verdict(chk, rep, real, case, f"`{m['sql']}`", thm + " (correspondence)")
            if v != "skip":
                chk.case((m["sql"],), nontrivial=True)
                chk.count(m["tag"])
        elif kind == "split":
            want = "S" + dumps(m["pieces"])
            case = {"kind": "split", "sql": m["sql"], "s": m["s"], "sep": m["sep"], "line": m["line"]}
            chk.case((m["sql"],), nontrivial=len(m["pieces"]) > 1)
            chk.count(m["tag"])
            ok = real.startswith("S") and _json_eq(real[1:], m["pieces"])
            if not ok:
                chk.violation(f"`{m['sql']}` returned {real!r}, Python's split gives {want[1:]}", case, broken="C11_split (correspondence with splitOn / str.split)")
            if m["line"]:
                (_, rep), = by_meta[mi]
                got = [dec_str(p) for p in rep["pieces"].split(",")] if rep.get("pieces") is not None else None
                if got != m["pieces"]:
                    chk.violation(f"model splitOn {m['s']!r} by {m['sep']!r} = {got} ≠ {m['pieces']}", case, broken="splitOn model", failing_input=False)
        elif kind == "parse":
            chk.case((m["sql"],), nontrivial=True)
            chk.count(m["tag"])
            d = m["doc"]
            ok = (real == "N") if d is None else (real.startswith("S") and _json_eq(real[1:], d))
            if not ok:
                chk.violation(f"`{m['sql']}` returned {real!r}, the document is {dumps(d)}", {"kind": "parse", "sql": m["sql"], "doc": d},
                              broken="PARSE_JSON round trip (oracle: the document)")
        elif kind == "fixed_one":
            chk.case((m["sql"],), nontrivial=True)
            chk.count(m["tag"])
            if real != m["want"]:
                c_ = {"kind": "fixed_one", "sql": m["sql"], "want": m["want"]}
                if m.get("route"):
                    c_.update(route=m["route"], template=m["template"], text=m["text"])
                chk.violation(f"`{m['sql']}` returned {real!r}, required {m['want']}", c_, broken=f"C11 correspondence ({m['tag']})")
        elif kind == "parse_bad":
            chk.case((m["sql"],), nontrivial=False)
            chk.count(m["tag"])
            if real != "N":
                chk.violation(f"`{m['sql']}` returned {real!r}, TRY_PARSE_JSON of malformed text is NULL", {"kind": "parse_bad", "sql": m["sql"]},
                              broken="TRY_PARSE_JSON (oracle)")


def judge_flatexpr(chk, m, real, reps, case):
    """an expression over f.value: one model evaluation per element (the element is the document)"""
    if any(r.get("_raw") == "unsupported" or "spec" not in r for r in reps):
        chk.count("skipped_unsupported")
        return
    chk.case((m["sql"],), nontrivial=len(reps) > 0)
    chk.count(m["tag"])
    keys = sorted({k for r in reps for k in (r["finding"].split(",") if r["finding"] != "-" else [])})
    what = f"`{m['sql']}`"
    if m["where"]:
        def count(field):
            vals = [r[field] for r in reps]
            if any(v.startswith("E") for v in vals):
                return next(v for v in vals if v.startswith("E"))
            if any(v not in ("B0", "B1", "N") for v in vals):
                return None
            return f"I{sum(v == 'B1' for v in vals)}"
        spec, impl = count("spec"), count("impl")
        if spec is None:
            chk.count("skipped_unsupported")
            return
        ok_spec, ok_impl = real == spec, impl is not None and real == impl
    else:
        def rows(field):
            vals = [r[field] for r in reps]
            if any(v.startswith("E") for v in vals):
                return next(v for v in vals if v.startswith("E"))
            return "R" + ",".join(vals)
        spec, impl = rows("spec"), rows("impl")
        ok_spec, ok_impl = model_obs_matches(spec, real), model_obs_matches(impl, real)
    if ok_spec:
        if not keys and impl != spec:
            chk.violation(f"model inconsistency for {what}: impl {impl} ≠ spec {spec}", case, broken="C11_flatten_value_text (model)", failing_input=False)
        return
    if keys and ok_impl:
        known = [k for k in keys if k in chk.known]
        chk.finding(known[0] if known else keys[0], f"{what}: got {real!r}, required {show(spec)}", case)
        return
    chk.violation(f"{what}: fakesnow returned {real!r} but converting each element of {dumps(m['arr'])} requires {show(spec)} "
                  f"(model of the code predicts {show(impl) if impl else impl}; finding region: {','.join(keys) or '-'})", case,
                  broken="C11_flatten_value_text / C11_order_flatten_value (correspondence with evalDuck ∘ pipelineAll per element)")


def _json_eq(text: str, want) -> bool:
    try:
        return dumps(json.loads(text)) == dumps(want)
    except ValueError:
        return False


def flatten_match(model: str, real: str) -> bool:
    if not model.startswith("R"):
        return model == real
    if not real.startswith("R"):
        return False
    ms = model[1:].split(",") if len(model) > 1 else []
    rs = real[1:].split("\x1f") if len(real) > 1 else []
    return len(ms) == len(rs) and all(model_obs_matches(a, b) for a, b in zip(ms, rs))


_orig_matches = model_obs_matches


def model_obs_matches(model: str, real: str) -> bool:  # noqa: F811  (row lists on top of cells)
    if model.startswith("R") or real.startswith("R"):
        return flatten_match(model, real)
    return _orig_matches(model, real)


def run(chk) -> None:
    # the committed witnesses (one per known finding) run first
    for f in sorted((common.CORPUS / "C11").glob("*.json")):
        replay(chk, json.loads(f.read_text()))
        chk.count("corpus")
    tables, tasks, meta, _ = build(chk)
    chk.rule = ("documents: all one-key objects/arrays of depth ≤ 2, width ≤ 2 over 7 leaves (exhaustive) + random documents of depth ≤ 3; "
                "paths over {a,b,S,'a b',0,1,2}: all of length 1, 30 of the 49 of length 2 (quick; all in thorough) + sampled length 3; 9 uses × 4 spellings (colon, GET_PATH, nested, subscript); "
                "typed random operator contexts of depth ≤ 3 with bare and cast extracts; column and PARSE_JSON-literal operands; OBJECT_CONSTRUCT "
                "argument lists, array literals, SPLIT, FLATTEN, PARSE_JSON.  non-trivial = distinct (expression, document) whose required value is not NULL")
    nshards = 16
    shards = [(tables, tasks[i::nshards]) for i in range(nshards)]
    shard_res = common.shard_map(_worker, shards)
    reals = [None] * len(tasks)
    for i, res in enumerate(shard_res):
        for j, r in enumerate(res):
            reals[i + j * nshards] = r
    lines, index = model_lines(tables, meta)
    replies = common.batch(lines)
    judge(chk, tables, meta, reals, replies, index)
    chk.extra["statements_executed"] = len(tasks)
    chk.extra["model_evaluations"] = len(lines)
    chk.extra["documents"] = {k: len(v) for k, v in tables.items()}
    chk.exhaustive = False
    chk.samples = [{"sql": m["sql"], "tag": m["tag"]} for m in meta[:: max(1, len(meta) // 8)]][:8]
    chk.trusted += [
        "DuckDB JSON engine as modelled by Fs.Json.evalDuck: `->`/`->>`, JSON path text parser (parsePath), CAST to/from JSON text, "
        "UPPER/LOWER/TRIM on JSON, json_array_length, 3-valued AND/OR/NOT/=, integer subscripts on JSON, UNNEST(CAST(x AS JSON[])), TO_JSON(struct), str_split",
        "sqlglot: Snowflake parser (the model receives the tree sqlglot parsed), JSONPath rendering, the DuckDB generator's own parenthesisation "
        "of `->` under Binary parents (E.level), JSON_OBJECT for OBJECT_CONSTRUCT_KEEP_NULL",
        "DuckDB 1.0 operator precedence table transcribed in Fs.Json.Op.prec / PrecOKg (validated only through the values of the generated contexts)",
    ]
    chk.assumptions = ["documents have distinct keys per object; strings are ASCII without control characters; numbers are integers",
                       "UNNEST returns list elements in order (no ORDER BY is available for FLATTEN without `index`)"]


def replay(chk, case) -> None:
    kind = case["kind"]
    if kind == "eval":
        if case["mode"] == "column":
            tables = {"tg": [case["doc"]]}
            real = _worker((tables, [("tbl", "tg", case["sql"], 1)]))[0][0]
            what = f"`select {case['sql'].replace('{v}', 'v')}` with v = {dumps(case['doc'])}"
        elif case["mode"] == "route":
            real = _worker(({}, [("route", case["route"], case["text"], case["template"])]))[0]
            what = f"`{case['sql']}`"
        else:
            real = _worker(({}, [("one", case["sql"])]))[0]
            what = f"`{case['sql']}`"
        rep = common.batch([f"json\teval\t{enc_json(case['doc'])}\t{case['E']}\t{enc_env(parse_env(case['doc']))}"])[0]
        verdict(chk, rep, real, case, what, "C11_partial/C11_nav (correspondence with evalDuck ∘ pipeline)")
    elif kind == "flatexpr":
        real = _worker(({}, [("one" if case["where"] else "rows", case["sql"])]))[0]
        reps = common.batch([f"json\teval\t{enc_json(el)}\t{case['E']}" for el in case["arr"]]) if case["arr"] else []
        judge_flatexpr(chk, {"sql": case["sql"], "arr": case["arr"], "tag": "flatten:value-expr", "where": case["where"]}, real, reps, case)
    elif kind in ("obj", "arr", "flatten"):
        real = _worker(({}, [("rows" if kind == "flatten" else "one", case["sql"])]))[0]
        rep = dict(common.batch([case["line"]])[0])
        if case.get("force_key"):
            rep["impl"], rep["finding"] = case["force_impl"], case["force_key"]
        if kind == "obj" and "keep_null" in case["sql"]:
            rep["spec"], rep["impl"], rep["finding"] = rep["keep"], rep["keep"], "-"
        verdict(chk, rep, real, case, f"`{case['sql']}`", "correspondence")
    elif kind == "split":
        real = _worker(({}, [("one", case["sql"])]))[0]
        pieces = case["s"].split(case["sep"])
        if not (real.startswith("S") and _json_eq(real[1:], pieces)):
            chk.violation(f"`{case['sql']}` returned {real!r}, Python's split gives {pieces}", case, broken="C11_split")
    elif kind == "fixed_one":
        real = _worker(({}, [("route", case["route"], case["text"], case["template"]) if case.get("route") else ("one", case["sql"])]))[0]
        if real != case["want"]:
            chk.violation(f"`{case['sql']}` returned {real!r}, required {case['want']}", case, broken="C11_split (expression arguments)")
    elif kind in ("parse", "parse_bad"):
        real = _worker(({}, [("one", case["sql"])]))[0]
        d = case.get("doc")
        ok = real == "N" if (kind == "parse_bad" or d is None) else (real.startswith("S") and _json_eq(real[1:], d))
        if not ok:
            chk.violation(f"`{case['sql']}` returned {real!r}", case, broken="PARSE_JSON oracle")
