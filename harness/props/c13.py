"""C13 — transactions are atomic, isolated between connections, and sticky to theirs.

Correspondence: every case is an *event list* (connects, cursor creations, statements on chosen cursors,
conn.commit()/conn.rollback()) executed single-threaded, in the given interleaving, against a fresh fakesnow
instance and against `Fs.Tx.World.run` (code model, `Mode.duck`) / the specification (`Mode.ideal`) through the
driver.  Every statement's outcome is compared: rows read (as multisets), DML counts, the status row, the
empty result of BEGIN/COMMIT/ROLLBACK, errno/sqlstate of translated errors, the class of raw errors.  The theorems
of Fs/Props/C13.lean then cover all interleavings / any number of connections.

Write sets are kept disjoint (fake connection i writes table t<i> only; everybody reads every table) — the
quantifier of C13 ("non-conflicting writes").
"""
from __future__ import annotations

import itertools
import json
import random
import re
import shutil
import tempfile

from lib import common
from lib.common import dec_list

NT = 3  # tables t0..t2 (k int, v int)
BEGINS = ["begin", "BEGIN", "begin transaction", "BEGIN WORK", "Begin"]
COMMITS = ["commit", "COMMIT", "Commit work"]
ROLLBACKS = ["rollback", "ROLLBACK", "rollback work"]


# ------------------------------------------------------------------------------------------------
# real side
# ------------------------------------------------------------------------------------------------

def _sql(st: str, rnd: random.Random, q: str = "") -> str:
    """q = "db1.s1." for cursors of a connection opened without database/schema (fully qualified names)"""
    k = st[0]
    if k == "b":
        return rnd.choice(BEGINS)
    if k == "c":
        return rnd.choice(COMMITS)
    if k == "r":
        return rnd.choice(ROLLBACKS)
    if k == "k":
        return "select 1"
    if k == "s":
        return f"select k, v from {q}t{int(st[1:])}"
    if k == "i":
        t, kk, v = st[1:].split(".")
        return f"insert into {q}t{t} values ({kk}, {v})"
    if k == "d":
        t, kk = st[1:].split(".")
        return f"delete from {q}t{t} where k = {kk}"
    if k == "u":
        t, kk, v = st[1:].split(".")
        return f"update {q}t{t} set v = {v} where k = {kk}"
    if st.startswith("tr"):
        return f"truncate table {q}t{st[2:]}"
    if st.startswith("ac"):
        return f"comment on table {q}t{st[2:]} is 'note'"
    if st == "av":
        return "set v13 = 3"
    if st.startswith("mu"):
        t, kk, v = st[2:].split(".")
        # a successful MERGE that updates the row with key kk (same effect as the UPDATE; several engine statements)
        return (f"merge into t{t} using (select {kk} as k, {v} as v) as src on t{t}.k = src.k "
                f"when matched then update set v = src.v")
    if st.startswith("fm"):
        t = st[2:] or "0"
        # a MERGE (fakesnow runs it as several engine statements) whose clauses name a missing column: fails after its first part
        return (f"merge into t{t} using (select 1 as k, 1 as v) as src on t{t}.k = src.k when matched then update set nocol = src.v "
                f"when not matched then insert (k, nocol) values (src.k, src.v)")
    if st == "ft":
        return f"select k from {q}t_missing"
    if st == "fc":
        return f"select nocol from {q}t0"
    if st == "fr":
        return f"insert into {q}t0 values ('x', 1)"
    raise common.Infra(f"bad statement {st}")


def _canon(st: str, cur) -> str:
    rows = cur.fetchall()
    k = st[0]
    if k in "bcr":
        if rows == []:
            return "e"
        if rows == [("Statement executed successfully.",)]:
            return "S"
    elif k == "s":
        if all(isinstance(r, tuple) and len(r) == 2 for r in rows):
            return "r" + ",".join(f"{a}.{b}" for a, b in sorted(rows))
    elif k in "id":
        if len(rows) == 1 and len(rows[0]) == 1 and isinstance(rows[0][0], int):
            return f"n{rows[0][0]}"
    elif k == "u":
        if len(rows) == 1 and len(rows[0]) == 2 and rows[0][1] == 0:
            return f"n{rows[0][0]}"
    elif k in "ta":
        if rows == [("Statement executed successfully.",)]:
            return "S"
    elif k == "m":
        # MERGE answers its update count as a Decimal, and NULL instead of 0 when nothing matched (C12's business)
        if len(rows) == 1 and len(rows[0]) == 1:
            return f"n{int(rows[0][0] or 0)}"
    elif k == "k":
        if rows == [(1,)]:
            return "1"
    return f"?rows={rows!r}"


def _canon_exc(e: Exception) -> str:
    import duckdb
    import snowflake.connector.errors as se
    if isinstance(e, se.ProgrammingError):
        if e.errno == 255001:
            return "B"          # the connector cannot bind the value (client side, before any engine call)
        if (e.errno, e.sqlstate) == (2003, "42S02"):
            return "Et"
        if (e.errno, e.sqlstate) == (2043, "02000"):
            return "Ec"
        return f"?ProgrammingError:{e.errno}:{e.sqlstate}"
    if isinstance(e, duckdb.TransactionException):
        return "N" if "within a transaction" in str(e) else f"?TransactionException:{str(e)[:80]}"
    if isinstance(e, duckdb.ConversionException):
        return "X"
    if isinstance(e, duckdb.InvalidInputException):
        return "A"
    return f"?{type(e).__module__}.{type(e).__name__}:{str(e)[:80]}"


class _Boom(Exception):
    pass


def _in_thread(fn):
    """run fn() on a worker thread and wait for it: no concurrency, only a different calling thread"""
    import threading
    box = {}

    def run():
        try:
            box["r"] = fn()
        except BaseException as e:  # noqa: BLE001
            box["e"] = e

    t = threading.Thread(target=run)
    t.start()
    t.join()
    if "e" in box:
        raise box["e"]
    return box.get("r")


def _real_case(case) -> list[str]:
    import fakesnow
    import snowflake.connector
    rnd = random.Random(case["spell"])
    out = []
    tmp = tempfile.mkdtemp(prefix="c13-") if case.get("dbpath") else None
    try:
        return _real_case_in(case, rnd, out, tmp)
    finally:
        if tmp:
            shutil.rmtree(tmp, ignore_errors=True)


def _real_case_in(case, rnd, out, tmp) -> list[str]:
    import fakesnow
    import snowflake.connector
    import snowflake.connector.errors as se_
    with (fakesnow.patch(db_path=tmp) if tmp else fakesnow.patch()):
        setup = snowflake.connector.connect(database="db1", schema="s1")
        sc = setup.cursor()
        for t in range(NT):
            sc.execute(f"create table t{t} (k int, v int)")
            rows = case["init"][t] if t < len(case["init"]) else []
            if rows:
                sc.execute(f"insert into t{t} values " + ",".join(f"({a},{b})" for a, b in rows))
        conns, curs, named, qual = [], [], [], []
        for ev in case["events"]:
            k = ev[0]
            try:
                if k == "C":
                    if ev == "Cn":       # opened without database/schema: statements use fully qualified names
                        conns.append(snowflake.connector.connect())
                        named.append(False)
                    else:
                        conns.append(snowflake.connector.connect(database="db1", schema="s1"))
                        named.append(True)
                    out.append("-")
                elif k == "K":
                    ci_ = int(ev[2:] if ev[1] == "t" else ev[1:])
                    if ev[1] == "t":     # the cursor is created by a worker thread (joined before anything else happens)
                        curs.append(_in_thread(conns[ci_].cursor))
                    else:
                        curs.append(conns[ci_].cursor())
                    qual.append("" if named[ci_] else "db1.s1.")
                    out.append("-")
                elif k == "W":           # a `with conn:` / `with cursor:` block ends here, normally or by an exception
                    obj = curs[int(ev[2:])] if ev[1] == "c" else conns[int(ev[2:])]
                    if ev[1] == "e":
                        try:
                            with obj:
                                raise _Boom()
                        except _Boom:
                            pass
                    else:
                        with obj:
                            pass
                    out.append("-")
                elif k == "M":
                    r = _in_thread(conns[int(ev[2:])].commit) if ev[1] == "t" else conns[int(ev[1:])].commit()
                    out.append("ok" if r is None else f"?commit returned {r!r}")
                elif k == "R":
                    r = _in_thread(conns[int(ev[2:])].rollback) if ev[1] == "t" else conns[int(ev[1:])].rollback()
                    out.append("ok" if r is None else f"?rollback returned {r!r}")
                elif k == "D":           # cursor.description on a fresh cursor of connection c: raises (nothing was executed)
                    try:
                        conns[int(ev[2:])].cursor().description  # noqa: B018
                        out.append("?description did not raise")
                    except se_.Error as e:
                        # on a connection without a current database the pre-check (90105) raises before any engine call
                        out.append("-" if getattr(e, "errno", None) == 90105 else _canon_exc(e))
                elif k == "Y":           # conn.execute_string("st1; st2; …", return_cursors=True|False) on the cursor's connection
                    ci, sts = ev[2:].split(":")
                    text = "; ".join(_sql(st, rnd, qual[int(ci)]) for st in sts.split("+"))
                    got = curs[int(ci)]._conn.execute_string(text, return_cursors=ev[1] == "s")  # noqa: SLF001
                    if ev[1] == "s":
                        got = list(got)
                        out.append(_canon(sts.split("+")[-1], got[-1]) if got else "?execute_string returned no cursor")
                    else:
                        out.append("-" if list(got) == [] else f"?execute_string(return_cursors=False) returned {got!r}")
                elif k == "X" and ev[1] == "w":     # the statement runs inside `with cursor:` and its error leaves the block
                    ci, st = ev[2:].split(":")
                    try:
                        with curs[int(ci)] as cur:
                            cur.execute(_sql(st, rnd, qual[int(ci)]))
                            out.append(_canon(st, cur))
                    except common.Infra:
                        raise
                    except Exception as e:  # noqa: BLE001
                        out.append(_canon_exc(e))
                elif k == "X" and ev.split(":")[1][:2] == "pw":   # write_pandas on the cursor's connection
                    import pandas as pd
                    import snowflake.connector.pandas_tools as pt
                    ci, st = ev[1:].split(":")
                    t, kk, v = st[2:].split(".")
                    conn_of_cur = curs[int(ci)]._conn  # noqa: SLF001 - the cursor's own connection object
                    r = pt.write_pandas(conn_of_cur, pd.DataFrame({"K": [int(kk)], "V": [int(v)]}), f"T{t}", database="DB1", schema="S1")
                    out.append(f"n{r[2]}" if r[0] else f"?write_pandas returned {r[:3]!r}")
                elif k == "X":
                    ci, st = ev[1:].split(":")
                    cur = curs[int(ci)]
                    if st[0] == "e":     # executemany: em<t>.<k1>.<k2>.<v> two good rows · ef<t>.<k1>.<v> second row cannot be bound
                        nums = st[2:].split(".")
                        rows = [(int(nums[1]), int(nums[-1])), (int(nums[2]) if st[1] == "m" else object(), int(nums[-1]))]
                        r = cur.executemany(f"insert into {qual[int(ci)]}t{nums[0]} values (%s, %s)", rows)
                        out.append(_canon("i", cur) if r is cur else f"?executemany returned {r!r}")
                    else:
                        r = cur.execute(_sql(st, rnd, qual[int(ci)]))
                        out.append(_canon(st, cur) if r is cur else f"?execute returned {r!r}")
                else:
                    raise common.Infra(f"bad event {ev}")
            except common.Infra:
                raise
            except Exception as e:  # every exception is an observation
                out.append(_canon_exc(e))
    return out


def _worker(shard):
    return [_real_case(c) for c in shard]


# ------------------------------------------------------------------------------------------------
# case generation
# ------------------------------------------------------------------------------------------------

def _prelude(nconn: int, ncur: int) -> list[str]:
    """connections 0..nconn-1, cursors: cursor index = conn * ncur + j"""
    return ["C"] * nconn + [f"K{c}" for c in range(nconn) for _ in range(ncur)]


def _final(nconn_before: int, ncur_total: int) -> list[str]:
    """a fresh connection reads every table (committed state)"""
    return ["C", f"K{nconn_before}"] + [f"X{ncur_total}:s{t}" for t in range(NT)]


def _interleavings(la: int, lb: int):
    for pos in itertools.combinations(range(la + lb), la):
        s = set(pos)
        yield [0 if i in s else 1 for i in range(la + lb)]


# scripts for connection `c` (own table = t<c>, other = t<1-c>); '@' = own table, '#' = other's table
CORE_SCRIPTS = [
    ["b", "i@.1.1", "s#", "c"],
    ["b", "i@.1.1", "u@.1.5", "r"],
    ["b", "s@", "i@.2.2", "c"],
    ["i@.3.3", "d@.3"],
    ["b", "fc", "i@.4.4", "c"],
    ["b", "k", "s#", "c"],
    ["c", "r", "i@.6.6"],
    ["b", "d@.9", "s@", "r"],
    ["b", "u@.9.1", "ft", "c"],
    ["b", "i@.7.7", "c", "s#"],
    ["s#", "b", "s#", "r"],
    ["b", "i@.8.8", "r", "c"],
    # a multi-part statement failing in autocommit must not leave anything open: later DML is committed at once and
    # ROLLBACK / COMMIT stay no-ops
    ["fm@", "i@.1.1", "r", "s@"],
    ["fm@", "u@.9.4", "c", "d@.9"],
    ["b", "fm@", "i@.3.3", "c"],
    # regression for repair 0e75b9f: MERGEs (also failing ones) of two connections in overlapping transactions, on different
    # tables, both commit (they used to collide on a bogus comment row for the temporary MERGE_CANDIDATES table)
    ["b", "mu@.9.4", "s@", "c"],
    # executemany = its rows one after the other: outside a transaction every row is committed at once, also when a later
    # row cannot be bound; afterwards the connection is still in autocommit and ROLLBACK/COMMIT are no-ops
    ["em@.1.2.7", "s@", "r", "i@.3.3"],
    ["ef@.1.7", "i@.2.2", "r", "s@"],
    ["b", "em@.4.5.6", "s@", "r"],
    # a `with conn:` / `with cursor:` block that ends while a transaction is open neither commits nor rolls back
    ["b", "i@.1.1", "wn", "s@", "r"],
    ["b", "i@.2.2", "we", "c"],
    ["b", "i@.3.3", "wc", "r"],
    # statement kinds with their own branch in _execute, inside a transaction: nothing is published before COMMIT, ROLLBACK undoes it
    ["b", "i@.1.1", "tr@", "s@", "r"],
    ["b", "ac@", "av", "i@.2.2", "r"],
    ["b", "i@.5.5", "pw@.6.6", "r"],
    ["pw@.7.7", "s@", "b", "pw@.8.8", "c"],
    # an error leaving a `with cursor:` block, a raising cursor.description: the open transaction goes on
    ["b", "i@.3.3", "wfc", "s@", "c"],
    ["b", "i@.4.4", "dn", "wft", "r"],
]
# scripts with a statement in a known-defect region
FINDING_SCRIPTS = [
    ["b", "i@.1.1", "fr", "c"],
    ["b", "i@.1.1", "b", "c"],
    ["b", "fr", "s@", "r"],
    ["b", "b", "i@.2.2", "c"],
    ["b", "i@.1.1", "fr", "s@"],
]


def _inst(script: list[str], c: int) -> list[str]:
    return [s.replace("@", str(c)).replace("#", str(1 - c)) for s in script]


def _pair_case(rnd, a: list[str], b: list[str], order: list[int], policy: str, api: bool, spell: int) -> dict:
    """two connections, two cursors each; `order` interleaves the scripts; after each step the probe policy
    adds reads by (a second cursor of) each connection"""
    ncur = 2
    ev = _prelude(2, ncur)
    idx = [0, 0]
    scripts = [a, b]
    flip = [0, 0]
    for c in order:
        st = scripts[c][idx[c]]
        idx[c] += 1
        if api and st in ("c", "r"):
            ev.append(("M" if st == "c" else "R") + str(c))
        elif st in ("wn", "we"):
            ev.append(f"W{st[1]}{c}")                      # a `with conn:` block ends (normally / by an exception)
        elif st == "wc":
            ev.append(f"Wc{c * ncur + flip[c]}")           # a `with cursor:` block ends
        elif st in ("wfc", "wft"):
            ev.append(f"Xw{c * ncur + flip[c]}:f{st[2]}")   # a failing statement inside `with cursor:`, the error leaves the block
        elif st == "dn":
            ev.append(f"Dn{c}")                            # a raising cursor.description
        else:
            ev.append(f"X{c * ncur + flip[c]}:{st}")
            flip[c] ^= 1  # alternate between the connection's cursors
        if policy == "dense":
            for d in (0, 1):
                ev.append(f"X{d * ncur + 1}:s{c}")
        elif policy == "others":
            ev.append(f"X{(1 - c) * ncur + 1}:s{c}")
    ev += _final(2, 2 * ncur)
    return {"init": [[(9, 9)], [(9, 9)], [(5, 5)]], "events": ev, "spell": spell}


def _random_script(rnd, c: int, n: int, envelope: bool) -> list[str]:
    """statements of connection c that keep to the envelope (no nested BEGIN, no run-time failure inside a tx)
    when `envelope`"""
    out, intx = [], False
    for _ in range(n):
        r = rnd.random()
        if not intx and r < 0.3:
            out.append("b"); intx = True
        elif intx and r < 0.22:
            out.append(rnd.choice(["c", "r"])); intx = False
        elif r < 0.30:
            out.append(rnd.choice(["c", "r"])) if not intx else out.append("s" + str(rnd.randrange(NT)))
        elif r < 0.55:
            out.append("s" + str(rnd.randrange(NT)))
        elif r < 0.75:
            out.append(f"i{c}.{rnd.randrange(4)}.{rnd.randrange(10)}")
        elif r < 0.82:
            out.append(f"d{c}.{rnd.choice([0, 1, 2, 3, 9])}")
        elif r < 0.89:
            out.append(f"u{c}.{rnd.choice([0, 1, 2, 3, 9])}.{rnd.randrange(10)}")
        elif r < 0.93:
            out.append(rnd.choice(["ft", "fc", f"fm{c}", f"mu{c}.9.{rnd.randrange(10)}", "wn", "we", "wfc", "dn", f"tr{c}", f"ac{c}", "av", f"pw{c}.{rnd.randrange(4)}.{rnd.randrange(10)}",
                                   f"em{c}.{rnd.randrange(4)}.{rnd.randrange(4)}.{rnd.randrange(10)}", f"ef{c}.{rnd.randrange(4)}.{rnd.randrange(10)}"]))
        elif r < 0.96:
            out.append("k")
        elif envelope:
            out.append("k" if intx else "fr")  # a run-time failure outside a transaction is inside the envelope
        else:
            pick = rnd.choice(["fr", "b"])
            out.append(pick)
            if pick == "b":
                intx = True
    return out


def _random_case(rnd, nconn: int, length: int, envelope: bool, spell: int) -> dict:
    ncur = 2
    ev = _prelude(nconn, ncur)
    scripts = [_random_script(rnd, c, length, envelope) for c in range(nconn)]
    idx = [0] * nconn
    live = [c for c in range(nconn) if scripts[c]]
    while live:
        c = rnd.choice(live)
        st = scripts[c][idx[c]]
        idx[c] += 1
        if idx[c] == len(scripts[c]):
            live.remove(c)
        if st in ("c", "r") and rnd.random() < 0.3:
            ev.append(("M" if st == "c" else "R") + str(c))
        elif st in ("wn", "we"):
            ev.append(f"W{st[1]}{c}")
        elif st in ("wfc", "wft"):
            ev.append(f"Xw{c * ncur + rnd.randrange(ncur)}:f{st[2]}")
        elif st == "dn":
            ev.append(f"Dn{c}")
        else:
            ev.append(f"X{c * ncur + rnd.randrange(ncur)}:{st}")
        if rnd.random() < 0.35:
            d = rnd.randrange(nconn)
            ev.append(f"X{d * ncur + rnd.randrange(ncur)}:s{rnd.randrange(NT)}")
    ev += _final(nconn, nconn * ncur)
    init = [[(9, rnd.randrange(10))] if rnd.random() < 0.7 else [] for _ in range(NT)]
    return {"init": init, "events": ev, "spell": spell}


SQL_ONLY = ("b", "c", "r", "s", "i", "d", "u", "k")


def _variant(case: dict, unnamed: bool, dbpath: bool, threads: bool = False, estr: bool = False) -> dict:
    """configurations: connections opened WITHOUT database/schema (only those that run no MERGE, which needs a current
    database for its temporary table), and an instance WITH db_path (fresh directory) instead of in memory"""
    ev = list(case["events"])
    if unnamed:
        conn_of, merges, ci = {}, set(), 0
        for e in ev:
            if e[0] == "K":
                conn_of[len(conn_of)] = int(e[1:])
            elif e[0] == "X" and e.split(":")[1][:2] in ("fm", "mu"):
                merges.add(conn_of[int(e[1:].split(":")[0])])
        for i, e in enumerate(ev):
            if e == "C":
                if ci not in merges and not (i > 0 and ev[i - 1][0] == "X"):   # not the final reader
                    ev[i] = "Cn"
                ci += 1
    if estr:
        # statements go through conn.execute_string, alternately with and without return_cursors; a BEGIN and the statement after
        # it of the same cursor's connection are sent as ONE execute_string text when they are adjacent
        flip = 0
        for i, e in enumerate(ev):
            if e[0] == "X" and e[1].isdigit() and e.split(":")[1][0] in SQL_ONLY and not e.split(":")[1].startswith("mu"):
                ev[i] = ("Ys" if flip % 2 == 0 else "Yn") + e[1:]
                flip += 1
        merged = []
        for e in ev:
            if (estr != "nomerge" and merged and e[0] == "Y" and merged[-1][0] == "Y" and merged[-1].endswith(":b")
                    and merged[-1][2:].split(":")[0] == e[2:].split(":")[0]):
                merged[-1] = e[:2] + merged[-1][2:] + "+" + e.split(":")[1]
            else:
                merged.append(e)
        ev = merged
    if threads:
        # the second cursor of every connection is created on a worker thread, conn.commit()/rollback() are called from one
        seen = set()
        for i, e in enumerate(ev):
            if e[0] == "K" and e[1] != "t":
                if e in seen:
                    ev[i] = "Kt" + e[1:]
                seen.add(e)
            elif e[0] in "MR" and e[1] != "t":
                ev[i] = e[0] + "t" + e[1:]
    out = dict(case, events=ev)
    if dbpath:
        out["dbpath"] = True
    return out


def _cases(chk) -> list[dict]:
    rnd = random.Random(chk.seed)
    quick = chk.tier == "quick"
    cases = []
    for f in sorted((common.CORPUS / "C13").glob("*.json")):
        c = json.loads(f.read_text())
        c["init"] = [[tuple(r) for r in t] for t in c["init"]]
        cases.append(c)
    # fixed witnesses first (one per theorem clause / finding)
    fixed = [
        (CORE_SCRIPTS[0], CORE_SCRIPTS[3]), (CORE_SCRIPTS[1], CORE_SCRIPTS[0]), (CORE_SCRIPTS[5], CORE_SCRIPTS[3]),
        (FINDING_SCRIPTS[0], CORE_SCRIPTS[10]), (FINDING_SCRIPTS[1], CORE_SCRIPTS[10]),
        (CORE_SCRIPTS[12], CORE_SCRIPTS[10]), (CORE_SCRIPTS[13], CORE_SCRIPTS[3]), (CORE_SCRIPTS[14], CORE_SCRIPTS[0]),
        (CORE_SCRIPTS[15], CORE_SCRIPTS[15]), (CORE_SCRIPTS[14], CORE_SCRIPTS[15]), (CORE_SCRIPTS[15], CORE_SCRIPTS[12]),
    ]
    for a, b in fixed:
        order = [0] * len(a) + [1] * len(b)
        rnd.shuffle(order)
        cases.append(dict(_pair_case(rnd, _inst(a, 0), _inst(b, 1), order, "dense", False, rnd.randrange(1 << 30)), gen="fixed"))
    # configurations: connections opened without database/schema; an instance with db_path
    for a, b, api in [(CORE_SCRIPTS[0], CORE_SCRIPTS[3], False), (CORE_SCRIPTS[1], CORE_SCRIPTS[6], False), (CORE_SCRIPTS[0], CORE_SCRIPTS[6], True),
                      (CORE_SCRIPTS[6], CORE_SCRIPTS[2], False)]:
        orders = list(_interleavings(len(a), len(b)))
        for order in rnd.sample(orders, 5):
            base = _pair_case(rnd, _inst(a, 0), _inst(b, 1), order, "dense", api, rnd.randrange(1 << 30))
            cases.append(dict(_variant(base, True, False), gen="fixed-unnamed"))
            cases.append(dict(_variant(base, False, True), gen="fixed-dbpath"))
            cases.append(dict(_variant(base, False, False, True), gen="fixed-threads"))
            cases.append(dict(_variant(base, False, False, False, True), gen="fixed-execute_string"))
    # executemany and with-block scripts against a reader, dense probes
    for si in range(16, 28):
        a, b = CORE_SCRIPTS[si], CORE_SCRIPTS[10]
        for order in rnd.sample(list(_interleavings(len(a), len(b))), 4):
            cases.append(dict(_pair_case(rnd, _inst(a, 0), _inst(b, 1), order, "dense", False, rnd.randrange(1 << 30)), gen="fixed-many-with"))
    # A. exhaustive statement-level interleavings of script pairs
    pairs = [(a, b) for a in range(len(CORE_SCRIPTS)) for b in range(len(CORE_SCRIPTS))]
    rnd.shuffle(pairs)
    npairs = 12 if quick else 48    # thorough: a seeded sample of the ordered pairs (all of them is 125 CPU-min)
    for pi, (ia, ib) in enumerate(pairs[:npairs]):
        a, b = _inst(CORE_SCRIPTS[ia], 0), _inst(CORE_SCRIPTS[ib], 1)
        policy = ("dense", "others", "sparse", "others")[pi % 4] if quick else None
        api = pi % 3 == 2
        for order in _interleavings(len(a), len(b)):
            for pol in ([policy] if policy else ["dense", "sparse"]):
                base = _pair_case(rnd, a, b, order, pol, api, rnd.randrange(1 << 30))
                cfg = pi % 5     # 0: plain · 1: connections without database · 2: db_path instance · 3: other threads · 4: execute_string
                cases.append(dict(_variant(base, cfg == 1, cfg == 2, cfg == 3, cfg == 4),
                                  gen="pairs" + ("", "-unnamed", "-dbpath", "-threads", "-execute_string")[cfg]))
    chk.extra["exhaustive_part"] = (f"{npairs} (seeded sample of {len(pairs)}) ordered pairs of the {len(CORE_SCRIPTS)} core scripts x ALL interleavings "
                                    f"(C(len a + len b, len a) each)")
    # B. finding scripts against a reader, all interleavings
    fpairs = [(f, r) for f in range(len(FINDING_SCRIPTS)) for r in (0, 3, 10)]
    if quick:
        fpairs = rnd.sample(fpairs, 3)
    for f, r in fpairs:
        a, b = _inst(FINDING_SCRIPTS[f], 0), _inst(CORE_SCRIPTS[r], 1)
        for order in _interleavings(len(a), len(b)):
            cases.append(dict(_pair_case(rnd, a, b, order, "dense", False, rnd.randrange(1 << 30)), gen="finding-pairs"))
    # C. random histories, 2-3 connections, in and out of the envelope
    nrand = 300 if quick else 2500
    for i in range(nrand):
        nconn = rnd.choice([2, 3, 3])
        base = _random_case(rnd, nconn, rnd.randint(3, 9), envelope=(i % 5 != 0), spell=rnd.randrange(1 << 30))
        # (random histories may leave the envelope: a multi-statement text would stop at its first failing statement, so no merging there)
        cases.append(dict(_variant(base, i % 6 == 1, i % 6 == 2, i % 6 == 3, "nomerge" if i % 6 == 4 else False),
                          gen="random" + {1: "-unnamed", 2: "-dbpath", 3: "-threads", 4: "-execute_string"}.get(i % 6, "")))
    return cases


# ------------------------------------------------------------------------------------------------
# verdict
# ------------------------------------------------------------------------------------------------

def _mstmt(e: str) -> str:
    """one SQL statement event in the model's alphabet"""
    cur, st = e.split(":")
    if st.startswith("tr"):
        return f"{cur}:z{st[2:]}"
    if st.startswith("ac"):
        return f"{cur}:m"
    if st == "av":
        return f"{cur}:k"
    return re.sub(r":mu", ":u", re.sub(r":fm\d*$", ":fm", e))


def _model_view(case):
    """events as the model sees them, and for every real event the index of the model event whose observation it is
    compared with (executemany = its rows executed one after the other on the same cursor, `cursor.py` executemany; the
    row that cannot be bound never reaches the engine) or a fixed expectation"""
    mev, rmap, expect = [], [], []
    for e in case["events"]:
        fixed = None
        if e[0] == "X" and e.split(":")[1][:2] in ("em", "ef"):
            cur, st = e.split(":")
            nums = st[2:].split(".")
            ks = [nums[1], nums[2]] if st[1] == "m" else [nums[1]]
            for kk in ks:
                mev.append(f"{cur}:i{nums[0]}.{kk}.{nums[-1]}")
            if st[1] == "f":
                fixed = "B"
        elif e[0] in "MR" and e[1] == "t":
            mev.append(e[0] + e[2:])
        elif e[0] == "Y":
            cur, sts = e[2:].split(":")
            for st in sts.split("+"):
                mev.append(_mstmt(f"X{cur}:{st}"))
            if e[1] == "n":
                fixed = "-"           # return_cursors=False: nothing to observe, but every statement must have run
        elif e[0] == "D":
            # a description that raises is a failing Catalog statement on that connection (DESCRIBE of nothing: 2003): like any
            # statement that binds against the database it pins a lazy snapshot, and it leaves the transaction usable
            first = [i for i, x in enumerate([y for y in case["events"] if y[0] == "K"]) if int(x.lstrip("Kt")) == int(e[2:])]
            opened = [y for y in case["events"] if y[0] == "C"]
            unnamed = int(e[2:]) < len(opened) and opened[int(e[2:])] == "Cn"
            mev.append(f"X{first[0]}:ft" if first and not unnamed else "Wn" + e[2:])
        elif e[0] == "X" and e[1] == "w":
            mev.append("X" + e[2:])                                    # same statement, its error merely leaves a with-block
        elif e[0] == "X" and e.split(":")[1][:2] == "pw":
            mev.append(e.split(":")[0] + ":i" + e.split(":")[1][2:])    # write_pandas of one row = that INSERT
        elif e[0] == "X" and e.split(":")[1][:2] == "tr":
            mev.append(e.split(":")[0] + ":z" + e.split(":")[1][2:])
            fixed = "S"                                                # TRUNCATE answers the status row
        elif e[0] == "X" and e.split(":")[1][:2] == "ac":
            mev.append(e.split(":")[0] + ":m")
        elif e[0] == "X" and e.split(":")[1] == "av":
            mev.append(e.split(":")[0] + ":k")
            fixed = "S"
        else:
            mev.append(re.sub(r":mu", ":u", re.sub(r":fm\d*$", ":fm", e)))
        rmap.append(len(mev) - 1)
        expect.append(fixed)
    return mev, rmap, expect


def _line(case, shared=False) -> str:
    init = "|".join(",".join(f"{a}.{b}" for a, b in t) for t in case["init"])
    return "\t".join(["tx", "run", "1" if shared else "0", init, ";".join(_model_view(case)[0])])


def _norm_model(ev: str, o: str) -> str:
    """bring a model observation to the harness alphabet"""
    if ev[0] in "MR":
        return "ok" if o in ("e", "S") else o
    if o.startswith("r"):
        rows = sorted(tuple(int(x) for x in p.split(".")) for p in o[1:].split(",") if p)
        return "r" + ",".join(f"{a}.{b}" for a, b in rows)
    return o


def _describe(case, i) -> str:
    cfg = " on an instance WITH db_path" if case.get("dbpath") else ""
    return f"event #{i} `{case['events'][i]}` of {case['events']} (init {case['init']}){cfg}"


def _check(chk, case, real, reply) -> None:
    evs = case["events"]
    if "impl" not in reply:
        raise common.Infra(f"driver: {reply}")
    mev, rmap, expect = _model_view(case)
    mi, ms = dec_list(reply["impl"]), dec_list(reply["spec"])
    if len(mi) != len(mev) or len(ms) != len(mev):
        raise common.Infra(f"driver answered {len(mi)} observations for {len(mev)} model events")
    def view(obs, i):
        o = _norm_model(mev[rmap[i]], obs[rmap[i]])
        # executemany whose second row cannot be bound: the bind error is what the caller sees – unless the first row already failed
        if expect[i] == "-":
            return o if o[:1] in "EXAN?" else "-"      # an error raised by execute_string is still observed
        return expect[i] if (expect[i] and (o.startswith("n") or o == "1")) else o
    impl = [view(mi, i) for i in range(len(evs))]
    spec = [view(ms, i) for i in range(len(evs))]
    key = reply.get("finding", "-")
    env = reply.get("env") == "1"
    stmts = [e for e in evs if e[0] in "XMR"]
    kinds = {e.split(":")[1][0] for e in stmts if e[0] == "X"}
    intx = any(e.endswith(":b") for e in stmts)
    chk.case((tuple(evs), tuple(map(tuple, case["init"]))), nontrivial=intx and len(stmts) >= 6,
             sample={"events": evs, "init": case["init"]} if chk.evaluations % 400 == 7 else None)
    chk.count("gen:" + case.get("gen", "?"))
    chk.count("env:" + ("in" if env else "out"))
    for e in stmts:
        chk.count("stmt:" + (e[0] if e[0] != "X" else e.split(":")[1][:1] + ("" if e.split(":")[1][0] != "f" else e.split(":")[1][1])))
    chk.count("events", len(stmts))
    if len(real) != len(evs) or len(spec) != len(evs):
        raise common.Infra(f"length mismatch real={len(real)} spec={len(spec)} events={len(evs)}")
    # BEGIN and COMMIT/ROLLBACK *inside* a transaction: the property pins no result rows (only COMMIT/ROLLBACK without a
    # transaction must give the status row).  Accept exactly [] or the status row there (model symbol `e`).
    real = [("e" if (r == "S" and "e" in (spec[i], impl[i]) and evs[i][0] in "XY" and evs[i].split(":")[1].split("+")[-1] in ("b", "c", "r")) else r)
            for i, r in enumerate(real)]
    diff_spec = [i for i in range(len(evs)) if spec[i] != "I" and real[i] != spec[i]]
    if not diff_spec:
        if env and impl != spec:
            chk.violation(f"model inconsistency (C13_partial says impl = spec inside the envelope): {impl} vs {spec}",
                          case, broken="C13_partial", failing_input=False)
        if not env and key != "-" and impl != spec and any(spec[i] != "I" and impl[i] != spec[i] for i in range(len(evs))):
            chk.notes.append(f"finding {key} no longer reproduces on {evs}")
        return
    i = diff_spec[0]
    if key != "-" and real == impl:
        chk.finding(key, f"{_describe(case, i)}: got {real[i]!r}, the property requires {spec[i]!r} "
                         f"(transaction aborted by the failing statement at event #{reply.get('fstep')}; all effects: real={real})", case)
        return
    what = (f"{_describe(case, i)} returned {real[i]!r} but atomic/isolated transactions require {spec[i]!r}"
            f" (code model predicts {impl[i]!r}); real={real} required={spec}")
    chk.violation(what, case, broken="C13_rollback_no_trace/C13_commit_atomic_partial/C13_own_writes/C13_sticky "
                                     "(correspondence with Fs.Tx.World.run)")


def run(chk) -> None:
    cases = _cases(chk)
    chk.rule = ("event lists on a fresh instance: all statement-level interleavings of pairs of 3-4 statement scripts (BEGIN, INSERT/UPDATE/"
                "DELETE on the own table, SELECT of own/other table, SELECT 1, missing table/column, COMMIT/ROLLBACK as SQL and via "
                "conn.commit()/rollback(), COMMIT/ROLLBACK without tx) on two connections x two cursors each, with dense/others/sparse read "
                "probes after each step; scripts with a run-time failure or nested BEGIN inside a tx (known findings); random histories on "
                "2-3 connections; every case ends with a fresh connection reading all tables.  non-trivial = distinct case with a BEGIN "
                "and >= 6 statements")
    shards = common.chunks(cases, 16)
    reals = common.shard_map(_worker, shards)
    replies = [common.batch([_line(c) for c in s]) for s in shards]
    for shard, rs, ms in zip(shards, reals, replies):
        for case, real, reply in zip(shard, rs, ms):
            _check(chk, case, real, reply)
    chk.exhaustive = True
    chk.assumptions = ["write sets are disjoint: fake connection i writes only table t<i> (C13's quantifier: non-conflicting writes)",
                       "every statement of a case runs single-threaded in the listed order (statement-level interleaving)",
                       "rows are compared as multisets"]
    chk.trusted += ["DuckDB 1.0 MVCC as modelled by Fs.Tx.loc: lazy snapshot pinned by the first statement binding against the database "
                    "(also a failing Catalog/Binder one), snapshot + own writes, commit applies the write list, run-time error / nested "
                    "BEGIN aborts the transaction, Catalog/Binder errors do not"]


def replay(chk, case) -> None:
    case = dict(case)
    case["init"] = [[tuple(r) for r in t] for t in case["init"]]
    real = _real_case(case)
    reply = common.batch([_line(case)])[0]
    _check(chk, case, real, reply)
