"""C08 — bound parameters arrive as data, whatever they contain.

Correspondence (see design/C08.md):
 (A) engine models vs the engines themselves: connector `escape`, sqlglot's Snowflake tokenizer, CPython `%`,
     sqlglot's DuckDB string generator + DuckDB's lexer  — against Fs.Params / Fs.Lex through the driver;
 (B) end to end through fakesnow's public API: every case is executed with bound parameters (real), and the
     text the model says the code parses (impl) and the text with correctly written literals (spec) are
     executed without parameters on twin databases; the value read back is also compared with the value
     that was bound (an oracle that needs no model);
 (C) paramstyle snapshot histories.
"""
from __future__ import annotations

import datetime as dt
import decimal
import math
import random
import re

from lib import common
from lib.common import dec_str, enc_list, enc_str

# ------------------------------------------------------------------------------------------------
# generators
# ------------------------------------------------------------------------------------------------
ATOMS = ["'", "\\", "\n", "\r", "\t", "%", "%s", "%(x)s", "%%", "%d", "$", "$v1", "$V1", "$nope", "$1", "?", ";", "--", "/*", "*/",
         "//", "$$", '"', "\\'", "''", "'''", "\\\\", "\\n", "\\r", "\\t", "\\a", "\\b", "\\", " ", "a", "b", "Z", "é", "ß", "😀", "\x01",
         "\x07", "\x08", "\x0b", "\x0c", "\x1f", "\x7f", " ", "\xa0", "x", "0", " or 1=1 ", "NULL", "\\x", "\\u0041", "\\0", ")",
         "(", ",", "select", "{", "}", "{{", "#", "`", ":", "@", "퟿", "\U0010ffff", "n'", "x'", "e'"]


def gen_str(rnd: random.Random, nul: bool = False) -> str:
    k = rnd.random()
    if k < 0.05:
        return ""
    if k < 0.75:
        s = "".join(rnd.choice(ATOMS) for _ in range(rnd.randint(1, 6)))
    else:
        s = "".join(_rand_char(rnd) for _ in range(rnd.randint(1, 12)))
    if nul:
        i = rnd.randint(0, len(s))
        s = s[:i] + "\x00" + s[i:]
    return s


def _rand_char(rnd: random.Random) -> str:
    while True:
        r = rnd.random()
        cp = rnd.randint(1, 0x7F) if r < 0.5 else rnd.randint(0x80, 0xFFFF) if r < 0.9 else rnd.randint(0x10000, 0x10FFFF)
        if not 0xD800 <= cp <= 0xDFFF:
            return chr(cp)


def has_dollar_word(s: str) -> bool:
    """the variable phase (C15) touches `$word` in ANY text it is given, also inside a literal"""
    return re.search(r"\$\w", s) is not None


class V:
    """a bound value: python object, class name, wire form for the model, the column it fits"""

    def __init__(self, py, cls, wire, col):
        self.py, self.cls, self.wire, self.col = py, cls, wire, col

    def __repr__(self):
        return f"{self.cls}:{self.py!r}"


def v_str(s):
    return V(s, "str", "S:" + enc_str(s), "s")


def gen_value(rnd: random.Random, cls: str | None = None) -> V:
    cls = cls or rnd.choice(["str"] * 8 + ["int", "int", "float", "float", "Decimal", "bool", "None", "date", "datetime", "datetime_tz", "time"])
    if cls == "str":
        return v_str(gen_str(rnd))
    if cls == "int":
        i = rnd.choice([0, 1, -1, 7, -5, 2**31, -2**31, 2**63 - 1, -2**63, rnd.randint(-10**6, 10**6), rnd.randint(-2**63, 2**63 - 1)])
        return V(i, "int", "N:" + enc_str(repr(i)), "n")
    if cls == "float":
        f = rnd.choice([0.0, -0.0, 1.5, -2.25, 1e300, -1e-7, 3.141592653589793, 1e22, 123456789.12345678, rnd.uniform(-1e6, 1e6), rnd.random() * 10 ** rnd.randint(-20, 20)])
        return V(f, "float", "N:" + enc_str(repr(f)), "f")
    if cls == "Decimal":
        d = rnd.choice([decimal.Decimal("1.50"), decimal.Decimal("-0.001"), decimal.Decimal("12345678901234567890.123456789"), decimal.Decimal("0"),
                        decimal.Decimal(rnd.randint(-10**12, 10**12)) / (10 ** rnd.randint(0, 9))])
        return V(d, "Decimal", "S:" + enc_str(str(d)), "dc")
    if cls == "bool":
        b = rnd.random() < 0.5
        return V(b, "bool", "b1" if b else "b0", "b")
    if cls == "None":
        return V(None, "None", "n", rnd.choice(["s", "n", "f", "b", "d"]))
    if cls == "date":
        d = dt.date(rnd.randint(1, 9999), rnd.randint(1, 12), rnd.randint(1, 28))
        return V(d, "date", "S:" + enc_str(f"{d.year:d}-{d.month:02d}-{d.day:02d}"), "d")
    if cls == "datetime":
        d = dt.datetime(rnd.randint(1700, 2200), rnd.randint(1, 12), rnd.randint(1, 28), rnd.randint(0, 23), rnd.randint(0, 59), rnd.randint(0, 59),
                        rnd.choice([0, 0, 1, 999999, rnd.randint(0, 999999)]))
        return V(d, "datetime", _dt_wire(d), "ts")
    if cls == "datetime_tz":
        off = rnd.choice([300, -480, 0, 330, -210, 60, 840, -720])
        d = dt.datetime(rnd.randint(1900, 2200), rnd.randint(1, 12), rnd.randint(1, 28), rnd.randint(0, 23), rnd.randint(0, 59), rnd.randint(0, 59),
                        rnd.choice([0, 0, 1, 999999, rnd.randint(0, 999999)]), tzinfo=dt.timezone(dt.timedelta(minutes=off)))
        return V(d, "datetime_tz", _dt_wire(d), "s")       # read back as TEXT: the wall-clock fields and the offset are data
    if cls == "time":
        t = dt.time(rnd.randint(0, 23), rnd.randint(0, 59), rnd.randint(0, 59), rnd.choice([0, 0, 5, rnd.randint(0, 999999)]))
        return V(t, "time", "S:" + enc_str(t.strftime("%H:%M:%S") + (f".{t.microsecond:06d}" if t.microsecond else "")), "tm")
    raise AssertionError(cls)


def _dt_wire(d: dt.datetime) -> str:
    """a datetime by its fields: the model (Fs.Params.dtText) renders the text"""
    off = "-" if d.tzinfo is None else str(int(d.utcoffset().total_seconds() // 60))
    return f"D:{d.year},{d.month},{d.day},{d.hour},{d.minute},{d.second},{d.microsecond},{off}"


def _tz_text(d: dt.datetime) -> str:
    """independent rendering of an aware datetime (the harness's own oracle)"""
    m = int(d.utcoffset().total_seconds() // 60)
    return _dt_text(d) + ("+" if m >= 0 else "-") + f"{abs(m) // 60:02d}:{abs(m) % 60:02d}"


def _dt_text(d: dt.datetime) -> str:
    return f"{d.year:d}-{d.month:02d}-{d.day:02d} {d.hour:02d}:{d.minute:02d}:{d.second:02d}" + (f".{d.microsecond:06d}" if d.microsecond else "")


def v_list(items: list[V]) -> V:
    return V([i.py for i in items], "list", "L:" + "|".join(i.wire for i in items), None)


# templates are lists of pieces: ("lit", text) | ("pct",) | ("ph",) | ("key", name)
def render(pieces, style: str) -> str:
    out = []
    for p in pieces:
        if p[0] == "lit":
            out.append(p[1])
        elif p[0] == "pct":
            out.append("%%" if style != "qmark" else "%")
        elif p[0] == "ph":
            out.append("%s" if style != "qmark" else "?")
        else:
            out.append(f"%({p[1]})s")
    return "".join(out)


# no quote characters inside the comments of generated templates: DuckDB's unicode-space normalisation counts quotes in
# comments and then rewrites U+00A0 etc. inside the following literal (engine quirk, see design/C08.md "outside the envelope")
DECOR_PRE = ["", "", "/* c; */ ", "-- lead ;\n", "// x\n"]
DECOR_MID = [" ", "  ", " /* ; */ ", "\n", " -- $$\n "]
DECOR_POST = ["", "", " -- tail ;", " /* t */", " ;", "\n"]


def sel(cols: list, rnd: random.Random):
    """select <col>, <col> … with comment/whitespace decoration; cols are piece lists"""
    pieces = [("lit", rnd.choice(DECOR_PRE) + "select" + rnd.choice(DECOR_MID))]
    for i, c in enumerate(cols):
        if i:
            pieces.append(("lit", "," + rnd.choice(DECOR_MID)))
        pieces += c
    pieces.append(("lit", rnd.choice(DECOR_POST)))
    return pieces


_ID = [0]


def next_id() -> int:
    _ID[0] += 1
    return _ID[0]


def make_cases(chk) -> list[dict]:
    rnd = random.Random(chk.seed)
    n = 260 if chk.tier == "quick" else 4000
    cases = []

    def add(kind, style, steps, expect=None, skel=None, note=None):
        cases.append({"kind": kind, "style": style, "steps": steps, "expect": expect, "skel": skel, "note": note})

    def pstep(pieces, style, vals, mode="seq", keys=None, many=None, fetch=True):
        return {"cmd": render(pieces, style), "spec_cmd": render(pieces, "pyformat"), "mode": mode, "vals": vals, "keys": keys,
                "many": many, "fetch": fetch}

    def plain(sql, fetch=True):
        return {"cmd": sql, "spec_cmd": sql, "mode": "none", "vals": [], "keys": None, "many": None, "fetch": fetch}

    styles = ["pyformat", "pyformat", "format", "qmark"]
    # K1: one value, untyped select — every adversarial atom once, then random
    singles = [v_str(a) for a in ATOMS] + [v_str(a + b) for a in ["'", "\\", "%", "$v1", "\n"] for b in ["'", "\\", "s", "%", "--"]]
    singles += [gen_value(rnd) for _ in range(n)]
    for v in singles:
        for style in (styles if chk.tier != "quick" else [rnd.choice(["pyformat", "format"]), "qmark"]):
            add("select1", style, [pstep(sel([[("ph",)]], rnd), style, [v])], expect=[[untyped(v, style)]])
    # K2: two values around a literal that contains %, quote, comment markers
    for _ in range(n // 2):
        style = rnd.choice(styles)
        a, b = gen_value(rnd), gen_value(rnd)
        mid = [("lit", "'a"), ("pct",), ("lit", rnd.choice(["b'", "''b'", " -- x'", " /* '", "\\'b;'"]))]
        midval = {"b'": "a%b", "''b'": "a%'b", " -- x'": "a% -- x", " /* '": "a% /* ", "\\'b;'": "a%'b;"}[mid[2][1]]
        add("select3", style, [pstep(sel([[("ph",)], mid, [("ph",)]], rnd), style, [a, b])],
            expect=[[untyped(a, style), ("str", midval), untyped(b, style)]])
    # K3: typed insert + read back
    for _ in range(n):
        style = rnd.choice(styles)
        v = gen_value(rnd)
        if v.cls == "datetime_tz" and style == "qmark":
            style = "pyformat"      # through qmark the VARCHAR column receives DuckDB's own rendering of a TIMESTAMPTZ
        k = next_id()
        ins = [("lit", f"insert into t (id, {v.col}) values ({k}, "), ("ph",), ("lit", ")")]
        add("typed", style, [pstep(ins, style, [v], fetch=True), plain(f"select {v.col} from t where id = {k}")], expect=[[typed(v)]])
    # K4: list for IN (client-side styles only: qmark has no list expansion)
    for _ in range(n // 3):
        style = rnd.choice(["pyformat", "format"])
        items = [gen_value(rnd, "str") for _ in range(rnd.randint(1, 4))] if rnd.random() < 0.7 else [gen_value(rnd, "int") for _ in range(rnd.randint(1, 4))]
        probe = rnd.choice(items) if rnd.random() < 0.6 else gen_value(rnd, items[0].cls)
        pieces = [("lit", "select "), ("ph",), ("lit", " in ("), ("ph",), ("lit", ")")]
        add("in", style, [pstep(pieces, style, [probe, v_list(items)])], expect=[[("bool", any(probe.py == i.py for i in items))]])
    # K5: dict
    for _ in range(n // 3):
        a, b = gen_value(rnd), gen_value(rnd)
        ka, kb = rnd.choice(["a", "k1", "x y", "A", "%s", "é"]), rnd.choice(["b", "k2", "B", "b-1"])
        pieces = [("lit", "select "), ("key", ka), ("lit", ", "), ("key", kb), ("lit", ", '"), ("pct",), ("lit", "', "), ("key", ka)]
        dstyle = rnd.choice(["pyformat", "format"])       # `%(name)s` with a mapping is client-side binding under both styles
        add("dict", dstyle, [pstep(pieces, dstyle, [a, b], mode="map", keys=[ka, kb])],
            expect=[[untyped(a, dstyle), untyped(b, dstyle), ("str", "%"), untyped(a, dstyle)]])
    # K6: executemany
    for _ in range(n // 4):
        style = rnd.choice(styles)
        m = rnd.randint(1, 4)
        ids = [next_id() for _ in range(m)]
        sets = [[V(i, "int", "N:" + enc_str(repr(i)), "n"), gen_value(rnd, "str")] for i in ids]
        ins = [("lit", "insert into t (id, s) values ("), ("ph",), ("lit", ", "), ("ph",), ("lit", ")")]
        add("many", style, [pstep(ins, style, None, many=sets, fetch=False), plain(f"select id, s from t where id >= {ids[0]} and id <= {ids[-1]} order by id")],
            expect=[[("int", i), ("str", s[1].py)] for i, s in zip(ids, sets)])
    # K7: interaction with session variables: `$v1` in the command is inlined, `$v1` in a value is not
    for _ in range(n // 3):
        style = rnd.choice(styles)
        v = v_str(rnd.choice(["$v1", "$V1", "$v1$v1", "x$v1'", "$nope", "'$v1'", "$v10", "\\$v1", "%s$v1", "$$v1", "$"]) + rnd.choice(["", gen_str(rnd)]))
        pieces = [("lit", "select $v1, "), ("ph",), ("lit", ", $V1")]
        add("vars", style, [pstep(pieces, style, [v])], expect=[[("str", "hello"), ("str", v.py), ("str", "hello")]])
    # K7b: sequences of executes on ONE cursor binding ==-equal values of different types (True/1.0/Decimal('1'),
    # False/0.0/-0.0, 2.5/Decimal('2.5'), Decimal('1.1')/Decimal('1.10')): rendering a value must not depend on what the
    # cursor bound before.  Read back untyped and through VARCHAR columns, where the literal's type/text is visible.
    fams = [[True, 1.0, decimal.Decimal("1"), decimal.Decimal("1.0"), 1, decimal.Decimal("1.00")],
            [False, 0.0, -0.0, decimal.Decimal("0"), decimal.Decimal("0.0"), 0],
            [2.5, decimal.Decimal("2.5"), decimal.Decimal("2.50")],
            [decimal.Decimal("1.1"), decimal.Decimal("1.10"), decimal.Decimal("1.100")],
            [10.0, decimal.Decimal("10"), decimal.Decimal("1E+1"), 10]]

    def fam_v(x):
        if isinstance(x, bool):
            return V(x, "bool", "b1" if x else "b0", "b")
        if isinstance(x, decimal.Decimal):
            return V(x, "Decimal", "S:" + enc_str(str(x)), "dc")
        return V(x, type(x).__name__, "N:" + enc_str(repr(x)), "n")
    for _ in range(max(40, n // 3)):
        style = rnd.choice(["pyformat", "format"])
        fam = rnd.choice(fams)
        steps, last_expect = [], None
        for _ in range(rnd.randint(2, 5)):
            k = rnd.random()
            a, b = fam_v(rnd.choice(fam)), fam_v(rnd.choice(fam))
            if k < 0.35:
                steps.append(pstep([("lit", "select "), ("ph",)], style, [a]))
                last_expect = [[untyped(a, style)]]
            elif k < 0.55:
                steps.append(pstep([("lit", "select "), ("ph",), ("lit", ", "), ("ph",)], style, [a, b]))
                last_expect = [[untyped(a, style), untyped(b, style)]]
            elif k < 0.7 and style == "pyformat":
                steps.append(pstep([("lit", "select "), ("key", "w"), ("lit", ", "), ("key", "on")], style, [a, b], mode="map", keys=["w", "on"]))
                last_expect = [[untyped(a, style), untyped(b, style)]]
            elif k < 0.85:
                kid = next_id()
                steps.append(pstep([("lit", f"insert into t (id, s, s2) values ({kid}, "), ("ph",), ("lit", ", "), ("ph",), ("lit", ")")], style, [a, b]))
                steps.append(plain(f"select s, s2 from t where id = {kid}"))
                last_expect = None
            else:
                ids = [next_id() for _ in range(rnd.randint(2, 3))]
                sets = [[V(i, "int", "N:" + enc_str(repr(i)), "n"), fam_v(rnd.choice(fam)), fam_v(rnd.choice(fam))] for i in ids]
                ins = [("lit", "insert into t (id, s, s2) values ("), ("ph",), ("lit", ", "), ("ph",), ("lit", ", "), ("ph",), ("lit", ")")]
                steps.append(pstep(ins, style, None, many=sets, fetch=False))
                steps.append(plain(f"select id, s, s2 from t where id >= {ids[0]} and id <= {ids[-1]} order by id"))
                last_expect = None
        add("seq", style, steps, expect=last_expect)
    # K7a': dates, times, naive and aware datetimes used as TEXT (client-side styles): VARCHAR column, concatenation, left(), equality
    for _ in range(max(40, n // 3)):
        style = rnd.choice(["pyformat", "format"])
        v = gen_value(rnd, rnd.choice(["datetime_tz", "datetime_tz", "datetime", "date", "time"]))
        text = _tz_text(v.py) if v.cls == "datetime_tz" else canon(v.py)[1]
        kid = next_id()
        pieces = [("lit", "select "), ("ph",), ("lit", " || '|', left("), ("ph",), ("lit", ", 10), length("), ("ph",), ("lit", "), "), ("ph",), ("lit", f" = '{text}'")]
        steps = [pstep([("lit", f"insert into t (id, s, s2) values ({kid}, "), ("ph",), ("lit", ", 'x' || "), ("ph",), ("lit", ")")], style, [v, v]),
                 plain(f"select s, s2 from t where id = {kid}"),
                 pstep(pieces, style, [v, v, v, v])]
        add("astext", style, steps, expect=[[("str", text + "|"), ("str", text[:10]), ("int", len(text)), ("bool", True)]])
    # K6b: executemany × paramstyle × row container (tuple / list / dict rows) × every typed value class, incl. ints outside int64:
    # "executemany over a sequence of parameter sets" has the effect of executing each row with its literals
    for _ in range(max(60, n // 2)):
        style = rnd.choice(["pyformat", "format", "qmark", "qmark"])
        cls = rnd.choice(["bigint", "bigint", "int", "Decimal", "bool", "date", "datetime", "time", "str", "None"] + (["float"] if style == "qmark" else []))
        m = rnd.randint(1, 4)
        ids = [next_id() for _ in range(m)]
        vals = []
        for _ in ids:
            if cls == "bigint":
                i = rnd.choice([10**20 - 1, 10**20 + 1, 2**63, 2**64 + 1, -2**63 - 1, 10**38 - 1, -(10**37) - 3, rnd.randint(10**19, 10**37)])
                vals.append(V(i, "int", "N:" + enc_str(repr(i)), "n"))
            else:
                vals.append(gen_value(rnd, cls))
        col = vals[0].col if cls != "None" else "n"
        sets = [[V(i, "int", "N:" + enc_str(repr(i)), "n"), v] for i, v in zip(ids, vals)]
        as_ = rnd.choice(["tuple", "list", "dictrows"]) if style != "qmark" else rnd.choice(["tuple", "list"])
        if as_ == "dictrows":
            ins = [("lit", f"insert into t (id, {col}) values ("), ("key", "i"), ("lit", ", "), ("key", "v"), ("lit", ")")]
            st = pstep(ins, style, None, mode="map", keys=["i", "v"], many=sets, fetch=False)
        else:
            ins = [("lit", f"insert into t (id, {col}) values ("), ("ph",), ("lit", ", "), ("ph",), ("lit", ")")]
            st = pstep(ins, style, None, many=sets, fetch=False)
            st["as"] = as_
        add("manytyped", style, [st, plain(f"select id, {col} from t where id >= {ids[0]} and id <= {ids[-1]} order by id")],
            expect=[[("int", i), typed(v)] for i, v in zip(ids, vals)])
    # K6c: statements a nop pattern matches, WITH bound parameters (sequence and dict), on the nop-configured instance: the success row,
    # exactly as with the literals written out
    for _ in range(max(30, n // 6)):
        style = rnd.choice(["pyformat", "format", "qmark"])
        a, b = gen_value(rnd, rnd.choice(["str", "int", "None", "bool"])), gen_value(rnd, "str")
        head = rnd.choice(["call p(", "CALL  my.proc(", "grant usage on x to role r /* ", "alter session set query_tag = "])
        tail = {"call p(": ")", "CALL  my.proc(": ")", "grant usage on x to role r /* ": " */", "alter session set query_tag = ": ""}[head]
        if style != "qmark" and rnd.random() < 0.4:
            st = pstep([("lit", head), ("key", "a"), ("lit", ", "), ("key", "b"), ("lit", tail)], style, [a, b], mode="map", keys=["a", "b"])
        else:
            st = pstep([("lit", head), ("ph",), ("lit", ", "), ("ph",), ("lit", tail)], style, [a, b])
        add("nopbound", style, [st], expect=[[("str", "Statement executed successfully.")]])
        cases[-1]["nop"] = True
    # K7b': placeholders at different nesting depths: the i-th value belongs to the i-th placeholder IN TEXT ORDER (not in the
    # order a tree walk meets them), whatever the statement's shape
    def word():
        return v_str("".join(rnd.choice("abcdefgXYZ019_ ") for _ in range(rnd.randint(1, 6))) + rnd.choice(["", "'", "%", "?"]))
    for _ in range(max(40, n // 4)):
        style = rnd.choice(["qmark", "qmark", "pyformat", "format"])
        a, b, c, d, e = word(), word(), word(), word(), word()
        k = rnd.random()
        ph = ("ph",)
        if k < 0.25:
            pieces = [("lit", "select concat(concat("), ph, ("lit", ", '|'), '|'), "), ph, ("lit", ", (select concat('<', "), ph, ("lit", ")), "), ph]
            vals, exp = [a, b, c, d], [[("str", a.py + "||"), ("str", b.py), ("str", "<" + c.py), ("str", d.py)]]
        elif k < 0.5:
            pieces = [("lit", "select case when "), ph, ("lit", " = "), ph, ("lit", " then "), ph, ("lit", " else "), ph, ("lit", " end, "), ph]
            vals, exp = [a, a, c, d, e], [[("str", c.py), ("str", e.py)]]
        elif k < 0.75:
            pieces = [("lit", "select x.p, "), ph, ("lit", " from (select concat("), ph, ("lit", ", concat("), ph, ("lit", ", "), ph, ("lit", ")) as p) x where x.p <> "), ph]
            vals, exp = [a, b, c, d, e], [[("str", b.py + c.py + d.py), ("str", a.py)]]
            if b.py + c.py + d.py == e.py:
                continue
        else:
            kid = next_id()
            pieces = [("lit", f"insert into t (id, s, s2) select {kid}, concat(concat("), ph, ("lit", ", "), ph, ("lit", "), ''), "), ph]
            steps = [pstep(pieces, style, [a, b, c]), plain(f"select s, s2 from t where id = {kid}")]
            add("nest", style, steps, expect=[[("str", a.py + b.py), ("str", c.py)]])
            continue
        add("nest", style, [pstep(pieces, style, vals)], expect=exp)
    # K7c: the SAME container object (dict / tuple / list / list of rows) bound in 2-3 successive executes: every execute must bind
    # the values the caller put in, and the container must still be what the caller passed
    for _ in range(max(40, n // 4)):
        as_ = rnd.choice(["dict", "dict", "tuple", "list", "rows"])
        style = "pyformat" if as_ == "dict" else rnd.choice(styles)
        a, b = gen_value(rnd, rnd.choice(["str", "str", "None", "int", "bool", "float"])), gen_value(rnd, "str")
        steps = []
        reps = rnd.randint(2, 3)
        if as_ == "dict":
            pieces = [("lit", "select "), ("key", "a"), ("lit", ", "), ("key", "b")]
            for _ in range(reps):
                st = pstep(pieces, style, [a, b], mode="map", keys=["a", "b"])
                st["share"] = "c"
                steps.append(st)
            exp = [[untyped(a, style), untyped(b, style)]]
        elif as_ == "rows":
            ids = [next_id() for _ in range(2)]
            sets = [[V(i, "int", "N:" + enc_str(repr(i)), "n"), gen_value(rnd, "str")] for i in ids]
            ins = [("lit", "insert into t (id, s) values ("), ("ph",), ("lit", ", "), ("ph",), ("lit", ")")]
            for r in range(reps):
                st = pstep(ins, style, None, many=sets, fetch=False)
                st["share"], st["as"] = "c", rnd.choice(["tuple", "list"]) if r == 0 else steps[0]["as"]
                steps.append(st)
                steps.append(plain(f"select id, s from t where id >= {ids[0]} and id <= {ids[-1]} order by id, s"))
                steps.append(plain(f"delete from t where id >= {ids[0]} and id <= {ids[-1]}", fetch=False))
            steps.pop()
            exp = [[("int", i), ("str", st_[1].py)] for i, st_ in zip(ids, sets)]
        else:
            pieces = [("lit", "select "), ("ph",), ("lit", ", "), ("ph",)]
            for _ in range(reps):
                st = pstep(pieces, style, [a, b])
                st["share"], st["as"] = "c", as_
                steps.append(st)
            exp = [[untyped(a, style), untyped(b, style)]]
        add("reuse", style, steps, expect=exp)
    # K7d: MERGE carries bound values into several generated statements (ON condition, UPDATE SET, INSERT VALUES)
    for _ in range(max(30, n // 5)):
        style = rnd.choice(["pyformat", "format", "pyformat", "qmark"])
        p0, p1, p2 = v_str("no-such-" + gen_str(rnd).replace("\x00", "")), gen_value(rnd, "str"), gen_value(rnd, "str")
        if style == "qmark":
            p1, p2 = v_str("q1"), v_str("q2")
        merge = [("lit", "merge into tgt using src on tgt.id = src.id and src.v <> "), ("ph",), ("lit", " when matched then update set v = "), ("ph",),
                 ("lit", " when not matched then insert (id, v) values (src.id, "), ("ph",), ("lit", ")")]
        steps = [plain("create or replace table tgt (id int, v varchar)", fetch=False), plain("insert into tgt values (1, 'one'), (2, 'two')", fetch=False),
                 plain("create or replace table src (id int, v varchar)", fetch=False), plain("insert into src values (2, 's2'), (3, 's3')", fetch=False),
                 pstep(merge, style, [p0, p1, p2]), plain("select id, v from tgt order by id")]
        add("merge", style, steps, expect=[[("int", 1), ("str", "one")], [("int", 2), ("str", p1.py)], [("int", 3), ("str", p2.py)]])
        if style == "qmark":
            # placeholders per generated statement for this template (candidates: ON; update: SET + ON; insert: VALUES; counts: none)
            cases[-1]["explode"] = ("1;2;1;0", 3)
    # K7e: the same kinds on an instance with un-anchored nop_regexes, with bound values that CONTAIN text the patterns match
    words = ["create stage", "CREATE   STAGE s", "call foo()", " call x", "grant all", "alter session set x = 1", "x create stage y"]
    for _ in range(max(40, n // 4)):
        style = rnd.choice(styles)
        v = v_str(rnd.choice(["", gen_str(rnd)]) + rnd.choice(words) + rnd.choice(["", gen_str(rnd)]))
        k = rnd.random()
        if k < 0.35:
            add("select1", style, [pstep(sel([[("ph",)]], rnd), style, [v])], expect=[[untyped(v, style)]])
        elif k < 0.7:
            kid = next_id()
            ins = [("lit", f"insert into t (id, s) values ({kid}, "), ("ph",), ("lit", ")")]
            add("typed", style, [pstep(ins, style, [v]), plain(f"select s from t where id = {kid}")], expect=[[typed(v)]])
        else:
            ids = [next_id() for _ in range(3)]
            sets = [[V(i, "int", "N:" + enc_str(repr(i)), "n"), v if j == 1 else gen_value(rnd, "str")] for j, i in enumerate(ids)]
            ins = [("lit", "insert into t (id, s) values ("), ("ph",), ("lit", ", "), ("ph",), ("lit", ")")]
            add("many", style, [pstep(ins, style, None, many=sets, fetch=False), plain(f"select id, s from t where id >= {ids[0]} and id <= {ids[-1]} order by id")],
                expect=[[("int", i), ("str", s_[1].py)] for i, s_ in zip(ids, sets)])
        cases[-1]["nop"] = True
    # K8: wrong argument counts and `%` misuse (model: err) — must fail before anything is executed
    for _ in range(20 if chk.tier == "quick" else 200):
        k = next_id()
        which = rnd.choice(["few", "many", "keyseq", "missingkey", "trailing"])
        v = gen_value(rnd, "str")
        if which == "few":
            st = pstep([("lit", f"insert into t (id, s) values ({k}, "), ("ph",), ("lit", " || "), ("ph",), ("lit", ")")], "pyformat", [v])
        elif which == "many":
            st = pstep([("lit", f"insert into t (id, s) values ({k}, "), ("ph",), ("lit", ")")], "pyformat", [v, v])
        elif which == "keyseq":
            st = pstep([("lit", f"insert into t (id, s) values ({k}, "), ("key", "a"), ("lit", ")")], "pyformat", [v])
        elif which == "missingkey":
            st = pstep([("lit", f"insert into t (id, s) values ({k}, "), ("key", "a"), ("lit", ")")], "pyformat", [v], mode="map", keys=["b"])
        else:
            st = pstep([("lit", f"insert into t (id, s) values ({k}, "), ("ph",), ("lit", ") -- 100%")], "pyformat", [v])
        add("fmterr", "pyformat", [st, plain(f"select count(*) from t where id = {k}")], expect=[[("int", 0)]], note=which)
    # K9: no params / empty params: the command is not formatted
    for p in (None, (), [], {}):
        add("noparams", "pyformat", [{"cmd": "select 'a%%b', '%s'", "spec_cmd": "", "mode": "raw", "vals": [], "keys": None, "many": None, "fetch": True, "raw": p}],
            expect=[[("str", "a%%b"), ("str", "%s")]])
    # K10: non-finite floats, NUL, duplicated qmark operand (findings); ints beyond int64 through qmark (repaired, must hold)
    for f in (float("inf"), float("-inf"), float("nan")):
        v = V(f, "float", "X:" + enc_str(repr(f)), "f")
        add("select1", "pyformat", [pstep(sel([[("ph",)]], rnd), "pyformat", [v])], expect=[[untyped(v, "pyformat")]])
        add("select1", "qmark", [pstep(sel([[("ph",)]], rnd), "qmark", [v])], expect=[[untyped(v, "qmark")]])
    for _ in range(6):
        v = v_str(gen_str(rnd, nul=True))
        add("select1", "pyformat", [pstep(sel([[("ph",)]], rnd), "pyformat", [v])], expect=[[untyped(v, "pyformat")]])
        add("select1", "qmark", [pstep(sel([[("ph",)]], rnd), "qmark", [v])], expect=[[untyped(v, "qmark")]])
    for i in (2**63, 2**64 - 1, 2**64, 10**20 + 1, 10**20 - 1, 2**70, 10**37 + 7, 10**38 - 1, -(10**38) + 1, -2**63 - 1, -10**30 - 1):
        v = V(i, "int", "N:" + enc_str(repr(i)), "n")
        k = next_id()
        ins = [("lit", f"insert into t (id, n) values ({k}, "), ("ph",), ("lit", ")")]
        add("typed", "qmark", [pstep(ins, "qmark", [v], fetch=True), plain(f"select n from t where id = {k}")], expect=[[typed(v)]])
    for skel, sql, vals, exp in [("dp", "select array_size(parse_json(?))", ["[1,2,3]"], [[("int", 3)]]),
                                 ("adpp", "select array_size(parse_json(?)), ?", ["[1]", "x"], [[("int", 1), ("str", "x")]]),
                                 ("apdc", "select ?, array_size(parse_json('[1,2]'))", ["x"], [[("str", "x"), ("int", 2)]]),
                                 ("app", "select ?, ?", ["x", "y'"], [[("str", "x"), ("str", "y'")]]),
                                 ("app", "select ?, ?", ["x"], None), ("p", "select ?", ["x", "y"], None)]:
        vs = [v_str(s) for s in vals]
        add("qskel", "qmark", [{"cmd": sql, "spec_cmd": sql.replace("?", "%s"), "mode": "seq", "vals": vs, "keys": None, "many": None, "fetch": True}],
            expect=exp, skel=skel)
    return cases


def untyped(v: V, style: str):
    """canonical cell expected from `select <placeholder>`: Decimal / date / time values bound client-side are
    quoted texts (the connector's convention), bound through qmark they are native values"""
    if v.cls in ("Decimal",) and style != "qmark":
        return ("str", str(v.py))
    if v.cls == "datetime_tz" and style != "qmark":
        return ("str", _tz_text(v.py))
    return canon(v.py)


def typed(v: V):
    if v.cls == "datetime_tz":
        return ("str", _tz_text(v.py))       # stored in the VARCHAR column
    return canon(v.py)


def canon(x):
    if x is None:
        return ("null",)
    if isinstance(x, bool):
        return ("bool", x)
    if isinstance(x, int):
        return ("int", x)
    if isinstance(x, float):
        if math.isnan(x):
            return ("nan",)
        if math.isinf(x):
            return ("inf", x > 0)
        return ("int", int(x)) if x == int(x) else ("flt", x)
    if isinstance(x, decimal.Decimal):
        if not x.is_finite():
            return ("dec", str(x))
        return ("int", int(x)) if x == x.to_integral_value() else ("flt", float(x))
    if isinstance(x, str):
        return ("str", x)
    if isinstance(x, dt.datetime):
        if x.tzinfo is not None:
            return ("instant", x.astimezone(dt.timezone.utc).replace(tzinfo=None).isoformat())
        return ("str", _dt_text(x))
    if isinstance(x, dt.date):
        return ("str", f"{x.year:d}-{x.month:02d}-{x.day:02d}")
    if isinstance(x, dt.time):
        return ("str", x.strftime("%H:%M:%S") + (f".{x.microsecond:06d}" if x.microsecond else ""))
    return ("other", type(x).__name__, repr(x))


# ------------------------------------------------------------------------------------------------
# real execution (workers)
# ------------------------------------------------------------------------------------------------
DDL = "create table t (id int, s varchar, s2 varchar, n number(38,0), f float, b boolean, d date, ts timestamp_ntz, tm time, dc number(38,9))"


def _outcome(fn):
    import snowflake.connector.errors as se
    try:
        return fn()
    except se.Error as e:
        return ("err", type(e).__name__, e.errno, e.sqlstate)
    except Exception as e:  # raw engine / python errors: class only
        return ("err", type(e).__name__, None, None)


def _container(st):
    """the parameter container the caller passes: dict / tuple / list (`as`), list of tuples or lists for executemany"""
    if st["many"] is not None:
        if st["mode"] == "map":
            return [{k: v.py for k, v in zip(st["keys"], s)} for s in st["many"]]
        return [(list if st.get("as") == "list" else tuple)(v.py for v in s) for s in st["many"]]
    if st["mode"] == "map":
        return {k: v.py for k, v in zip(st["keys"], st["vals"])} if len(st["keys"]) == len(st["vals"]) else {st["keys"][0]: st["vals"][0].py}
    return (list if st.get("as") == "list" else tuple)(v.py for v in st["vals"])


def _run_steps(conn, steps, which, one_cursor=False, mutated=None):
    """which = real | spec | impl;  one_cursor: every step of the case on the SAME cursor (kind `seq`);
    steps with the same `share` tag pass the SAME container object (kind `reuse`); `mutated` collects containers that
    are not what the caller passed any more after the call"""
    outs = []
    shared = conn.cursor() if one_cursor else None
    containers = {}
    for si, st in enumerate(steps):
        cur = shared or conn.cursor()

        def go(st=st, cur=cur, si=si):
            if which == "real":
                if st["mode"] == "raw":
                    cur.execute(st["cmd"], st["raw"])
                elif st["mode"] in ("map", "seq") or st["many"] is not None:
                    tag = st.get("share")
                    if tag is not None and tag in containers:
                        params, snap = containers[tag]
                    else:
                        params = _container(st)
                        snap = repr(params)
                        if tag is not None:
                            containers[tag] = (params, snap)
                    try:
                        if st["many"] is not None:
                            cur.executemany(st["cmd"], params)
                        else:
                            cur.execute(st["cmd"], params)
                    finally:
                        if mutated is not None and repr(params) != snap:
                            mutated.append({"step": si, "passed": snap, "after": repr(params)})
                            if tag is not None:
                                containers[tag] = (params, repr(params))
                else:
                    cur.execute(st["cmd"])
            else:
                for text in st[which]:
                    cur.execute(text)
            if not st["fetch"]:
                return ("done",)
            rows = cur.fetchall()
            return ("rows", [[canon(c) for c in r] for r in rows], cur.rowcount)
        o = _outcome(go)
        outs.append(o)
        if o[0] == "err":
            # later steps still run (they observe that nothing was executed)
            continue
    return outs


NOP_PATTERNS = [r"create\s+stage", "call ", "^grant ", r"alter\s+session"]   # matched with re.match: only at the start of the statement


def _worker(shard):
    import fakesnow
    import snowflake.connector as sc
    res = {}
    # cases flagged `nop` run on an instance with (un-anchored) nop_regexes: a bound value that merely contains text a pattern
    # would match must not turn the statement into the success no-op
    for nop in (False, True):
        group = [(i, c) for i, c in enumerate(shard) if bool(c.get("nop")) == nop]
        if not group:
            continue
        with fakesnow.patch(nop_regexes=NOP_PATTERNS if nop else None):
            conns = {}
            for style in ("pyformat", "format", "qmark"):
                sc.paramstyle = style
                conns[style] = sc.connect(database="dr", schema="s")
            sc.paramstyle = "pyformat"
            conns["spec"] = sc.connect(database="ds", schema="s")
            conns["impl"] = sc.connect(database="di", schema="s")
            for c in (conns["pyformat"], conns["spec"], conns["impl"]):
                c.cursor().execute(DDL)
            for c in conns.values():
                c.cursor().execute("set v1 = 'hello'")
            for i, case in group:
                if case["kind"] == "snap":
                    res[i] = _real_snap(case["ops"])
                    continue
                mutated = []
                r = {"real": _run_steps(conns[case["style"]], case["steps"], "real", one_cursor=case["kind"] == "seq", mutated=mutated), "mutated": mutated}
                if case.get("run_spec"):
                    r["spec"] = _run_steps(conns["spec"], case["steps"], "spec")
                if case.get("run_impl"):
                    r["impl"] = _run_steps(conns["impl"], case["steps"], "impl")
                res[i] = r
            sc.paramstyle = "pyformat"
    return [res[i] for i in range(len(shard))]


def _real_snap(ops):
    """ops: g<style> | c | x<i>; for x: which placeholder syntax is in force on connection i"""
    import snowflake.connector as sc
    conns, out = [], []
    try:
        for o in ops:
            if o[0] == "g":
                sc.paramstyle = o[1:]
                out.append("-")
            elif o == "c":
                conns.append(sc.connect(database="dr", schema="s"))
                out.append("-")
            else:
                i = int(o[1:])
                if i >= len(conns):
                    out.append("-")
                    continue
                a = _outcome(lambda: conns[i].cursor().execute("select %s", ("p'%s",)).fetchall())
                b = _outcome(lambda: conns[i].cursor().execute("select ?", ("q'?",)).fetchall())
                out.append("client" if a == [("p'%s",)] and b != [("q'?",)] else "qmark" if b == [("q'?",)] and a != [("p'%s",)] else f"neither" if a[0] == "err" and b[0] == "err" else f"odd:{a}:{b}")
    finally:
        sc.paramstyle = "pyformat"
    return out


# ------------------------------------------------------------------------------------------------
# model side
# ------------------------------------------------------------------------------------------------
def _args_wire(st, vals):
    if st["mode"] == "map":
        keys = st["keys"]
        if len(keys) != len(vals):
            keys, vals = keys[:1], vals[:1]
        return "map", enc_list([enc_str(k) + "=" + v.wire for k, v in zip(keys, vals)])
    return "seq", enc_list([v.wire for v in vals])


def _model_lines(cases):
    lines, index = [], []
    for ci, case in enumerate(cases):
        if case["kind"] == "snap":
            lines.append("params\tsnap\t" + enc_list(case["ops"]))
            index.append((ci, None, None))
            continue
        for si, st in enumerate(case["steps"]):
            if st["mode"] in ("none", "raw"):
                continue
            sets = st["many"] if st["many"] is not None else [st["vals"]]
            for vi, vals in enumerate(sets):
                mode, body = _args_wire(st, vals)
                lines.append("\t".join(["params", "exec", case["style"], enc_str(st["cmd"]), enc_str(st["spec_cmd"]), mode, body]))
                index.append((ci, si, vi))
        if case.get("skel"):
            lines.append(f"params\tqmark\t{case['skel']}\t{len(case['steps'][0]['vals'])}")
            index.append((ci, "skel", None))
        if case.get("explode"):
            lines.append(f"params\texplode\t{case['explode'][0]}\t{case['explode'][1]}")
            index.append((ci, "skel", None))
    return lines, index


def _fmt_dec(s):
    return ("ok", dec_str(s[3:])) if s.startswith("ok:") else (s, None)


def _attach_model(cases, replies, index):
    for (ci, si, vi), rep in zip(index, replies):
        case = cases[ci]
        if case["kind"] == "snap":
            case["model"] = common.dec_list(rep["styles"])
            continue
        if si == "skel":
            case["skel_reply"] = rep
            continue
        st = case["steps"][si]
        st.setdefault("replies", []).append(rep)
    for case in cases:
        if case["kind"] == "snap":
            continue
        findings = set()
        run_spec = run_impl = True
        for st in case["steps"]:
            if st["mode"] in ("none", "raw"):
                st["spec"] = st["impl"] = [st["cmd"]]
                continue
            st["spec"], st["impl"] = [], []
            for rep in st["replies"]:
                findings.add(rep["finding"])
                i, s = _fmt_dec(rep["impl"]), _fmt_dec(rep["spec"])
                st["bind"] = rep["bind"] == "1"
                st["impl_kind"], st["spec_kind"] = i[0], s[0]
                if i[0] == "ok" and not st["bind"]:
                    st["impl"].append(i[1])
                else:
                    run_impl = False
                if s[0] == "ok":
                    st["spec"].append(s[1])
                else:
                    run_spec = False
            allvals = [v for vs in (st["many"] if st["many"] is not None else [st["vals"]]) for v in vs]
            flat = [x for v in allvals for x in (v.py if isinstance(v.py, list) else [v.py])]
            if any(isinstance(x, str) and has_dollar_word(x) for x in flat):
                run_spec = run_impl = False   # the variable phase would rewrite the written literal (C15's finding, not C08's)
            if case["style"] == "qmark" and any(isinstance(x, str) and "\x00" in x for x in flat):
                run_spec = False   # a NUL cannot be written in DuckDB SQL text at all: qmark is checked by read-back only
            if case["style"] == "qmark" and case["kind"] in ("typed", "manytyped") and any(v.cls == "float" for v in allvals):
                run_spec = False   # DuckDB reads a written decimal literal inexactly into FLOAT (C08/float-literal-inexact); qmark binds the double itself
            if case["style"] == "qmark" and any(v.cls == "datetime_tz" for v in allvals):
                run_spec = False   # qmark binds a TIMESTAMPTZ (compared as an instant); the client-side convention is the quoted text with its offset
            if case["style"] == "qmark" and case["kind"] != "typed" and any(v.cls == "Decimal" for v in allvals):
                run_spec = False   # untyped context: qmark binds a DECIMAL value, the client-side convention is the quoted text
        findings.discard("-")
        if case.get("skel_reply") and case["skel_reply"].get("finding", "-") != "-":
            findings.add(case["skel_reply"]["finding"])
        case["finding"] = sorted(findings)
        case["run_spec"], case["run_impl"] = run_spec, run_impl


# ------------------------------------------------------------------------------------------------
# verdicts
# ------------------------------------------------------------------------------------------------
def _describe(case):
    d = {"kind": case["kind"], "style": case["style"], "note": case.get("note"), "nop": bool(case.get("nop")),
         "share": [st.get("share") for st in case["steps"]], "as": [st.get("as") for st in case["steps"]],
         "steps": [{"cmd": st["cmd"], "params": (st.get("raw") if st["mode"] == "raw" else
                                                 [[repr(v.py) for v in s] for s in st["many"]] if st["many"] is not None else
                                                 {k: repr(v.py) for k, v in zip(st["keys"], st["vals"])} if st["mode"] == "map" else
                                                 [repr(v.py) for v in st["vals"]])} for st in case["steps"]]}
    return d


def _judge(chk, case, res):
    real = res["real"]
    desc = _describe(case)
    classes = sorted({v.cls for st in case["steps"] for vs in (st["many"] if st["many"] is not None else [st["vals"]]) for v in vs})
    chk.case((case["kind"], case["style"], repr(desc["steps"])), nontrivial=case["kind"] not in ("noparams",), sample=None)
    chk.count(f"kind:{case['kind']}")
    chk.count(f"style:{case['style']}")
    for c in classes:
        chk.count(f"class:{c}")
    problems = []
    last = real[-1]
    exp = case["expect"]
    st0 = case["steps"][0]
    model_err = st0.get("impl_kind") == "err"
    if st0.get("impl_kind") == "unsupported":
        chk.count("skipped_unsupported")
        return
    if model_err:
        chk.count("model:fmt-error")
        if not (real[0][0] == "err" and real[0][1] in ("TypeError", "KeyError", "ValueError")):
            problems.append(f"`%` must reject the arguments (model: error) but execute returned {real[0]}")
        if exp is not None and not (last[0] == "rows" and last[1] == _l(exp)):
            problems.append(f"after the rejected statement the probe returned {last}, expected {exp}")
    else:
        if exp is not None:
            if not (last[0] == "rows" and last[1] == _l(exp)):
                problems.append(f"read back {_short(last)} but the bound values are {exp}")
        elif case.get("skel_reply"):
            if case["skel_reply"]["spec"] == "0" and last[0] != "err":
                problems.append(f"wrong number of qmark values accepted: {last}")
        if "spec" in res and res["spec"] != real:
            problems.append(f"differs from executing the statement with the values written as literals: real={_short(real)} literal={_short(res['spec'])} (text {case['steps'][0]['spec']!r})")
    for m in res.get("mutated", []):
        problems.append(f"the caller's parameter container was changed by the call: step {m['step']} passed {m['passed']}, afterwards it is {m['after']}")
    if "impl" in res and not problems and res["impl"] != real:
        # the property holds on this case but the model of the code's text is wrong: model/harness problem
        chk.violation(f"model text executes differently from the real call: real={_short(real)} model-text={_short(res['impl'])} text={case['steps'][0]['impl']!r}",
                      desc, broken="correspondence Fs.Params.rewrite (model of _rewrite_with_params)", failing_input=False)
        return
    if not problems:
        chk.count("held")
        return
    what = f"{case['style']} {desc['steps']}: " + "; ".join(problems)
    keys = case["finding"]
    if len(keys) == 1:
        key = keys[0]
        predicted = False
        if key == "C08/inf-nan":
            predicted = "impl" in res and res["impl"] == real
        elif key == "C08/nul":
            predicted = res.get("impl", real) == real and last == ("err", "ParserException", None, None)
        elif key == "C08/float-literal-inexact":
            import struct
            fb = [b for b in common.dec_list(st0["replies"][0].get("fbits", "[]")) if b != "-"]
            predicted = (case["kind"] == "typed" and last[0] == "rows" and len(last[1]) == 1 and last[1][0][0][0] in ("flt", "int") and len(fb) == 1
                         and struct.pack("<d", float(last[1][0][0][1])) == struct.pack("<Q", int(fb[0])) and res.get("impl", real) == real)
        elif key == "C08/qmark-merge":
            predicted = ("err", "InvalidInputException", None, None) in real and case["skel_reply"]["impl"] == "0"
        elif key == "C08/qmark-duplicated":
            predicted = last == ("err", "InvalidInputException", None, None) and case["skel_reply"]["impl"] == "0"
        if predicted:
            chk.finding(key, what, desc)
            return
    chk.violation(what, desc, broken="C08_structure/C08_roundtrip/C08_pyformat_* (correspondence with Fs.Params + value read back)")


def _l(rows):
    return [list(r) for r in rows]


def _short(x):
    s = repr(x)
    return s if len(s) < 300 else s[:300] + "…"


# ------------------------------------------------------------------------------------------------
# (A) engine models against the engines
# ------------------------------------------------------------------------------------------------
def _skeleton_real(text):
    """sqlglot's own tokenisation reduced to the model's vocabulary"""
    from sqlglot.dialects.snowflake import Snowflake
    from sqlglot.tokens import TokenType as T
    try:
        toks = Snowflake().tokenize(text)
    except Exception:
        return "error"
    out, buf = [], []
    for t in toks:
        if t.token_type in (T.STRING, T.RAW_STRING, T.IDENTIFIER, T.SEMICOLON):
            if buf:
                out.append(("C", "".join(buf)))
                buf = []
            out.append({T.STRING: ("S", t.text), T.RAW_STRING: ("R", t.text), T.IDENTIFIER: ("I", t.text), T.SEMICOLON: ("M", "")}[t.token_type])
        else:
            buf.append("".join(t.text.split()).upper())
    if buf:
        out.append(("C", "".join(buf)))
    return out


def _skeleton_model(toks):
    if toks == "error":
        return "error"
    out, buf = [], []
    for t in common.dec_list(toks):
        if t[0] == "C":
            buf.append(chr(int(t[2:])).upper())
        else:
            if buf:
                out.append(("C", "".join(buf)))
                buf = []
            out.append((t[0], dec_str(t[2:]) if len(t) > 1 else ""))
    if buf:
        out.append(("C", "".join(buf)))
    return out


LEX_ATOMS = ["'", "''", "\\'", "\\\\", "\\n", "\\", "a", "b c", " ", "\n", "\r\n", "\t", ";", "--", "-", "//", "/", "/*", "*/", "*", "$$", "$", "$v", '"', '""', "(", ")", ",",
             "1", "1.5", "=", "%", "?", "é", "😀", "\x0b", "\xa0", "\\t", "\\x", "select", "x y", "->", "::", "||", ".", "+"]


def gen_lex_text(rnd):
    k = rnd.random()
    if k < 0.5:
        return "".join(rnd.choice(LEX_ATOMS) for _ in range(rnd.randint(1, 10)))
    # well-formed statement pieces with embedded literals
    parts = []
    for _ in range(rnd.randint(1, 5)):
        j = rnd.random()
        s = gen_str(rnd)
        if j < 0.35:
            parts.append("'" + s.replace("\\", "\\\\").replace("'", rnd.choice(["''", "\\'"])) + "'")
        elif j < 0.45 and "$$" not in s and not s.endswith("$"):
            parts.append(" $$" + s + "$$")
        elif j < 0.55:
            parts.append('"' + s.replace('"', '""').replace("\\", "") + '"')
        elif j < 0.65 and "*/" not in s:
            parts.append("/*" + s + "*/")
        elif j < 0.75:
            parts.append("--" + s.replace("\n", " ").replace("\r", " ") + "\n")
        else:
            parts.append(rnd.choice([" select ", " , ", ";", " from t ", " 1 ", "(", ")", " = ", " - ", " / ", " a.b "]))
    return "".join(parts)


# texts the model deliberately does not cover (see Fs/Model/Lex.lean): prefixed strings, hints, jinja markers, `$$` glued to a number
_UNMODELLED = re.compile(r"(?i)(?<![A-Za-z0-9_$])[xn]'|/\*\+|\{\{|\{%|\{#|[0-9.]\$\$|\$\$\$|[^\x00-\x7f]\$\$|\\$")


def engine_ties(chk):
    import duckdb
    from snowflake.connector.converter import SnowflakeConverter
    from sqlglot import exp
    rnd = random.Random(chk.seed + 1)
    n = 1500 if chk.tier == "quick" else 30000
    strs = list(ATOMS) + [gen_str(rnd, nul=(i % 40 == 0)) for i in range(n)]
    lines = ["params\tescape\t" + enc_str(s) for s in strs] + ["params\tduck\t" + enc_str(s) for s in strs]
    texts = [gen_lex_text(rnd) for _ in range(n)]
    texts = [t for t in texts if not _UNMODELLED.search(t)]
    lines += ["params\tlex\t" + enc_str(t) for t in texts]
    fmts = []
    for _ in range(n):
        tmpl = "".join(rnd.choice(["%s", "%s", "%%", "%%", "%(a)s", "%(b c)s", "%", "a", "a", "'", " ", " ", "%d", "%(", ")", "s", "(", "%5s", "x", "x"]) for _ in range(rnd.randint(0, 7)))
        if rnd.random() < 0.6:
            nargs = tmpl.replace("%%", "").count("%s") if rnd.random() < 0.7 else rnd.randint(0, 3)
            args = tuple(rnd.choice(["v", "%s", "%%", "'q'", "%(a)s", ""]) for _ in range(nargs))
            fmts.append((tmpl, args))
        else:
            fmts.append((tmpl, {k: rnd.choice(["v", "%s", "%(a)s"]) for k in rnd.sample(["a", "b c", "z"], rnd.randint(1, 2))}))
    for tmpl, args in fmts:
        if isinstance(args, dict):
            lines.append("\t".join(["params", "fmt", enc_str(tmpl), "map", enc_list([enc_str(k) + "=S:" + enc_str(v) for k, v in args.items()])]))
        else:
            lines.append("\t".join(["params", "fmt", enc_str(tmpl), "seq", enc_list(["S:" + enc_str(v) for v in args])]))
    reps = common.batch(lines)
    k = 0
    con = duckdb.connect()
    for s in strs:
        r = reps[k]; k += 1
        real = SnowflakeConverter.escape(s)
        chk.case(("escape", s), nontrivial=any(c in s for c in "'\\\n\r"))
        chk.count("tie:escape")
        if not (dec_str(r["seq"]) == real == dec_str(r["one"])):
            chk.violation(f"connector escape({s!r}) = {real!r} but model escapeSeq = {dec_str(r['seq'])!r}", {"kind": "escape", "s": s},
                          broken="correspondence Fs.Params.escapeSeq (SnowflakeConverter.escape)", failing_input=False)
        sk = _skeleton_real("'" + real + "'")
        if sk != [("S", s)] or _skeleton_model(r["lex"]) != [("S", s)]:
            chk.violation(f"tokenizer does not read quote(escape({s!r})) back: sqlglot={sk} model={_skeleton_model(r['lex'])}", {"kind": "escape", "s": s},
                          broken="C08_roundtrip (correspondence Fs.Lex with sqlglot's tokenizer)", failing_input=False)
    for s in strs:
        r = reps[k]; k += 1
        chk.case(("duck", s), nontrivial="'" in s)
        chk.count("tie:duck")
        gen = exp.Literal.string(s).sql(dialect="duckdb")
        try:
            back = con.execute("select " + gen).fetchall()[0][0]
            real = "ok"
        except Exception:
            back, real = None, "error"
        model_ok = r["lex"].startswith("ok:")
        if gen != "'" + dec_str(r["gen"]) + "'" or (real == "ok") != model_ok or (model_ok and (back != s or dec_str(r["lex"][3:]) != s)):
            chk.violation(f"DuckDB literal of {s!r}: generator {gen!r} / read back {back!r} ({real}); model gen={dec_str(r['gen'])!r} lex={r['lex']}",
                          {"kind": "duck", "s": s}, broken="C08_duck_roundtrip (correspondence duckGen/duckLex)", failing_input=False)
    for t in texts:
        r = reps[k]; k += 1
        real, model = _skeleton_real(t), _skeleton_model(r["toks"])
        chk.case(("lex", t), nontrivial=real != "error" and any(x[0] in "SRI" for x in real))
        chk.count("tie:lex:" + ("error" if real == "error" else "ok"))
        if real != model:
            chk.violation(f"sqlglot tokenizes {t!r} as {real} but Fs.Lex.lex gives {model}", {"kind": "lex", "text": t},
                          broken="correspondence Fs.Lex.lex (sqlglot Snowflake tokenizer)", failing_input=False)
    for tmpl, args in fmts:
        r = reps[k]; k += 1
        try:
            real = ("ok", tmpl % args) if args else ("ok", tmpl % args)
        except (TypeError, KeyError, ValueError):
            real = ("err", None)
        model = _fmt_dec(r["out"])
        chk.count("tie:fmt:" + model[0])
        if model[0] == "unsupported":
            continue
        chk.case(("fmt", tmpl, repr(args)), nontrivial="%" in tmpl)
        if model != real:
            chk.violation(f"{tmpl!r} % {args!r} = {real} but model fmt gives {model}", {"kind": "fmt", "tmpl": tmpl, "args": repr(args)},
                          broken="C08_pyformat_seq/map (correspondence Fs.Params.fmt with CPython %)", failing_input=False)


def snap_cases(chk):
    rnd = random.Random(chk.seed + 2)
    styles = ["pyformat", "format", "qmark", "numeric"]
    out = []
    import itertools
    for a, b, c in itertools.product(styles, styles, styles):
        out.append(["g" + a, "c", "g" + b, "c", "g" + c, "x0", "x1"])
    for _ in range(30 if chk.tier == "quick" else 300):
        ops, nc = [], 0
        for _ in range(rnd.randint(3, 10)):
            r = rnd.random()
            if r < 0.35:
                ops.append("g" + rnd.choice(styles))
            elif r < 0.6 and nc < 4:
                ops.append("c"); nc += 1
            elif nc:
                ops.append(f"x{rnd.randrange(nc)}")
        out.append(ops)
    return [{"kind": "snap", "ops": o} for o in out]


def _judge_snap(chk, case, real):
    model = case["model"]
    # every style other than pyformat/format leaves the values to the engine (`?` placeholders)
    cls = {"pyformat": "client", "format": "client", "qmark": "qmark", "numeric": "qmark", "-": "-"}
    want = [cls[m] for m in model]
    chk.case(("snap", tuple(case["ops"])), nontrivial=True)
    chk.count("kind:snap")
    if real != want:
        i = next(j for j in range(len(want)) if j >= len(real) or real[j] != want[j])
        chk.violation(f"paramstyle history {case['ops']}: statement #{i} `{case['ops'][i]}` ran under {real[i] if i < len(real) else None!r} but the style configured "
                      f"when that connection was made is {model[i]} ({want[i]})", {"kind": "snap", "ops": case["ops"]}, broken="C08_paramstyle_snapshot (correspondence Fs.Params.prun)")


# ------------------------------------------------------------------------------------------------
def _execute(chk, cases):
    lines, index = _model_lines(cases)
    replies = common.batch(lines)
    _attach_model(cases, replies, index)
    shards = common.chunks(cases, 16)
    reals = common.shard_map(_worker, shards)
    for shard, rs in zip(shards, reals):
        for case, res in zip(shard, rs):
            if case["kind"] == "snap":
                _judge_snap(chk, case, res)
            else:
                _judge(chk, case, res)


def run(chk) -> None:
    chk.rule = ("values: adversarial atoms (quotes, backslashes, newlines, %, %s, %(x)s, $, $v1, ?, ;, comment markers, $$, control chars, astral) and random unicode "
                "strings, int64 ints, floats, Decimal, bool, None, date/datetime/time, lists; × templates select/select-with-literal+comments/typed insert+read back/"
                "IN list/dict/executemany/with session variable/argument-count errors × paramstyles pyformat, format, qmark; all 64 three-assignment paramstyle "
                "histories + random ones; engine ties on ~4×N strings/texts/templates.  non-trivial = distinct (kind, style, statement, values)")
    engine_ties(chk)
    cases = make_cases(chk) + snap_cases(chk)
    _execute(chk, cases)
    shown = [c for c in cases if c["kind"] in ("select3", "typed", "vars", "dict")][:6]
    chk.samples = [_describe(c) for c in shown]
    chk.trusted += ["connector SnowflakeConverter.escape/quote/to_snowflake text forms (modelled, compared on every run)",
                    "sqlglot Snowflake tokenizer string/raw-string/identifier/comment rules (Fs.Lex, compared on every run)",
                    "CPython str % for %s, %(k)s, %% (Fs.Params.fmt, compared on every run)",
                    "sqlglot DuckDB generator quote doubling and DuckDB's string lexer (duckGen/duckLex, compared on every run)",
                    "DuckDB Python binding of prepared-statement values (qmark): Decimal of ≤ 38 digits arrives exactly"]
    chk.assumptions = ["placeholders of generated templates stand between tokens (not glued to an identifier/number, not directly after a quote or a `-`)",
                       "values containing `$word` are checked by read-back only: executing them as written literals would pass through the variable phase (C15)",
                       "Decimal/date/datetime/time bound client-side are quoted texts (connector convention); compared as values in typed columns, as text in `select %s`"]


def replay(chk, case) -> None:
    kind = case.get("kind")
    if kind in ("escape", "duck", "lex", "fmt"):
        chk.violation("engine-model disagreement replays are re-run by the full check (engine_ties)", case, broken="engine tie", failing_input=False)
        return
    if kind == "snap":
        cases = [{"kind": "snap", "ops": case["ops"]}]
    else:
        # rebuild the case from its description: only string/int/None params can be reconstructed from repr
        import ast
        steps = []
        for st in case["steps"]:
            p = st["params"]
            if isinstance(p, dict):
                vals = [_v_from(ast.literal_eval(v)) for v in p.values()]
                steps.append({"cmd": st["cmd"], "spec_cmd": st["cmd"], "mode": "map", "vals": vals, "keys": list(p.keys()), "many": None, "fetch": True})
            elif p and isinstance(p[0], list):
                steps.append({"cmd": st["cmd"], "spec_cmd": st["cmd"].replace("?", "%s"), "mode": "seq", "vals": None, "keys": None,
                              "many": [[_v_from(_ev(v)) for v in s] for s in p], "fetch": False})
            elif p:
                steps.append({"cmd": st["cmd"], "spec_cmd": st["cmd"].replace("?", "%s") if case["style"] == "qmark" else st["cmd"], "mode": "seq",
                              "vals": [_v_from(_ev(v)) for v in p], "keys": None, "many": None, "fetch": True})
            else:
                steps.append({"cmd": st["cmd"], "spec_cmd": st["cmd"], "mode": "none", "vals": [], "keys": None, "many": None, "fetch": True})
        for st, sh, as_ in zip(steps, case.get("share") or [], case.get("as") or []):
            if sh is not None:
                st["share"] = sh
            if as_ is not None:
                st["as"] = as_
        cases = [{"kind": kind, "style": case["style"], "steps": steps, "expect": None, "skel": None, "note": case.get("note"), "nop": case.get("nop", False)}]
    _execute(chk, cases)


def _ev(s):
    import ast
    try:
        return ast.literal_eval(s)
    except Exception:
        return eval(s, {"datetime": dt, "Decimal": decimal.Decimal, "inf": float("inf"), "nan": float("nan")})  # noqa: S307 (own replay files only)


def _v_from(x) -> V:
    if isinstance(x, str):
        return v_str(x)
    if x is None:
        return V(None, "None", "n", "s")
    if isinstance(x, bool):
        return V(x, "bool", "b1" if x else "b0", "b")
    if isinstance(x, (int, float)):
        return V(x, type(x).__name__, ("N:" if math.isfinite(x) else "X:") + enc_str(repr(x)), "n")
    if isinstance(x, list):
        return v_list([_v_from(i) for i in x])
    if isinstance(x, decimal.Decimal):
        return V(x, "Decimal", "S:" + enc_str(str(x)), "dc")
    if isinstance(x, dt.datetime):
        return V(x, "datetime" if x.tzinfo is None else "datetime_tz", _dt_wire(x), "ts" if x.tzinfo is None else "s")
    if isinstance(x, dt.date):
        return V(x, "date", "S:" + enc_str(f"{x.year:d}-{x.month:02d}-{x.day:02d}"), "d")
    if isinstance(x, dt.time):
        return V(x, "time", "S:" + enc_str(x.strftime("%H:%M:%S") + (f".{x.microsecond:06d}" if x.microsecond else "")), "tm")
    raise common.Infra(f"cannot rebuild value {x!r}")
