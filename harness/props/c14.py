"""C14 — connect() does what its options say in every configuration.

Correspondence: the complete product  database arg {absent, lower, UPPER, Mixed} × schema arg {absent, lower, UPPER,
information_schema} × create_database_on_connect × create_schema_on_connect × storage {memory, fresh db_path, db_path with files
of an earlier session} × prior state {nothing, database, database+schema+table} × {first, second identical connect}
= 1152 configurations (plus an adversarial set: empty strings, built-in schema names, an unrelated database name) is run on
the real `fakesnow.patch(...)` + `snowflake.connector.connect(...)` and on `Fs.Connect.connect` / `Spec.connect`.
Observed: outcome, conn.database / conn.schema, 90105 / 90106 / 2003 of a first unqualified statement, the catalog listing
(databases, schemas, table content) seen from another connection, the files under db_path, and an other session's context.
"""
from __future__ import annotations

import itertools
import os
import shutil
import tempfile

from lib import common
from lib.common import dec_str, enc_list, enc_opt, enc_str

SYSTEM_CATALOGS = {"memory", "system", "temp", "_fs_global"}
BUILTIN_SCHEMAS = {"main", "information_schema", "pg_catalog"}
T_CONTENT = 7   # content id of the prior schema: table T with the single row (1,)
# prior states: catalogs (with schemas, each holding table T with one row) that exist before the connect under test.
# The last three are decoys for pattern-matching existence checks: they differ from the requested name only where the
# requested (or the existing) name has `_`, the single-character wildcard of LIKE.
PRIORS = {
    "nothing": [],
    "db": [("DB1", [])],
    "db+schema": [("DB1", ["S1"])],
    "AXB/SXT": [("AXB", ["SXT"])],
    "A_B/SXT": [("A_B", ["SXT"])],
    "A_B/S_T": [("A_B", ["S_T"])],
    # another database holds a schema named like the requested one (existence checks must be scoped to the requested database)
    "DB2.S1": [("DB2", ["S1"])],
    "DB1,DB2.S1": [("DB1", []), ("DB2", ["S1"])],
    "DB2.S1,DB1": [("DB2", ["S1"]), ("DB1", [])],
    # databases named like a schema DuckDB knows in the current catalog (a one-part `USE x` / `SET schema='x'` would pick the schema),
    # and a database named like a schema of another database
    "MAIN": [("MAIN", [])],
    "MAIN/RAW": [("MAIN", ["RAW"])],
    "PG_CATALOG": [("PG_CATALOG", [])],
    "S1,DB1.S1": [("S1", []), ("DB1", ["S1"])],
}
KEY_BUILTIN_DB = "C14/auto-create-db-named-like-builtin-schema"


def _probe(conn) -> str:
    import snowflake.connector
    try:
        conn.cursor().execute("select * from c14_no_such_table")
        return "ok"
    except snowflake.connector.errors.ProgrammingError as e:
        return str(e.errno)
    except Exception as e:  # noqa: BLE001
        return "X:" + type(e).__name__


T_DDL = ["create table {q}.T (x int, name varchar(20)) comment = 'people'", "insert into {q}.T values (1, 'Jenny')"]
T_EXPECTED = ([(1, "Jenny")], [("X", "NUMBER(38,0)"), ("NAME", "VARCHAR(20)")], [("X", None), ("NAME", 20)], [("people",)])


def _content(obs, c: str, s: str, deep: bool = True):
    """content id of schema c.s: 0 = no table T; T_CONTENT = T exactly as the prior state made it (rows, DESCRIBE TABLE types with
    lengths, information_schema.columns lengths, table comment); any other state gets its own id"""
    import zlib
    cur = obs.cursor()
    try:
        rows = cur.execute(f"select * from {c}.{s}.T").fetchall()
    except Exception:  # noqa: BLE001
        return 0, None
    if c.upper() in ("MAIN", "PG_CATALOG", "INFORMATION_SCHEMA"):
        # DESCRIBE TABLE / information_schema views of a database named like a built-in schema are ambiguous for DuckDB whatever connect
        # does (not C14's business): only the rows can be observed there
        deep = False
    if not deep:   # the rows only
        return (T_CONTENT, None) if rows == T_EXPECTED[0] else (99, f"{c}.{s}.T rows {rows}")
    try:
        cur.execute(f"use database {c}")
        desc = [(r[0], r[1]) for r in cur.execute(f"describe table {c}.{s}.T").fetchall()]
        lens = cur.execute(f"select column_name, character_maximum_length from {c}.information_schema.columns "
                           f"where table_schema = '{s}' and table_name = 'T' order by ordinal_position").fetchall()
        comment = cur.execute(f"select comment from {c}.information_schema.tables where table_schema = '{s}' and table_name = 'T'").fetchall()
        snap = (rows, desc, lens, comment)
    except Exception as e:  # noqa: BLE001
        snap = (rows, f"X:{type(e).__name__}")
    if snap == T_EXPECTED:
        return T_CONTENT, None
    return 100 + zlib.crc32(repr(snap).encode()) % 1000000, f"{c}.{s}.T is (rows, describe, lengths, comment) = {snap}"


def _listing(obs, d: str | None, deep: bool = True):
    """[(catalog, file?, [(schema, content)…])…] sorted, the sorted stems of the .db files under db_path, and notes on unexpected content"""
    cur = obs.cursor()
    cur.execute("select catalog_name, schema_name from memory.information_schema.schemata")
    cats: dict[str, list] = {}
    notes = []
    for c, s in cur.fetchall():
        if c in SYSTEM_CATALOGS:
            continue
        cats.setdefault(c, [])
        if s.lower() in BUILTIN_SCHEMAS:
            continue
        content, note = _content(obs, c, s, deep)
        if note:
            notes.append(note)
        cats[c].append((s, content))
    files = sorted(f[:-3] for f in os.listdir(d) if f.endswith(".db")) if d else []
    att = sorted((c, bool(d) and os.path.exists(os.path.join(d, c + ".db")), sorted(ss)) for c, ss in cats.items())
    return att, files, notes


def _where_it_lands(obs, conn, db, sc, dbset: bool, scset: bool) -> list[str]:
    """the engine-level context of a freshly connected session: current_database()/current_schema(), and where an unqualified
    CREATE SCHEMA / CREATE TABLE lands.  Returns the list of discrepancies with what (db, sc, dbset, scset) demand.  Mutates the
    catalog, so it runs after everything else has been observed."""
    bad = []
    if not (scset and sc == "PG_CATALOG"):
        # (with pg_catalog as current schema DuckDB's own current_database() macro recurses: not observable there)
        try:
            cd, cs = conn.cursor().execute("select current_database(), current_schema()").fetchall()[0]
        except Exception as e:  # noqa: BLE001
            return [f"select current_database(), current_schema() raised {type(e).__name__}"]
        if dbset and (cd or "").upper() != db:
            bad.append(f"current_database() is {cd!r}, required {db!r}")
        if dbset and (cs or "").upper() != (sc if scset else "MAIN"):
            bad.append(f"current_schema() is {cs!r}, required {(sc if scset else 'main')!r}")
    if not dbset:
        return bad
    try:
        conn.cursor().execute("create schema c14_probe_s")
        got = sorted(r[0] for r in obs.cursor().execute(
            "select catalog_name from memory.information_schema.schemata where upper(schema_name) = 'C14_PROBE_S'").fetchall())
        if [g.upper() for g in got] != [db]:
            bad.append(f"an unqualified CREATE SCHEMA landed in catalog(s) {got}, required [{db!r}]")
    except Exception as e:  # noqa: BLE001
        bad.append(f"unqualified CREATE SCHEMA raised {type(e).__name__}: {str(e)[:80]}")
    if scset and sc not in ("INFORMATION_SCHEMA", "PG_CATALOG"):
        try:
            conn.cursor().execute("create table c14_probe_t (x int)")
            obs.cursor().execute(f"select x from {db}.{sc}.c14_probe_t").fetchall()
        except Exception as e:  # noqa: BLE001
            bad.append(f"an unqualified CREATE TABLE did not land in {db}.{sc}: {type(e).__name__}: {str(e)[:80]}")
    return bad


def _session_state(conn):
    return (conn.database, conn.schema, _probe(conn))


def _real(cfg) -> dict:
    import fakesnow
    import snowflake.connector
    dbarg, scarg, cdb, csc, storage, prior, order = cfg
    d = tempfile.mkdtemp(prefix="c14")
    try:
        dbp = None if storage == "memory" else d

        def make_prior(cur):
            for cat, schemas in PRIORS[prior]:
                cur.execute(f"create database {cat}")
                cur.execute(f"use database {cat}")
                for sc in schemas:
                    cur.execute(f"create schema {cat}.{sc}")
                    for ddl in T_DDL:
                        cur.execute(ddl.format(q=f"{cat}.{sc}"))

        if storage == "existing":
            with fakesnow.patch(db_path=d):
                cur = snowflake.connector.connect().cursor()
                cur.execute("create database OTHER")
                make_prior(cur)
        with fakesnow.patch(create_database_on_connect=cdb, create_schema_on_connect=csc, db_path=dbp):
            obs = snowflake.connector.connect()
            other = snowflake.connector.connect()
            if storage != "existing":
                make_prior(obs.cursor())
                if PRIORS[prior]:
                    other.cursor().execute(f"use database {PRIORS[prior][0][0]}")
                    if PRIORS[prior][0][1]:
                        other.cursor().execute(f"use schema {PRIORS[prior][0][1][0]}")
            init = _listing(obs, dbp, deep=False)
            other_before = _session_state(other)
            outs = []
            for _ in range(2 if order == "second" else 1):
                kw = {}
                if dbarg is not None:
                    kw["database"] = dbarg
                if scarg is not None:
                    kw["schema"] = scarg
                last = None
                try:
                    c = snowflake.connector.connect(**kw)
                    p = _probe(c)
                    # 90105 / 90106 are the context guards; once past them the missing table gives 2003 (2043 under pg_catalog)
                    flags = {"90105": "0,0", "90106": "1,0", "2003": "1,1", "2043": "1,1"}.get(p, "probe:" + p)
                    outs.append(f"ok,{enc_opt(c.database)},{enc_opt(c.schema)},{flags}")
                    last = (c, flags)
                except Exception as e:  # noqa: BLE001
                    outs.append("binder" if type(e).__name__ == "BinderException" else f"X:{type(e).__name__}:{getattr(e, 'errno', '')}")
            final = _listing(obs, dbp)
            other_after = _session_state(other)
            other_data = None
            if other_before[2] == "2003" and PRIORS[prior] and PRIORS[prior][0][1] and storage != "existing":
                try:
                    other_data = other.cursor().execute("select x from T").fetchall()
                except Exception as e:  # noqa: BLE001
                    other_data = f"X:{type(e).__name__}"
            lands = []
            if last is not None and last[1] in ("0,0", "1,0", "1,1"):
                c, flags = last
                lands = _where_it_lands(obs, c, c.database, c.schema, flags != "0,0", flags == "1,1")
        return {"init": init, "outs": outs, "final": final, "other_before": other_before, "other_after": other_after, "other_data": other_data,
                "lands": lands}
    except Exception as e:  # noqa: BLE001
        return {"harness_error": f"{type(e).__name__}: {e}"[:300]}
    finally:
        shutil.rmtree(d, ignore_errors=True)


def _worker(shard):
    return [_real(c) for c in shard]


def _model_world(cfg):
    """the abstract initial world the driver is given, and the canonical listing the real initial state must equal"""
    _, _, _, _, storage, prior, _ = cfg
    cats = [(c, [(sc, T_CONTENT) for sc in scs]) for c, scs in PRIORS[prior]]

    def enc_s(schemas):
        return ",".join(f"{enc_str(n)}={k}" for n, k in schemas) or "-"

    if storage == "existing":
        attached, listing = [], []
        disk = [("OTHER", "-")] + [(c, enc_s(scs)) for c, scs in cats]
    else:
        on_file = storage == "fresh"
        attached = [f"{enc_str(c)}|{int(on_file)}|{enc_s(scs)}" for c, scs in cats]
        listing = [(c, on_file, sorted(scs)) for c, scs in cats]
        disk = [(c, enc_s(scs)) for c, scs in cats] if on_file else []
    return enc_list(attached), enc_list([f"{enc_str(n)}|{s}" for n, s in disk]), (listing, sorted(n for n, _ in disk))


def _line(cfg) -> str:
    dbarg, scarg, cdb, csc, storage, _, order = cfg
    att, disk, _ = _model_world(cfg)
    o = f"{enc_opt(dbarg)}|{enc_opt(scarg)}|{int(cdb)}|{int(csc)}|{int(storage != 'memory')}"
    return "\t".join(["connect", "run", att, disk, enc_list([o] * (2 if order == "second" else 1))])


def _dec_world(s: str):
    att_s, _, disk_s = s.partition("#")
    att = []
    for e in (att_s.split("+") if att_s else []):
        n, f, sc = e.split(":")
        schemas = [] if sc == "-" else [(dec_str(x.split("=")[0]), int(x.split("=")[1])) for x in sc.split(",")]
        att.append((dec_str(n), f == "1", sorted(schemas)))
    disk = sorted(dec_str(x) for x in disk_s.split("+")) if disk_s else []
    return sorted(att), disk


def _dec_run(s: str):
    outs, _, world = s.partition("|")
    return outs.split(";"), _dec_world(world)


def _show_out(o: str) -> str:
    if not o.startswith("ok,") or len(o.split(",")) != 5:
        return o
    _, d, s, a, b = o.split(",")
    return f"ok(database={common.dec_opt(d)!r}, schema={common.dec_opt(s)!r}, current db={'yes' if a == '1' else 'no'}, current schema={'yes' if b == '1' else 'no'})"


def _describe(cfg) -> str:
    dbarg, scarg, cdb, csc, storage, prior, order = cfg
    return (f"patch(create_database_on_connect={cdb}, create_schema_on_connect={csc}, db_path={'<dir>' if storage != 'memory' else None}) "
            f"[storage={storage}, prior={prior}] connect(" + ", ".join([f"database={dbarg!r}"] * (dbarg is not None) + [f"schema={scarg!r}"] * (scarg is not None))
            + (") twice" if order == "second" else ")"))


def _check(chk, cfg, real, reply) -> None:
    case = {"cfg": list(cfg)}
    dbarg, scarg, cdb, csc, storage, prior, order = cfg
    chk.case(tuple(cfg), nontrivial=dbarg is not None)
    if "harness_error" in real:
        chk.violation(f"{_describe(cfg)}: setting up / observing the configuration failed: {real['harness_error']}", case,
                      broken="C14 harness set-up (correspondence)", failing_input=True)
        return
    _, _, init_expected = _model_world(cfg)
    if (real["init"][0], real["init"][1]) != (sorted(init_expected[0]), init_expected[1]):
        # the set-up itself runs fakesnow (patch + connect() + CREATE DATABASE / SCHEMA / TABLE under the instance options): what those
        # statements leave behind is behaviour of the code under test, so a wrong state is a violation with the set-up as the failing case
        stmts = []
        for cat, schemas in PRIORS[prior]:
            stmts.append(f"create database {cat}")
            stmts.append(f"use database {cat}")
            for sc in schemas:
                stmts += [f"create schema {cat}.{sc}"] + [d.format(q=f"{cat}.{sc}") for d in T_DDL]
        where = ("an earlier patch(db_path=<dir>) session (then a new session on the same <dir>)" if storage == "existing" else
                 f"patch(create_database_on_connect={cdb}, create_schema_on_connect={csc}, db_path={'<dir>' if storage != 'memory' else None})")
        chk.violation(f"set-up of the prior state: in {where}, a connect() session ran {stmts}; afterwards the catalogs (name, file-backed by "
                      f"<dir>/<NAME>.db, schemas with content) / db files seen from another connection are ({real['init'][0]}, {real['init'][1]}), "
                      f"required ({sorted(init_expected[0])}, {init_expected[1]})" + ("; " + "; ".join(real["init"][2]) if real["init"][2] else ""),
                      {"cfg": list(cfg), "setup": stmts}, broken="C14 prior state (storage mode of databases created through a connect() session; correspondence)")
        return
    spec_outs, spec_world = _dec_run(reply["spec"])
    impl_outs, impl_world = _dec_run(reply["impl"])
    ship_outs, ship_world = _dec_run(reply["shipped"])
    real_world = (real["final"][0], real["final"][1])
    chk.count("outcome:" + ("ok" if all(o.startswith("ok,") for o in real["outs"]) else "raises"))
    chk.count("created:" + ("db" if len(real_world[0]) > len(real["init"][0]) else "-") +
              ("+schema" if sum(len(c[2]) for c in real_world[0]) > sum(len(c[2]) for c in real["init"][0]) else ""))
    for o in real["outs"][-1:]:
        if o.startswith("ok,"):
            chk.count("context:" + {"0,0": "none", "1,0": "database", "1,1": "database+schema"}.get(",".join(o.split(",")[3:]), "?"))
    key = reply.get("finding", "-")
    if key != "-":
        # region of a known finding: the exception class of the failing bootstrap is not pinned (Binder / InvalidInput)
        canon = ["bootstrap" if (m == "bootstrap" and (o == "binder" or o.startswith("X:InvalidInputException"))) else o
                 for o, m in zip(real["outs"], impl_outs)] + real["outs"][len(impl_outs):]
        chk.count("region:" + key)
        if (canon, real_world) != (spec_outs, spec_world):
            if (canon, real_world) == (impl_outs, impl_world):
                chk.finding(key, f"{_describe(cfg)}: {real['outs']} — connect attaches the database and then raises from its bootstrap", case)
            else:
                chk.violation(f"{_describe(cfg)}: in the region of {key} the real behaviour {real['outs']} {real_world} is neither the specified one "
                              f"nor the known failure {impl_outs} {impl_world}", case, broken="C14_conforms_partial / finding " + key)
            return
    bad = None
    if real["outs"] != spec_outs:
        i = next(j for j in range(len(spec_outs)) if j >= len(real["outs"]) or real["outs"][j] != spec_outs[j])
        bad = f"connect #{i + 1} gave {_show_out(real['outs'][i])}, required {_show_out(spec_outs[i])}"
    elif real_world != spec_world:
        bad = (f"afterwards the catalogs (name, file-backed, schemas with content id; {T_CONTENT} = table T with its rows, VARCHAR lengths and comment "
               f"as created) / db files are {real_world}, required {spec_world}" + ("; " + "; ".join(real["final"][2]) if real["final"][2] else ""))
    elif real["other_after"] != real["other_before"]:
        bad = f"another session's (database, schema, probe) changed from {real['other_before']} to {real['other_after']}"
    elif real.get("lands"):
        bad = "the session's engine-level context is wrong: " + "; ".join(real["lands"])
    elif real["other_data"] not in (None, [(1,)]):
        bad = f"another session's unqualified `select x from T` now gives {real['other_data']}, required [(1,)]"
    if bad:
        like = " [behaves like the code before the repair C14/schema-without-db]" if (real["outs"], real_world) == (ship_outs, ship_world) and \
            (ship_outs, ship_world) != (impl_outs, impl_world) else ""
        chk.violation(f"{_describe(cfg)}: {bad}{like}", case, broken="C14_conforms_partial/C14_frame (correspondence with Fs.Connect.connect)")
        return
    if (real["outs"], real_world) != (impl_outs, impl_world):
        chk.violation(f"{_describe(cfg)}: real behaviour satisfies the specification but differs from the model of the code: "
                      f"{real['outs']} {real_world} vs {impl_outs} {impl_world}", case, broken="correspondence Fs.Connect.connect", failing_input=False)


def _configs(chk):
    product = list(itertools.product([None, "db1", "DB1", "Db1"], [None, "s1", "S1", "information_schema"], [True, False], [True, False],
                                     ["memory", "fresh", "existing"], ["nothing", "db", "db+schema"], ["first", "second"]))
    adversarial = list(itertools.product(["", "my_db2"], [None, "", "main", "Pg_Catalog", "s_2", "Information_Schema"], [True, False], [True, False],
                                         ["memory"], ["nothing", "db+schema"], ["first"]))
    adversarial += list(itertools.product(["dB1"], ["S1", "MAIN", ""], [True, False], [True, False], ["memory", "existing"], ["db", "db+schema"], ["second"]))
    # names with `_` next to an existing name that differs only at that position (exact, upper-cased name equality is required:
    # `_` and `%` must not act as LIKE wildcards), both directions, database and schema
    adversarial += list(itertools.product(["a_b", "A_B"], [None, "s_t"], [True, False], [True, False], ["memory", "fresh", "existing"],
                                          ["AXB/SXT", "A_B/SXT"], ["first"]))
    adversarial += list(itertools.product(["db1", "DB1"], ["s1", "S1"], [True, False], [True, False], ["memory", "fresh", "existing"],
                                          ["DB2.S1", "DB1,DB2.S1", "DB2.S1,DB1"], ["first"]))
    # database names that coincide with schema names DuckDB knows; connecting to such an existing database (database-only branch,
    # missing schema, existing schema) …
    adversarial += list(itertools.product(["main", "MAIN"], [None, "missing", "raw"], [True, False], [True, False], ["memory"],
                                          ["MAIN", "MAIN/RAW"], ["first"]))
    adversarial += list(itertools.product(["Main"], [None, "missing", "raw"], [True, False], [True, False], ["fresh"], ["MAIN/RAW"], ["first"]))
    adversarial += list(itertools.product(["Pg_Catalog"], [None, "s1"], [True, False], [True, False], ["memory"], ["PG_CATALOG"], ["first"]))
    adversarial += list(itertools.product(["s1"], [None, "s1"], [True, False], [True, False], ["memory"], ["S1,DB1.S1"], ["first"]))
    # … and having connect create / re-attach it (region of the known finding when create_database_on_connect is on)
    adversarial += list(itertools.product(["main", "PG_Catalog"], [None, "s1"], [True, False], [True, False], ["memory", "fresh"], ["nothing"],
                                          ["second"]))
    adversarial += list(itertools.product(["main"], [None, "raw"], [True, False], [True], ["existing"], ["MAIN/RAW"], ["first"]))
    adversarial += list(itertools.product(["axb"], [None, "sxt"], [True, False], [True, False], ["memory", "fresh", "existing"], ["A_B/S_T"], ["first"]))
    return product, adversarial


# ----------------------------------------------------------------------------------------------
# repeat connects with the catalog changed through another session in between
# ----------------------------------------------------------------------------------------------

def _connect_out(kw) -> str:
    import snowflake.connector
    try:
        c = snowflake.connector.connect(**kw)
        p = _probe(c)
        flags = {"90105": "0,0", "90106": "1,0", "2003": "1,1", "2043": "1,1"}.get(p, "probe:" + p)
        return f"ok,{enc_opt(c.database)},{enc_opt(c.schema)},{flags}"
    except Exception as e:  # noqa: BLE001
        return "binder" if type(e).__name__ == "BinderException" else f"X:{type(e).__name__}:{getattr(e, 'errno', '')}"


def _real_seq(seq) -> dict:
    """seq = (cdb, csc, storage, steps); a step is ["connect", dbarg, scarg] or ["sql", text] (run from another session).
    Every connect is recorded with the catalog state before and after it."""
    import fakesnow
    import snowflake.connector
    cdb, csc, storage, steps = seq
    d = tempfile.mkdtemp(prefix="c14s")
    try:
        dbp = None if storage == "memory" else d
        rec = []
        with fakesnow.patch(create_database_on_connect=cdb, create_schema_on_connect=csc, db_path=dbp):
            obs = snowflake.connector.connect()
            for st in steps:
                if st[0] == "sql":
                    try:
                        obs.cursor().execute(st[1])
                        rec.append({"sql": st[1], "result": "ok"})
                    except Exception as e:  # noqa: BLE001
                        rec.append({"sql": st[1], "result": type(e).__name__})
                else:
                    kw = {}
                    if st[1] is not None:
                        kw["database"] = st[1]
                    if st[2] is not None:
                        kw["schema"] = st[2]
                    pre = _listing(obs, dbp)
                    out = _connect_out(kw)
                    rec.append({"connect": [st[1], st[2]], "pre": pre, "out": out, "post": _listing(obs, dbp)})
        return {"steps": rec}
    except Exception as e:  # noqa: BLE001
        return {"harness_error": f"{type(e).__name__}: {e}"[:300]}
    finally:
        shutil.rmtree(d, ignore_errors=True)


def _seq_worker(shard):
    return [_real_seq(s) for s in shard]


def _seq_line(seq, step) -> str:
    """one connect of a sequence, from the catalog state observed just before it"""
    cdb, csc, storage, _ = seq
    att, files = step["pre"][0], step["pre"][1]
    enc_s = lambda schemas: ",".join(f"{enc_str(n)}={k}" for n, k in schemas) or "-"  # noqa: E731
    attached = [f"{enc_str(c)}|{int(f)}|{enc_s(scs)}" for c, f, scs in att]
    disk = [f"{enc_str(n)}|-" for n in files]
    o = f"{enc_opt(step['connect'][0])}|{enc_opt(step['connect'][1])}|{int(cdb)}|{int(csc)}|{int(storage != 'memory')}"
    return "\t".join(["connect", "run", enc_list(attached), enc_list(disk), enc_list([o])])


def _describe_seq(seq, upto: int, real) -> str:
    cdb, csc, storage, steps = seq
    parts = []
    n = 0
    for st, r in zip(steps, real["steps"]):
        if st[0] == "sql":
            parts.append(f"[other session] {st[1]}" + ("" if r["result"] == "ok" else f" ({r['result']})"))
        else:
            n += 1
            parts.append("connect(" + ", ".join([f"database={st[1]!r}"] * (st[1] is not None) + [f"schema={st[2]!r}"] * (st[2] is not None)) + ")")
            if n > upto:
                break
    return (f"patch(create_database_on_connect={cdb}, create_schema_on_connect={csc}, db_path={'<dir>' if storage != 'memory' else None}): "
            + " ; ".join(parts))


def _check_seq(chk, seq, real, replies) -> None:
    case = {"seq": [seq[0], seq[1], seq[2], [list(s) for s in seq[3]]]}
    chk.case(("seq", repr(seq)), nontrivial=True)
    if "harness_error" in real:
        chk.violation(f"sequence {seq}: setting up / observing failed: {real['harness_error']}", case, broken="C14 harness set-up (correspondence)")
        return
    connects = [r for r in real["steps"] if "connect" in r]
    for k, (r, reply) in enumerate(zip(connects, replies)):
        chk.count("seq-connect:" + ("repeat" if k else "first"))
        spec_outs, spec_world = _dec_run(reply["spec"])
        impl_outs, impl_world = _dec_run(reply["impl"])
        real_world = (r["post"][0], r["post"][1])
        bad = None
        if [r["out"]] != spec_outs:
            bad = f"gave {_show_out(r['out'])}, required {_show_out(spec_outs[0])}"
        elif real_world != spec_world:
            bad = f"left the catalogs (name, file-backed, schemas with content) / db files {real_world}, required {spec_world}"
        if bad:
            chk.violation(f"{_describe_seq(seq, k + 1, real)}: connect #{k + 1}, with the catalogs being {r['pre'][0]} just before it, {bad}", case,
                          broken="C14_conforms_partial/C14_frame for a repeat connect (correspondence with Fs.Connect.connect)")
            return
        if ([r["out"]], real_world) != (impl_outs, impl_world):
            chk.violation(f"{_describe_seq(seq, k + 1, real)}: connect #{k + 1} satisfies the specification but differs from the model of the code: "
                          f"{r['out']} {real_world} vs {impl_outs} {impl_world}", case, broken="correspondence Fs.Connect.connect", failing_input=False)
            return


def _sequences():
    """connect → the catalog is changed through another session → connect to the same target again (2-3 connects)"""
    seqs = []
    T = "create table DB1.S1.T as select 1 x"
    for cdb, csc, storage in itertools.product([True, False], [True, False], ["memory", "fresh"]):
        for d2, s2 in [("db1", "s1"), ("DB1", "S1"), ("Db1", "s1")]:
            c1, c2 = ["connect", "db1", "s1"], ["connect", d2, s2]
            seqs += [
                (cdb, csc, storage, [c1, ["sql", "drop schema DB1.S1"], c2]),
                (cdb, csc, storage, [c1, ["sql", T], ["sql", "drop schema DB1.S1"], c2, ["sql", "drop schema DB1.S1"], c2]),
                (cdb, csc, storage, [c1, ["sql", T], c2, ["sql", "drop table DB1.S1.T"], c2]),
                (cdb, csc, storage, [["connect", "db1", None], ["sql", "create schema DB1.S1"], c2, ["sql", "drop schema DB1.S1"], ["connect", d2, None]]),
                (cdb, csc, storage, [c1, ["sql", "create database DB1"], c2, ["sql", "create schema DB1.S1"], c2]),
                (cdb, csc, storage, [c1, ["sql", "drop schema DB1.S1"], ["sql", "create schema DB1.S2"], ["connect", d2, "s2"], c2]),
                (cdb, csc, storage, [["connect", None, "s1"], ["sql", "create database DB1"], ["sql", "create schema DB1.S1"], c2, ["connect", None, s2]]),
            ]
    return seqs


def run(chk) -> None:
    product, adversarial = _configs(chk)
    chk.rule = ("complete product database{absent,lower,UPPER,Mixed} × schema{absent,lower,UPPER,information_schema} × create_database × "
                "create_schema × storage{memory,fresh db_path,db_path with earlier session's files} × prior{nothing,db,db+schema+table} × "
                f"{{first,second connect}} = {len(product)} configurations, plus {len(adversarial)} adversarial ones (empty strings, built-in "
                "schema names, unrelated database, names with `_` beside look-alike existing names, another database holding a schema named like the requested one, databases named MAIN / PG_CATALOG / like another database's schema), plus sequences connect → DDL from another "
                "session (DROP/CREATE SCHEMA, CREATE DATABASE, CREATE/DROP TABLE) → connect to the same target again (2-3 connects, any letter case), "
                "each connect compared with the model started from the catalog observed just before it.  non-trivial = distinct configuration with a database argument")
    cfgs = product + adversarial
    shards = common.chunks(cfgs, 16)
    reals = common.shard_map(_worker, shards)
    for shard, rs in zip(shards, reals):
        replies = common.batch([_line(c) for c in shard])
        for cfg, r, m in zip(shard, rs, replies):
            if "impl" not in m:
                raise common.Infra(f"connect driver: {m}")
            _check(chk, cfg, r, m)
    # repeat connects after the catalog changed: each connect is compared with the model started from the catalog state observed before it
    seqs = _sequences()
    sshards = common.chunks(seqs, 16)
    sreals = common.shard_map(_seq_worker, sshards)
    for shard, rs in zip(sshards, sreals):
        lines, owners = [], []
        for i, (seq, r) in enumerate(zip(shard, rs)):
            for st in r.get("steps", []):
                if "connect" in st:
                    lines.append(_seq_line(seq, st))
                    owners.append(i)
        replies = common.batch(lines) if lines else []
        for i, (seq, r) in enumerate(zip(shard, rs)):
            _check_seq(chk, seq, r, [m for m, o in zip(replies, owners) if o == i])
    chk.extra["repeat_connect_sequences"] = len(seqs)
    chk.exhaustive = True
    chk.samples = [{"cfg": list(cfgs[i])} for i in (5, 300, 700, 1100, len(product) + 3)] + [{"seq": list(seqs[1])}]
    chk.extra["product_configurations"] = len(product)
    chk.extra["adversarial_configurations"] = len(adversarial)
    chk.assumptions = [
        "DuckDB: information_schema.schemata lists every attached catalog with its schemas; ATTACH of an existing file brings its schemas; "
        "CREATE SCHEMA in a missing catalog raises BinderException; SET schema is per cursor (modelled: dbExists/schemaExists/attachDb/addSchema/paths)",
        "database names equal to DuckDB's own catalogs (memory, system, temp) or fakesnow's _fs_global are outside the envelope",
        "names are ASCII (Python's str.upper is modelled on ASCII letters only)",
    ]
    chk.trusted += ["DuckDB catalog behaviour as modelled in Fs/Model/Connect.lean (attachDb, addSchema, dbExists, schemaExists)"]


def replay(chk, case) -> None:
    if "seq" in case:
        seq = (case["seq"][0], case["seq"][1], case["seq"][2], [list(x) for x in case["seq"][3]])
        real = _real_seq(seq)
        lines = [_seq_line(seq, st) for st in real.get("steps", []) if "connect" in st]
        _check_seq(chk, seq, real, common.batch(lines) if lines else [])
        return
    cfg = tuple(case["cfg"])
    real = _real(cfg)
    reply = common.batch([_line(cfg)])[0]
    _check(chk, cfg, real, reply)
