"""C01 — stored values read back unchanged, in the connector's Python types   (partial).

Correspondence between `Fs/Model/Types.lean` and the real in-process fake, on every run:

* type table, EXHAUSTIVE over the property's type spellings x a (p,s) grid: `typeof(col)` of a created column vs the model's
  `toDuck`, Python type of a fetched value vs `pyOf`/`connPy`;
* values: for every type, forced edge values (int64 / 38-digit extremes, max scale, denormal/huge doubles, empty/astral text,
  years 1 and 9999, pre-1970 microseconds, nested JSON with escapes) + random ones, written through each of the seven
  ingestion paths {literal, pyformat parameter, qmark parameter, INSERT…SELECT, CTAS, CLONE, write_pandas} with a NULL
  in a rotating position, read back and compared (value AND type) with the written Python value; `dom`/`duckDom` of the
  model decide which failures are the recorded int64 finding; a bystander table must stay unchanged;
* copy statements on integer tables with duplicates and NULLs vs the Lean `clone/ctas/insertSelect` (rows as multisets,
  reported count, source and bystander unchanged).
Not proved, only exercised here: DuckDB stores/returns what it is given; pyarrow conversions; pandas → DuckDB scan.
"""
from __future__ import annotations

import datetime
import decimal
import json
import os
import random
import struct
from decimal import Decimal

decimal.getcontext().prec = 120      # 38-digit values must not be rounded by the default 28-digit context

from lib import common
from lib.common import dec_list, enc_list

UTC = datetime.timezone.utc

NUMBER_GRID = [(38, 0), (38, 37), (10, 2), (18, 6), (1, 0), (5, 0), (38, 10), (9, 9), (20, 15), (12, 12), (15, 10), (30, 29)]
INT_FAMILY = ["INT", "INTEGER", "BIGINT", "SMALLINT", "TINYINT", "BYTEINT"]
FLOAT_FAMILY = ["FLOAT", "FLOAT4", "FLOAT8", "DOUBLE", "DOUBLE PRECISION", "REAL"]
TEXT_FAMILY = ["VARCHAR", "VARCHAR(2000)", "STRING", "TEXT", "CHAR(2000)"]
TS_FAMILY = ["TIMESTAMP_NTZ", "TIMESTAMP", "DATETIME", "TIMESTAMP_NTZ(9)"]
ALL_TYPES = (["BOOLEAN", "NUMBER", "DECIMAL", "NUMERIC"] + [f"NUMBER({p},{s})" for p, s in NUMBER_GRID] + ["DECIMAL(12,3)", "NUMERIC(20,0)"]
             + INT_FAMILY + FLOAT_FAMILY + TEXT_FAMILY + ["CHAR", "CHARACTER", "DATE", "TIME", "TIME(3)"] + TS_FAMILY
             + ["TIMESTAMP_TZ", "BINARY", "VARBINARY", "VARIANT", "OBJECT", "ARRAY"])
PATHS = ["literal", "execute_string", "pyformat", "qmark", "insert-select", "ctas", "clone", "write_pandas"]


def _family(ty: str) -> str:
    b = ty.split("(")[0]
    if b in ("NUMBER", "DECIMAL", "NUMERIC"):
        return "number"
    if b in INT_FAMILY:
        return "int"
    if b in FLOAT_FAMILY:
        return "float"
    if b in ("VARCHAR", "STRING", "TEXT", "CHAR", "CHARACTER"):
        return "text"
    if b in ("TIMESTAMP_NTZ", "TIMESTAMP", "DATETIME"):
        return "ntz"
    return {"BOOLEAN": "bool", "DATE": "date", "TIME": "time", "TIMESTAMP_TZ": "tz", "BINARY": "binary", "VARBINARY": "binary",
            "VARIANT": "json", "OBJECT": "json", "ARRAY": "json"}[b]


def _ps(ty: str) -> tuple[int, int]:
    if "(" not in ty:
        return 38, 0
    a = ty[ty.index("(") + 1:-1].split(",")
    return int(a[0]), int(a[1]) if len(a) > 1 else 0


JSON_DOCS = {
    "VARIANT": [{"k": [1, 2.5, "x", None, {"b": True}], "s": "é\"q\\u"}, [1, "a", None], "str", 1.5, True, {}, {"a": {"b": {"c": [[]]}}}, "it's"],
    "OBJECT": [{"a": 1}, {"k": "v", "n": {"m": [1, 2]}}, {}, {"q'uote": "b\\s"}],
    "ARRAY": [[1, 2], ["x", "y"], [], [[1], [2, [3]]], [{"a": None}]],
}


DOLLAR_TEXT = ["pay $amount now", "US$100", "$amount", "$AMOUNT$amount", "a$b_1 $x1 $$ $", "100% $amount %s"]


SCRIPT_TEXT = ["C:\\temp\\new", "ends with a backslash\\", "semi;colon; it's", "-- not a comment", "/* nor ; this */ '", "a\\'b", "\\n is two chars", "é😀; \"dq\""]


def _values(rnd, ty: str, n: int, dollar: bool = False, script: bool = False, nop: bool = False) -> list:
    """n Python values exactly representable in the Snowflake type, edges first"""
    fam = _family(ty)
    if fam == "bool":
        pool = [True, False]
    elif fam == "number":
        p, s = _ps(ty)
        mant = [10**p - 1, -(10**p - 1), 1, -1, 0, 10**(p - 1), rnd.randrange(10**p), -rnd.randrange(10**p)]
        pool = [m if s == 0 else Decimal(m).scaleb(-s) for m in mant]
    elif fam == "int":
        pool = [2**63 - 1, -(2**63), 0, 2**31, -(2**31) - 1, 2**15, 255, rnd.randrange(-10**15, 10**15), 2**63, 10**38 - 1, -(10**38 - 1)]
    elif fam == "float":
        pool = [0.1, 5e-324, 1.7976931348623157e308, -2.2250738585072014e-308, 1e-310, 123456789.123456789, -0.0, 0.0,
                struct.unpack(">d", struct.pack(">Q", rnd.randrange(1, 0x7FEFFFFFFFFFFFFF)))[0]]
    elif fam == "text":
        pool = ["", " ", "a", "é😀𝄞", "it's", "back\\slash", "line1\nline2\ttab", "%s ? $x ; -- /* */", "x" * 1000, "\"dq\"", "NULL"]
        if ty == "CHAR" or ty == "CHARACTER":
            pool = ["a", "é", ""]
        elif nop:
            pool = NOP_TEXT + ["", "é😀𝄞"]
        elif script:
            pool = SCRIPT_TEXT + pool
        elif dollar:
            # `$name` inside a bound value is data: never inlined, whether or not a session variable of that name exists
            pool = DOLLAR_TEXT + pool
    elif fam == "date":
        pool = [datetime.date(1, 1, 1), datetime.date(9999, 12, 31), datetime.date(1969, 12, 31), datetime.date(1970, 1, 1), datetime.date(2020, 2, 29),
                datetime.date.fromordinal(rnd.randrange(1, 3652059))]
    elif fam == "time":
        pool = [datetime.time(0, 0), datetime.time(23, 59, 59, 999999), datetime.time(12, 34, 56, 65), datetime.time(0, 0, 0, 1),
                datetime.time(rnd.randrange(24), rnd.randrange(60), rnd.randrange(60), rnd.randrange(10**6))]
    elif fam in ("ntz", "tz"):
        base = [datetime.datetime(1, 1, 1), datetime.datetime(9999, 12, 31, 23, 59, 59, 999999), datetime.datetime(1969, 12, 31, 23, 59, 59, 999999),
                datetime.datetime(1970, 1, 1), datetime.datetime(2020, 2, 29, 1, 2, 3, 65), datetime.datetime(1900, 1, 1, 0, 0, 0, 500000),
                datetime.datetime(1, 1, 1) + datetime.timedelta(microseconds=rnd.randrange(315537897599999999))]
        if fam == "ntz":
            pool = base
        else:
            offs = [0, 120, -480, 330]
            pool = [b.replace(tzinfo=UTC) for b in base[:2]] + \
                   [b.replace(tzinfo=datetime.timezone(datetime.timedelta(minutes=rnd.choice(offs)))) for b in base[2:]]
    elif fam == "binary":
        pool = [b"", b"AB", b"\x00\xff", bytes(rnd.randrange(256) for _ in range(20)), b"\x00" * 5]
    elif fam == "json":
        pool = list(JSON_DOCS[ty.split("(")[0]])
    else:
        raise AssertionError(ty)
    head = pool[: min(len(pool), n)]
    while len(head) < n:
        head.append(rnd.choice(pool))
    rnd.shuffle(head)
    return head


def _sf_str(s: str) -> str:
    return "'" + s.replace("\\", "\\\\").replace("'", "''").replace("\n", "\\n").replace("\t", "\\t") + "'"


def _literal(ty: str, v) -> str:
    fam = _family(ty)
    if v is None:
        return "NULL"
    if fam == "bool":
        return "true" if v else "false"
    if fam in ("number", "int"):
        return format(v, "f") if isinstance(v, Decimal) else str(v)
    if fam == "float":
        return repr(v)
    if fam == "text":
        return _sf_str(v)
    if fam == "date":
        return f"'{v.year:04d}-{v.month:02d}-{v.day:02d}'"
    if fam == "time":
        return f"'{v.strftime('%H:%M:%S')}.{v.microsecond:06d}'"
    if fam == "ntz":
        return f"'{v.year:04d}-{v.strftime('%m-%d %H:%M:%S')}.{v.microsecond:06d}'"
    if fam == "tz":
        off = v.utcoffset() // datetime.timedelta(minutes=1)
        sign = "+" if off >= 0 else "-"
        return f"'{v.year:04d}-{v.strftime('%m-%d %H:%M:%S')}.{v.microsecond:06d}{sign}{abs(off) // 60:02d}:{abs(off) % 60:02d}'"
    if fam == "binary":
        return f"unhex('{v.hex()}')"       # DuckDB function; only used to populate the SOURCE of the copy paths
    if fam == "json":
        return f"parse_json({_sf_str(json.dumps(v, ensure_ascii=False))})"
    raise AssertionError(ty)


def _canon(v):
    if v is None:
        return ["NoneType", None]
    if isinstance(v, bool):
        return ["bool", v]
    if isinstance(v, float):
        return ["float", struct.pack(">d", v).hex()]
    if isinstance(v, datetime.datetime):
        off = v.utcoffset()
        naive = (v - off).replace(tzinfo=None) if off is not None else v
        us = (naive - datetime.datetime(1970, 1, 1)) // datetime.timedelta(microseconds=1)
        return ["aware" if off is not None else "naive", [us, None if off is None else off // datetime.timedelta(minutes=1)]]
    if isinstance(v, (datetime.date, datetime.time)):
        return [type(v).__name__, v.isoformat()]
    if isinstance(v, Decimal):
        return ["Decimal", format(v, "f")]
    if isinstance(v, (bytes, bytearray)):
        return [type(v).__name__, bytes(v).hex()]
    if isinstance(v, (int, str)):
        return [type(v).__name__, v]
    return [type(v).__name__, repr(v)]


def _expected(ty: str, v):
    """the written value as the property wants it read back: canonical [pytype, value] (JSON: parsed document)"""
    fam = _family(ty)
    if v is None:
        return ["NoneType", None]
    if fam == "json":
        return ["str", v]
    if fam == "tz":
        c = _canon(v)
        return ["aware", [c[1][0], 0]]
    if fam == "number":
        p, s = _ps(ty)
        if s == 0:
            return ["int", int(v)]           # the connector's type for FIXED scale 0, however the value was written
        return ["Decimal", format(Decimal(v).quantize(Decimal(1).scaleb(-s)), "f")]
    return _canon(v)


# ------------------------------------------------------------------------------------------------
# real runs (worker)
# ------------------------------------------------------------------------------------------------

def _run_case(conns, case) -> dict:
    import pandas as pd
    import snowflake.connector.pandas_tools as pt
    ty, path, vals = case["ty"], case["path"], case["vals"]
    if path == "http":
        # read path through fakesnow.server.app + the real connector (the arrow wire encoding itself is decided by C17)
        if "http" not in conns:
            from props import c17
            c17.NET_TIMEOUT["s"] = 30
            conns["http"] = c17._http_conn(db_path=":isolated:", database="DB3", schema="S1")
        conn = conns["http"]
    else:
        conn = conns["qmark"] if path == "qmark" else conns["py"]
    cur = conn.cursor()
    out = {"err": None}
    setvar = case.get("setvar")
    try:
        if setvar:
            cur.execute("set amount = 5")
        elif setvar is False:
            try:
                cur.execute("unset amount")
            except Exception:
                pass
        cur.execute("create or replace table BY (x int, y varchar)")
        cur.execute("insert into BY values (7, 'by'), (NULL, NULL)")
        tgt_cols = f"(id int, c {ty})"
        fam = _family(ty)
        if path == "write_pandas":
            # a quoted, lower-case column name with a space: `_insert_df` must insert by quoted column name
            cur.execute(f'create or replace table T (id int, c {ty}, "k w" varchar)')
        elif path in ("literal", "http", "execute_string", "pyformat", "qmark"):
            cur.execute(f"create or replace table T {tgt_cols}")
        stage = path in ("insert-select", "ctas", "clone")
        if stage:
            cur.execute(f"create or replace table S {tgt_cols}")
            cur.execute("drop table if exists T")
        counts = []
        if path in ("literal", "http") or stage:
            t = "S" if stage else "T"
            for i, v in enumerate(vals):
                cur.execute(f"insert into {t} values ({i + 1}, {_literal(ty, v)})")
                counts.append(cur.fetchall()[0][0])
        elif path == "execute_string":
            # one script: several INSERT statements with literals, separators and comments in between
            seps = [";\n", "; -- trailing ; comment\n", ";\n/* block ; comment */ ", ";  "]
            script = "".join(f"insert into T values ({i + 1}, {_literal(ty, v)})" + seps[i % len(seps)] for i, v in enumerate(vals))
            curs = list(conn.execute_string(script))
            out["script_cursors"] = len(curs)
            counts = [c.fetchall()[0][0] for c in curs]
        elif path in ("pyformat", "qmark"):
            ph = "%s" if path == "pyformat" else "?"
            for i, v in enumerate(vals):
                pv = v
                expr = ph
                if fam == "json" and v is not None:
                    pv, expr = json.dumps(v, ensure_ascii=False), f"parse_json({ph})"
                if fam == "json":
                    cur.execute(f"insert into T select {ph}, {expr}", (i + 1, pv))
                else:
                    cur.execute(f"insert into T values ({ph}, {ph})", (i + 1, pv))
                counts.append(cur.fetchall()[0][0])
        elif path == "write_pandas":
            if fam == "number":
                vals = [None if v is None else Decimal(v) for v in vals]      # exact objects; bare ints beyond int64 cannot be put in a dataframe/parquet column
            df = pd.DataFrame({"k w": [f"kw{i}" for i in range(len(vals))], "ID": list(range(1, len(vals) + 1)),
                               "C": pd.Series(list(vals), dtype=None if fam not in ("json", "text", "binary", "bool", "number", "date", "time", "tz") else object)})
            kw = dict(case.get("wp_kwargs") or {})
            if kw.get("chunk_size") == "len-1":
                kw["chunk_size"] = max(1, len(df) - 1)
            elif kw.get("chunk_size") == "len":
                kw["chunk_size"] = len(df)
            elif kw.get("chunk_size") == "len+1":
                kw["chunk_size"] = len(df) + 1
            if kw.get("auto_create_table"):
                # the table is created by write_pandas itself (its column list is not quoted, so no `"k w"` column here)
                cur.execute("drop table T")
                df = df[["ID", "C"]]
            ok, nchunks, nrows, _ = pt.write_pandas(conn, df, "T", **kw)
            out["wp"] = [bool(ok), int(nrows)]
            if kw.get("auto_create_table"):
                out["kw"] = [f"kw{i}" for i in range(len(vals))]
            else:
                cur.execute('select "k w" from T order by id')
                out["kw"] = [r[0] for r in cur.fetchall()]
        if path == "insert-select":
            cur.execute(f"create or replace table T {tgt_cols}")
            cur.execute("insert into T select * from S")
            out["copy_count"] = cur.fetchall()[0][0]
            out["copy_rowcount"] = cur.rowcount
        elif path == "ctas":
            cur.execute("create table T as select * from S")
            out["copy_status"] = cur.fetchall()[0][0]
        elif path == "clone":
            cur.execute("create table T clone S")
            out["copy_status"] = cur.fetchall()[0][0]
        out["counts"] = counts
        cur.execute("select id, c from T order by id")
        out["rows"] = [[r[0], _canon(r[1])] for r in cur.fetchall()]
        # the same result through the other fetch shapes: every written row exactly once whatever the shape
        shapes = {}
        if path != "http":      # the other fetch shapes of the fake cursor (the real connector's own cursor is not under test)
            asz = 2 + (len(vals) % 2)
            c2 = conn.cursor()
            c2.execute("select id, c from T order by id")
            c2.arraysize = asz
            got = []
            while (r := c2.fetchone()) is not None and len(got) < 100:
                got.append([r[0], _canon(r[1])])
            shapes[f"fetchone-loop(arraysize={asz})"] = got
            c2.execute("select id, c from T order by id")
            got = []
            while (chunk := c2.fetchmany(asz)) and len(got) < 100:
                got += [[r[0], _canon(r[1])] for r in chunk]
            shapes[f"fetchmany({asz})-loop"] = got
            c2.execute("select id, c from T order by id")
            c2.arraysize = 3
            got = [[r[0], _canon(r[1])] for r in (c2.fetchmany() + c2.fetchall())]
            shapes["fetchmany()+fetchall"] = got
            # reading cursor.description between fetches must not move (or reset) the read position (C06_describe_pure)
            c2.execute("select id, c from T order by id")
            c2.arraysize = 1
            first = c2.fetchone()
            _ = c2.description
            mid = c2.fetchmany(1)
            _ = c2.description
            got = [[r[0], _canon(r[1])] for r in (([first] if first is not None else []) + mid + c2.fetchall())]
            shapes["fetchone, description, fetchmany(1), description, fetchall"] = got
            c2.execute("select id from T order by id")
            shapes["fetch_pandas_all(ids)"] = [int(x) for x in c2.fetch_pandas_all()["ID"].tolist()]
        out["shapes"] = shapes
        try:
            d = cur.description[1]
            out["descr"] = [d.type_code, d.precision, d.scale]
        except Exception as e:
            out["descr"] = ["raises", type(e).__name__, None]
        out["raw_json"] = None
        if fam == "json":
            out["raw_json"] = [r[1][1] for r in out["rows"]]
        cur.execute("select typeof(c) from T limit 1")
        out["typeof"] = [r[0] for r in cur.fetchall()]
        if stage:
            cur.execute("select id, c from S order by id")
            out["src_rows"] = [[r[0], _canon(r[1])] for r in cur.fetchall()]
        cur.execute("select x, y from BY order by x nulls last")
        out["by"] = [list(r) for r in cur.fetchall()]
    except Exception as e:
        out["err"] = [type(e).__name__, str(e)[:200]]
    finally:
        if setvar:
            try:
                cur.execute("unset amount")
            except Exception:
                pass
    return out


def _run_copy(conns, case) -> dict:
    """integer tables (ID, A, B) with duplicates and NULLs"""
    cur = conns["py"].cursor()
    op, k, src, tgt = case["op"], case["k"], case["src"], case["tgt"]

    def lit(r):
        return "(" + ", ".join("NULL" if c is None else str(c) for c in r) + ")"
    out = {"err": None}
    try:
        for t, rows in (("SRC", src), ("TGT", tgt)):
            cur.execute(f"create or replace table {t} (id int, a int, b int)")
            if rows:
                cur.execute(f"insert into {t} values " + ", ".join(lit(r) for r in rows))
        cur.execute("create or replace table BY (x int)")
        cur.execute("insert into BY values (7), (NULL)")
        cur.execute("drop table if exists NEW")
        if op == "clone":
            cur.execute("create table NEW clone SRC")
            res = "NEW"
        elif op == "ctas":
            cur.execute(f"create table NEW as select * from SRC where id <= {k}")
            res = "NEW"
        else:
            cur.execute(f"insert into TGT select * from SRC where id <= {k}")
            out["count"] = cur.fetchall()[0][0]
            out["rowcount"] = cur.rowcount
            res = "TGT"
        for key, t in (("out", res), ("src", "SRC"), ("by", "BY")):
            cur.execute(f"select * from {t}")
            out[key] = sorted(",".join("-" if c is None else str(c) for c in r) for r in cur.fetchall())
    except Exception as e:
        out["err"] = [type(e).__name__, str(e)[:200]]
    return out


NOP_REGEXES = [r"CALL\s", r"GRANT\s"]        # un-anchored: `re.match` applies them at the start of the statement only
NOP_TEXT = ["remember to call Bob", "grant approved", "CALL me maybe", "recall\tGRANT x", "they call\nus", "I grant  you"]


def _run_ctx(conns, case) -> dict:
    """USE SCHEMA s; USE DATABASE other; USE SCHEMA s (same text) — then an unqualified write must land in OTHER.s, nowhere else"""
    import pandas as pd
    import snowflake.connector.pandas_tools as pt
    conn = conns["py"]
    cur = conn.cursor()
    path, vals = case["path"], case["vals"]
    out = {"err": None}
    try:
        cur.execute("create database if not exists DBX")
        cur.execute("create schema if not exists DBX.S1")
        cur.execute("use database DB2")
        cur.execute("use schema S1")
        for db in ("DB2", "DBX"):
            cur.execute(f"create or replace table {db}.S1.W (id int, c varchar)")
            cur.execute(f"create or replace table {db}.S1.SRC (id int, c varchar)")
            cur.execute(f"drop table if exists {db}.S1.W2")
        cur.execute("insert into DB2.S1.SRC values (900, 'src-of-db2')")
        for i, v in enumerate(vals):
            cur.execute(f"insert into DBX.S1.SRC values ({i + 1}, {_literal('VARCHAR', v)})")
        cur.execute("use schema S1")          # same text as below, while the current database is DB2
        cur.execute("use database DBX")
        cur.execute("use schema S1")          # must now mean DBX.S1
        cur.execute("select current_database(), current_schema()")
        out["ctx"] = list(cur.fetchall()[0])
        out["conn_ctx"] = [conn.database, conn.schema]
        tgt = "W"
        if path == "literal":
            for i, v in enumerate(vals):
                cur.execute(f"insert into W values ({i + 1}, {_literal('VARCHAR', v)})")
        elif path == "pyformat":
            for i, v in enumerate(vals):
                cur.execute("insert into W values (%s, %s)", (i + 1, v))
        elif path == "insert-select":
            cur.execute("insert into W select * from SRC")
        elif path == "ctas":
            cur.execute("create table W2 as select * from SRC")
            tgt = "W2"
        elif path == "write_pandas":
            pt.write_pandas(conn, pd.DataFrame({"ID": list(range(1, len(vals) + 1)), "C": pd.Series(list(vals), dtype=object)}), "W")
        for key, q in (("landed", f"select id, c from DBX.S1.{tgt} order by id"), ("other", f"select id, c from DB2.S1.{tgt} order by id")):
            try:
                cur.execute(q)
                out[key] = [[r[0], _canon(r[1])] for r in cur.fetchall()]
            except Exception as e:
                out[key] = ["missing", type(e).__name__]
    except Exception as e:
        out["err"] = [type(e).__name__, str(e)[:200]]
    finally:
        try:
            cur.execute("use database DB2")
            cur.execute("use schema S1")
        except Exception:
            pass
    return out


def _run_wpq(conns, case) -> dict:
    """write_pandas with database=/schema= arguments naming a schema other than the current one, with and without auto_create_table"""
    import pandas as pd
    import snowflake.connector.pandas_tools as pt
    conn = conns["py"]              # current context DB2.S1
    cur = conn.cursor()
    vals, db, sch = case["vals"], case["database"], case["schema"]
    tdb, tsch = db or "DB2", sch or "S1"
    out = {"err": None}
    try:
        cur.execute("use database DB2")
        cur.execute("use schema S1")
        cur.execute(f"create database if not exists {tdb}")
        cur.execute(f"create schema if not exists {tdb}.{tsch}")
        for loc in (f"{tdb}.{tsch}", "DB2.S1"):
            cur.execute(f"drop table if exists {loc}.TQ")
        if case["precreate"]:
            cur.execute(f"create table {tdb}.{tsch}.TQ (ID int, C varchar)")
        cur.execute("show tables in schema DB2.S1")
        before = sorted(r[1] for r in cur.fetchall())
        df = pd.DataFrame({"ID": list(range(1, len(vals) + 1)), "C": pd.Series(list(vals), dtype=object)})
        kw = {"auto_create_table": case["auto"]}
        if db:
            kw["database"] = db
        if sch:
            kw["schema"] = sch
        if case.get("chunk_size"):
            kw["chunk_size"] = case["chunk_size"]
        ok, _, nrows, _ = pt.write_pandas(conn, df, "TQ", **kw)
        out["wp"] = [bool(ok), int(nrows)]
        cur.execute(f"select id, c from {tdb}.{tsch}.TQ order by id")
        out["rows"] = [[int(r[0]), _canon(r[1])] for r in cur.fetchall()]
        cur.execute("show tables in schema DB2.S1")
        out["new_tables_in_current_schema"] = sorted(set(r[1] for r in cur.fetchall()) - set(before))
        cur.execute("select current_database(), current_schema()")
        out["ctx"] = list(cur.fetchall()[0])
    except Exception as e:
        out["err"] = [type(e).__name__, str(e)[:200]]
    return out


def _check_wpq(chk, case, real):
    chk.count("write_pandas-qualified:" + ("auto" if case["auto"] else "existing"))
    chk.case(("wpq", repr(case)), nontrivial=True)
    rcase = dict(case, kind="wpq")
    tgt = f"{case['database'] or 'DB2'}.{case['schema'] or 'S1'}"
    what = (f"write_pandas(df[{len(case['vals'])} rows], 'TQ', database={case['database']!r}, schema={case['schema']!r}, auto_create_table={case['auto']}) "
            f"on a connection whose current schema is DB2.S1 (target {tgt}.TQ {'exists' if case['precreate'] else 'does not exist'})")
    exp = [[i + 1, _canon(v)] for i, v in enumerate(case["vals"])]
    own = tgt == "DB2.S1" and not case["precreate"]        # the only table that may appear in the current schema: the target itself, when it is created there
    if real["err"] is not None:
        chk.violation(f"{what}: {real['err'][0]}: {real['err'][1]}", rcase, broken="C01 write_pandas: every written row read back from the table it was written to")
    elif real["rows"] != exp or real["wp"] != [True, len(exp)]:
        chk.violation(f"{what}: {tgt}.TQ holds {real['rows']} (expected {exp}), returned {real['wp']}", rcase, broken="C01 write_pandas: every written row exactly once")
    elif real["new_tables_in_current_schema"] != (["TQ"] if own else []) or real["ctx"] != ["DB2", "S1"]:
        chk.violation(f"{what}: tables that appeared in the current schema DB2.S1: {real['new_tables_in_current_schema']} (expected {['TQ'] if own else []}), context {real['ctx']}", rcase,
                      broken="C01 no other row or table changes (write_pandas created a stray table)")


def _check_ctx(chk, case, real):
    chk.count("ctx:" + case["path"])
    chk.case(("ctx", case["path"], repr(case["vals"])), nontrivial=True)
    rcase = {"kind": "ctx", "path": case["path"], "vals": case["vals"]}
    what = f"USE SCHEMA S1; USE DATABASE DBX; USE SCHEMA S1; then {case['path']} write of {case['vals']!r} into the unqualified table"
    exp = [[i + 1, _canon(v)] for i, v in enumerate(case["vals"])]
    other_exp = ["missing", "ProgrammingError"] if case["path"] == "ctas" else []
    if real["err"] is not None:
        chk.violation(f"{what}: {real['err'][0]}: {real['err'][1]}", rcase, broken="C01 rows land in the current schema only (context resolution: C03)")
    elif real["ctx"] != ["DBX", "S1"] or real["conn_ctx"] != ["DBX", "S1"]:
        chk.violation(f"{what}: current_database()/current_schema() = {real['ctx']}, conn = {real['conn_ctx']}, expected DBX.S1", rcase,
                      broken="C01 rows land in the current schema only (context resolution: C03)")
    elif real["landed"] != exp or real["other"] != other_exp:
        chk.violation(f"{what}: DBX.S1 holds {real['landed']} (expected {exp}), the same-named table in DB2.S1 holds {real['other']} (expected {other_exp})", rcase,
                      broken="C01 every written row exactly once and no other table changes (context resolution: C03)")


def _run_persist(case) -> dict:
    """write through one instance with db_path, read back through a second instance that spells the database differently"""
    import shutil
    import tempfile

    import fakesnow
    import snowflake.connector
    ty, vals = case["ty"], case["vals"]
    out = {"err": None}
    d = tempfile.mkdtemp(prefix="c01-persist-")
    try:
        with fakesnow.patch(db_path=d):
            conn = snowflake.connector.connect(database=case["spell_w"], schema="s1")
            cur = conn.cursor()
            cur.execute(f"create table T (id int, c {ty})")
            for i, v in enumerate(vals):
                cur.execute(f"insert into T values ({i + 1}, {_literal(ty, v)})")
            cur.execute("select id, c from T order by id")
            out["written"] = [[r[0], _canon(r[1])] for r in cur.fetchall()]
            conn.close()
        with fakesnow.patch(db_path=d):
            conn = snowflake.connector.connect(database=case["spell_r"], schema="S1")
            cur = conn.cursor()
            cur.execute("select id, c from T order by id")
            out["rows"] = [[r[0], _canon(r[1])] for r in cur.fetchall()]
            conn.close()
    except Exception as e:
        out["err"] = [type(e).__name__, str(e)[:200]]
    finally:
        shutil.rmtree(d, ignore_errors=True)
    return out


TZ_SHAPES = ["connect-creates-db", "connect-bare-then-create-database", "no-create-on-connect"]
PROCESS_TZ = "Australia/Sydney"


def _tz_child():
    """entry point of a child process started with a non-UTC TZ: runs value cases on instances set up in three ways"""
    import sys

    import fakesnow
    import snowflake.connector
    decimal.getcontext().prec = 120
    cases = json.loads(sys.stdin.read())
    out = []
    for c in cases:
        c["vals"] = [_deser(v) for v in c["vals"]]
        shape = c["tz_shape"]
        try:
            kw = {"create_database_on_connect": False, "create_schema_on_connect": False} if shape == "no-create-on-connect" else {}
            with fakesnow.patch(**kw):
                if shape == "connect-creates-db":
                    conn = snowflake.connector.connect(database="TZD", schema="S1")
                else:
                    conn = snowflake.connector.connect() if shape == "connect-bare-then-create-database" else snowflake.connector.connect(database="TZD", schema="S1")
                    cur = conn.cursor()
                    for q in ("create database TZD", "create schema TZD.S1", "use database TZD", "use schema S1"):
                        cur.execute(q)
                out.append(_run_case({"py": conn, "qmark": conn}, c))
        except Exception as e:
            out.append({"err": [type(e).__name__, str(e)[:200]]})
    sys.stdout.write("\n@@TZ-RESULT@@" + json.dumps(out))


def _run_tz_child(cases) -> list:
    import subprocess
    import sys
    here = str(common.VERIF / "harness")
    env = dict(os.environ, TZ=PROCESS_TZ)
    payload = json.dumps([dict(c, vals=[_ser(v) for v in c["vals"]]) for c in cases])
    p = subprocess.run([sys.executable, "-c", f"import sys; sys.path.insert(0, {here!r}); from props import c01; c01._tz_child()"],
                       input=payload, capture_output=True, text=True, env=env, timeout=300)
    if "@@TZ-RESULT@@" not in p.stdout:
        raise common.Infra("time-zone child failed: " + (p.stderr or p.stdout)[-400:])
    return json.loads(p.stdout.split("@@TZ-RESULT@@", 1)[1])


def _worker(shard):
    import fakesnow
    import snowflake.connector
    decimal.getcontext().prec = 120
    res = [None] * len(shard)

    def phase(idx, **patch_kw):
        if not idx:
            return
        with fakesnow.patch(**patch_kw):
            snowflake.connector.paramstyle = "qmark"
            try:
                q = snowflake.connector.connect(database="DB1", schema="S1")
            finally:
                snowflake.connector.paramstyle = "pyformat"
            conns = {"py": snowflake.connector.connect(database="DB2", schema="S1"), "qmark": q}
            for i in idx:
                case = shard[i]
                res[i] = _run_copy(conns, case) if case["kind"] == "copy" else (_run_ctx(conns, case) if case["kind"] == "ctx" else (_run_wpq(conns, case) if case["kind"] == "wpq" else _run_case(conns, case)))

    phase([i for i, c in enumerate(shard) if c["kind"] in ("value", "copy", "ctx", "wpq") and not c.get("nop")])
    # an instance configured with un-anchored nop_regexes: only statements that START with a match are no-ops
    phase([i for i, c in enumerate(shard) if c.get("nop")], nop_regexes=NOP_REGEXES)
    for i, c in enumerate(shard):
        if c["kind"] == "persist":
            res[i] = _run_persist(c)
    return res


# ------------------------------------------------------------------------------------------------
# cases
# ------------------------------------------------------------------------------------------------

def _cases(chk, rnd) -> list[dict]:
    cases = []
    for f in sorted((common.CORPUS / "C01").glob("*.json")):       # committed corpus first
        c = json.loads(f.read_text())
        if c.get("kind") == "value":
            c["vals"] = [_deser(v) for v in c["vals"]]
        cases.append(c)
    per = 3 if chk.tier == "quick" else 12
    for ty in ALL_TYPES:
        for path in PATHS:
            for rep in range(per):
                fam = _family(ty)
                dollar = fam == "text" and path in ("pyformat", "qmark", "write_pandas", "insert-select", "ctas", "clone")
                vals = _values(rnd, ty, 4, dollar=dollar and path in ("pyformat", "qmark", "write_pandas"), script=path == "execute_string")
                if path == "write_pandas" and fam == "int":
                    vals = [v for v in vals if -(2**63) <= v < 2**63] or [0]      # an int64 dataframe column cannot hold more
                    nullpos = None       # nor a NULL
                else:
                    nullpos = rnd.randrange(len(vals) + 1)
                if path == "write_pandas" and fam == "json":
                    # _insert_df encodes dict/list cells only (it cannot know the column is VARIANT): scalar documents are outside the envelope
                    vals = [v for v in vals if isinstance(v, (dict, list))] or [{"a": 1}]
                if nullpos is not None:
                    vals.insert(nullpos, None)
                case = {"kind": "value", "ty": ty, "path": path, "vals": vals}
                if path == "write_pandas":
                    # documented keyword options fakesnow accepts; every row must arrive whatever the chunking
                    case["wp_kwargs"] = {"chunk_size": rnd.choice([1, 2, 3, "len-1", "len", "len+1", None])}
                    if rnd.random() < 0.3:
                        case["wp_kwargs"].update(rnd.choice([{"quote_identifiers": True}, {"parallel": 1}, {"compression": "snappy"}, {"on_error": "continue"}]))
                if dollar:
                    case["setvar"] = rnd.choice([True, True, False])     # a session variable `amount` is SET on the connection / not set
                cases.append(case)
    # a share of the cases on an instance with un-anchored nop_regexes; the written text contains the pattern words
    for ty in ("VARCHAR", "STRING", "VARIANT", "NUMBER(10,2)"):
        for path in PATHS:
            for rep in range(1 if chk.tier == "quick" else 4):
                fam = _family(ty)
                if fam == "json":
                    vals = [{"note": rnd.choice(NOP_TEXT)}, [rnd.choice(NOP_TEXT), 1], {"call ": "grant "}]
                else:
                    vals = _values(rnd, ty, 4, nop=fam == "text")
                vals.insert(rnd.randrange(len(vals) + 1), None)
                cases.append({"kind": "value", "ty": ty, "path": path, "vals": vals, "nop": True})
    # context slice: the same `USE SCHEMA` text before and after `USE DATABASE`, then an unqualified write per path
    for path in ("literal", "pyformat", "insert-select", "ctas", "write_pandas"):
        for rep in range(1 if chk.tier == "quick" else 3):
            cases.append({"kind": "ctx", "path": path, "vals": [rnd.choice(["a", "é😀", "it's", "x" * 50]) for _ in range(rnd.randint(1, 3))]})
    # write_pandas naming its target with database= / schema= (other than the current schema), table auto-created or existing
    for db, sch in ((None, "WPQ"), ("DB2", "WPQ"), ("DBX", "S1"), ("DBX", "WPQ2"), (None, None)):
        for auto, pre in ((True, False), (True, True), (False, True)):
            if chk.tier == "quick" and rnd.random() < 0.35:
                continue
            cases.append({"kind": "wpq", "database": db, "schema": sch, "auto": auto, "precreate": pre, "chunk_size": rnd.choice([None, 1, 2]),
                          "vals": [rnd.choice(["a", "", "é😀", None, "it's"]) for _ in range(rnd.randint(1, 4))]})
    # auto_create_table with chunking
    for cs in (1, 2, None):
        cases.append({"kind": "value", "ty": "VARCHAR", "path": "write_pandas", "vals": _values(rnd, "VARCHAR", 5), "wp_kwargs": {"chunk_size": cs, "auto_create_table": True}})
    # HTTP read slice: written and read back through fakesnow.server.app with the real connector (wire encoding itself: C17)
    for ty in ("TIMESTAMP_NTZ", "TIMESTAMP_TZ", "TIME", "DATE", "NUMBER(38,10)", "NUMBER(12,12)", "FLOAT", "VARCHAR"):
        for rep in range(1 if chk.tier == "quick" else 4):
            vals = _values(rnd, ty, 5)
            if _family(ty) == "ntz":
                vals[0] = datetime.datetime(1969, 12, 31, 23, 59, 59, 500000)      # pre-1970 with a sub-second part
            vals.insert(rnd.randrange(len(vals) + 1), None)
            cases.append({"kind": "value", "ty": ty, "path": "http", "vals": vals})
    # persistence slice: written through one instance with db_path, read through a second one under another spelling of the database name
    spells = [("sales", "SALES"), ("SALES", "sales"), ("Sales", "sAlEs"), ("sales", "sales")]
    for i, (w, r) in enumerate(spells if chk.tier == "quick" else spells * 4):
        ty = ["NUMBER(38,10)", "TIMESTAMP_NTZ", "VARCHAR", "FLOAT"][i % 4]
        cases.append({"kind": "persist", "ty": ty, "vals": _values(rnd, ty, 3) + [None], "spell_w": w, "spell_r": r})
    # all-NULL and empty variants for a few types
    for ty in ("NUMBER(10,2)", "VARCHAR", "TIMESTAMP_TZ", "VARIANT", "INT"):
        for path in ("literal", "clone", "ctas", "insert-select"):
            cases.append({"kind": "value", "ty": ty, "path": path, "vals": [None, None]})
    ncopy = 300 if chk.tier == "quick" else 3000
    for _ in range(ncopy):
        def rows(n):
            pool = [[rnd.choice([1, 2, 3, None]), rnd.choice([None, 5, 6]), rnd.choice([None, 0, 9])] for _ in range(3)]
            return [list(rnd.choice(pool)) for _ in range(n)]
        cases.append({"kind": "copy", "op": rnd.choice(["clone", "ctas", "ins"]), "k": rnd.randint(0, 3),
                      "src": rows(rnd.randint(0, 6)), "tgt": rows(rnd.randint(0, 3))})
    return cases


def _val_token(ty: str, v) -> str | None:
    fam = _family(ty)
    if v is None:
        return None
    if fam == "bool":
        return f"bool:{1 if v else 0}"
    if fam == "number":
        p, s = _ps(ty)
        m = int(Decimal(v).scaleb(s)) if isinstance(v, Decimal) else int(v) * 10**s
        return f"num:{m}:{s}"
    if fam == "int":
        return f"num:{v}:0"
    if fam == "float":
        return f"dbl:{struct.unpack('>Q', struct.pack('>d', v))[0]}"
    if fam == "text":
        return "str"
    if fam == "date":
        return f"date:{(v - datetime.date(1970, 1, 1)).days}"
    if fam == "time":
        return f"time:{((v.hour * 60 + v.minute) * 60 + v.second) * 10**6 + v.microsecond}"
    if fam in ("ntz", "tz"):
        return f"ts:{_canon(v)[1][0]}"
    if fam == "binary":
        return f"bin:{len(v)}"
    return "json"


BY_EXPECT = [[7, "by"], [None, None]]
FIELD_CODES = {"fixed": 0, "real": 1, "text": 2, "date": 3, "variant": 5, "timestamp_tz": 7, "timestamp_ntz": 8, "binary": 11, "time": 12, "boolean": 13}


def _check_value(chk, case, real, tyrep, fitreps):
    ty, path, vals = case["ty"], case["path"], case["vals"]
    fam = _family(ty)
    plabel = path + (f" [process TZ={PROCESS_TZ}, instance set up by {case['tz_shape']}]" if case.get("tz_shape") else "")
    chk.count(f"path:{path}")
    chk.count(f"family:{fam}")
    if case.get("nop"):
        chk.count("nop-regexes-instance")
    chk.case((ty, path, repr(vals)), nontrivial=any(v is not None for v in vals),
             sample={"type": ty, "path": path, "values": [repr(v)[:40] for v in vals]} if path == "clone" and fam in ("tz", "number") else None)
    rcase = {"kind": "value", "ty": ty, "path": path, "vals": [_ser(v) for v in vals]}
    if case.get("nop"):
        rcase["nop"] = True
    if case.get("tz_shape"):
        rcase["tz_shape"] = case["tz_shape"]
        rcase["process_TZ"] = PROCESS_TZ
    if case.get("wp_kwargs"):
        rcase["wp_kwargs"] = case["wp_kwargs"]
        chk.count("write_pandas:chunk_size=" + str(case["wp_kwargs"].get("chunk_size")))
    if "setvar" in case:
        rcase["setvar"] = case["setvar"]
        chk.count("dollar-text:" + ("var-set" if case["setvar"] else "var-unset"))
    if tyrep.get("kind") != "ok":
        chk.violation(f"type {ty} not in the model", rcase, broken="C01_types_supported", failing_input=False)
        return
    # values outside the DuckDB domain (the int64 finding): the write is expected to fail
    unfit = [(v, r) for v, r in zip(vals, fitreps) if r is not None and r.get("fits") == "0"]
    for v, r in zip(vals, fitreps):
        if r is not None and r.get("dom") != "1":
            chk.violation(f"generator produced {v!r} outside dom({ty})", rcase, broken="dom (harness generator)", failing_input=False)
            return
    if fam == "binary" and path in ("literal", "pyformat", "qmark"):
        # no literal / bound-parameter form stores given bytes (hex literals are read as integers): recorded, outside the envelope
        wrote = real["err"] is None and [r[1] for r in real.get("rows", [])] == [_expected(ty, v) for v in vals]
        if path == "literal":
            return      # `unhex()` is a DuckDB helper, not a Snowflake literal: nothing to conclude
        if not wrote:
            chk.finding("C01/binary-param-hex-integer", f"{ty} via {plabel} parameter {vals!r}: {real['err'] or real.get('rows')}", rcase)
        return
    if real["err"] is not None and path == "pyformat" and fam == "number" and real["err"][0] == "ConversionException":
        decs = [v for v in vals if isinstance(v, Decimal)]
        reps = common.batch([f"types\tdecstr\t{len(v.as_tuple().digits)}\t{v.as_tuple().exponent}" for v in decs]) if decs else []
        sci = [v for v, r in zip(decs, reps) if r.get("accepted") == "0"]
        if sci and all(("E" in str(v)) for v in sci):
            chk.finding("C01/decimal-param-exponent", f"{ty} via pyformat: Decimal parameter {sci[0]!r} is bound as the text '{sci[0]}' which DuckDB cannot cast: {real['err'][1][:80]}", rcase)
            return
    if real["err"] is not None:
        if unfit and all(r.get("finding") == "C01/int-family-int64" for _, r in unfit) and real["err"][0] in ("ConversionException", "ProgrammingError", "OverflowError", "ArrowInvalid", "InvalidInputException"):
            chk.finding("C01/int-family-int64", f"{ty} via {plabel}: value {unfit[0][0]} is in the Snowflake domain but does not fit BIGINT: {real['err']}", rcase)
        else:
            chk.violation(f"{ty} via {plabel}, values {vals!r}: {real['err'][0]}: {real['err'][1]}", rcase, broken="C01_width_partial (value not accepted)")
        return
    if unfit:
        chk.notes.append(f"int64 finding did not reproduce for {ty} {unfit[0][0]}") if len(chk.notes) < 5 else None
    want_duck = tyrep["duck"]
    if real["typeof"] and real["typeof"][0] != want_duck:
        chk.violation(f"column `c {ty}` written via {plabel} is stored as DuckDB {real['typeof'][0]}, the model's toDuck says {want_duck}", rcase,
                      broken="C01_width_partial (correspondence with toDuck)")
        return
    dn = tyrep["descr"].split(",")
    want_descr = [FIELD_CODES.get(dn[0]), None if dn[1] == "-" else int(dn[1]), None if dn[2] == "-" else int(dn[2])]
    if real.get("descr") != want_descr:
        chk.violation(f"column `c {ty}` written via {plabel}: cursor.description reports (type_code, precision, scale) = {real.get('descr')}, "
                      f"the model's sfDescr(toDuck) says {want_descr}" + (f" (declared: {tyrep['decl']})" if tyrep.get("decl", "-") != "-" else ""), rcase,
                      broken="C01_description_numeric (correspondence with sfDescr)")
        return
    if real["by"] != BY_EXPECT:
        chk.violation(f"{ty} via {plabel}: bystander table changed to {real['by']}", rcase, broken="C01_clone/C01_ctas/C01_insert_select (frame)")
        return
    exp = [[i + 1, _expected(ty, v)] for i, v in enumerate(vals)]
    got = real["rows"]
    if len(got) != len(exp) or [g[0] for g in got] != [e[0] for e in exp]:
        chk.violation(f"{ty} via {plabel}: wrote ids {[e[0] for e in exp]}, read back {[g[0] for g in got]} (every row exactly once)", rcase,
                      broken="C01_clone/C01_insert_select (rows)")
        return
    for name, rows in (real.get("shapes") or {}).items():
        want = [g[0] for g in got] if name.startswith("fetch_pandas_all") else got
        if rows != want:
            chk.violation(f"{ty} via {plabel}: {len(got)} rows written and returned by fetchall (ids {[g[0] for g in got]}), but {name} hands out "
                          f"{[r if isinstance(r, int) else r[0] for r in rows]}", rcase, broken="C01 every written row exactly once (fetch shape; C05_prefix/C05_fetchall_complete)")
            return
    if path == "execute_string" and real.get("script_cursors") != len(vals):
        chk.violation(f"{ty} via execute_string: {len(vals)} statements in the script, {real.get('script_cursors')} cursors returned", rcase, broken="C01 execute_string ingestion")
        return
    if path in ("insert-select", "ctas", "clone") and real.get("src_rows") != got:
        chk.violation(f"{ty} via {plabel}: target rows {got} ≠ source rows {real.get('src_rows')}", rcase, broken="C01_clone/C01_ctas/C01_insert_select")
        return
    if path == "insert-select" and real.get("copy_count") != len(vals):
        chk.violation(f"{ty} via insert-select: reported count {real.get('copy_count')} for {len(vals)} rows", rcase,
                      broken="C01_insert_select (count)")
        return
    if path == "write_pandas" and real.get("kw") != [f"kw{i}" for i in range(len(vals))]:
        chk.violation(f"write_pandas: quoted column \"k w\" read back as {real.get('kw')}", rcase, broken="C01_insert_df_cells (insert by quoted column name)")
        return
    if path == "write_pandas" and real.get("wp") != [True, len(vals)]:
        chk.violation(f"write_pandas returned {real.get('wp')} for {len(vals)} rows", rcase, broken="C01 write_pandas return tuple")
        return
    for (i, e), (_, g), v in zip(exp, got, vals):
        if fam == "json" and g[0] == "str" and e[0] == "str":
            try:
                doc = json.loads(g[1])
            except Exception:
                doc = ("unparseable", g[1])
            if doc != e[1]:
                chk.violation(f"{ty} via {plabel}: wrote JSON {e[1]!r}, read text {g[1]!r}", rcase, broken="C01 JSON text round trip (json.loads(read) = written)")
                return
            continue
        if g == e:
            continue
        # same value, model-predicted type difference?
        same_val = (g[0] == "Decimal" and e[0] == "int" and Decimal(g[1]) == Decimal(e[1])) or \
                   (g[0] == "Decimal" and e[0] == "Decimal" and Decimal(g[1]) == Decimal(e[1]))
        if same_val and e[0] == "int" and tyrep.get("finding") == "C01/number-scale0-decimal" and tyrep["impl"] == "Decimal" and tyrep["spec"] == "int":
            chk.finding("C01/number-scale0-decimal", f"{ty} via {plabel}: {e[1]} read back as Decimal, the connector uses int", rcase)
            continue
        chk.violation(f"{ty} via {plabel}: wrote {v!r} (expected {e}), read back {g}", rcase,
                      broken="C01_width_partial/C01_pytype_partial (value or Python type differs)")
        return
    # python type table
    types_seen = {g[1][0] for g in got if g[1][0] != "NoneType"}
    impl = tyrep["impl"]
    for tname in types_seen:
        if tname != impl:
            chk.violation(f"{ty} via {plabel}: fetched Python type {tname}, the model's pyOf(toDuck) says {impl}", rcase, broken="C01_pytype_partial (correspondence with pyOf)", failing_input=False)
            return


def _ser(v):
    if isinstance(v, (bytes, bytearray)):
        return {"bytes": bytes(v).hex()}
    if isinstance(v, Decimal):
        return {"decimal": str(v)}
    if isinstance(v, datetime.datetime):
        return {"datetime": v.isoformat()}
    if isinstance(v, datetime.date):
        return {"date": v.isoformat()}
    if isinstance(v, datetime.time):
        return {"time": v.isoformat()}
    if isinstance(v, float):
        return {"float": struct.pack(">d", v).hex()}
    return v


def _deser(v):
    if isinstance(v, dict) and len(v) == 1:
        (k, x), = v.items()
        if k == "bytes":
            return bytes.fromhex(x)
        if k == "decimal":
            return Decimal(x)
        if k == "datetime":
            return datetime.datetime.fromisoformat(x)
        if k == "date":
            return datetime.date.fromisoformat(x)
        if k == "time":
            return datetime.time.fromisoformat(x)
        if k == "float":
            return struct.unpack(">d", bytes.fromhex(x))[0]
    return v


def _check_persist(chk, case, real):
    chk.count("persist")
    chk.case(("persist", case["spell_w"], case["spell_r"], case["ty"], repr(case["vals"])), nontrivial=True)
    rcase = {"kind": "persist", "ty": case["ty"], "vals": [_ser(v) for v in case["vals"]], "spell_w": case["spell_w"], "spell_r": case["spell_r"]}
    what = f"db_path instance: {case['ty']} values {case['vals']!r} written with connect(database={case['spell_w']!r}), re-opened with connect(database={case['spell_r']!r})"
    if real["err"] is not None:
        chk.violation(f"{what}: {real['err'][0]}: {real['err'][1]}", rcase, broken="C01 persistence slice (stored rows survive re-opening; decided in full by C14/C18)")
    elif real["rows"] != real["written"] or len(real["rows"]) != len(case["vals"]):
        chk.violation(f"{what}: read back {real['rows']}, written {real['written']}", rcase, broken="C01 persistence slice (stored rows survive re-opening; decided in full by C14/C18)")


def _check_copy(chk, case, real, rep):
    chk.count("copy:" + case["op"])
    chk.case(("copy", case["op"], case["k"], repr(case["src"]), repr(case["tgt"])), nontrivial=bool(case["src"]))
    rcase = dict(case)
    if real["err"] is not None:
        chk.violation(f"copy {case['op']} raised {real['err']}", rcase, broken="C01_clone/C01_ctas/C01_insert_select")
        return
    want_out = sorted(dec_list(rep["out"]))
    want_src = sorted(dec_list(rep["src"]))
    want_by = sorted(dec_list(rep["by"]))
    what = {"clone": "create table NEW clone SRC", "ctas": f"create table NEW as select * from SRC where id <= {case['k']}",
            "ins": f"insert into TGT select * from SRC where id <= {case['k']}"}[case["op"]]
    if real["out"] != want_out:
        chk.violation(f"`{what}` with SRC={case['src']} TGT={case['tgt']}: result rows {real['out']}, model (every selected row exactly once) {want_out}", rcase,
                      broken={"clone": "C01_clone", "ctas": "C01_ctas", "ins": "C01_insert_select"}[case["op"]])
    elif real["src"] != want_src or real["by"] != want_by:
        chk.violation(f"`{what}`: source/bystander changed: src={real['src']} by={real['by']}", rcase, broken="C01 frame (other tables unchanged)")
    elif case["op"] == "ins" and str(real["count"]) != rep["count"]:      # cursor.rowcount is C04's observable, not compared here
        chk.violation(f"`{what}`: reported count {real['count']}, model {rep['count']}", rcase, broken="C01_insert_select (count)")


def _enc_rows(rows) -> str:
    return enc_list([",".join("-" if c is None else str(c) for c in r) for r in rows])


def _model_lines(cases):
    lines, idx = [], []
    for c in cases:
        if c["kind"] in ("persist", "ctx", "wpq"):
            idx.append((len(lines), 0))
            continue
        if c["kind"] == "copy":
            idx.append((len(lines), 1))
            lines.append(f"types\tcopy\t{c['op']}\t{c['k']}\t{_enc_rows(c['src'])}\t{_enc_rows(c['tgt'])}")
        else:
            start = len(lines)
            lines.append(f"types\tty\t{c['ty']}")
            for v in c["vals"]:
                tok = _val_token(c["ty"], v)
                lines.append(f"types\tfits\t{c['ty']}\t{tok}" if tok else "types\tty\tBOOLEAN")
            idx.append((start, 1 + len(c["vals"])))
    return lines, idx


def run(chk) -> None:
    from props import c17
    c17._real_connect()          # capture the connector's own connect before any fakesnow.patch() (inherited by the forked workers)
    rnd = random.Random(chk.seed)
    cases = _cases(chk, rnd)
    chk.rule = (f"every type spelling of the property ({len(ALL_TYPES)}, with a (p,s) grid) x 8 ingestion paths x 4 values (forced edges + random) with a NULL in a "
                "random position; all-NULL tables; copy statements over integer tables with duplicates/NULLs vs the Lean relational model. "
                "non-trivial = case that writes at least one non-NULL value / non-empty source")
    shards = common.chunks(cases, 16)
    reals = common.shard_map(_worker, shards)
    for shard, rs in zip(shards, reals):
        lines, idx = _model_lines(shard)
        reps = common.batch(lines)
        for case, real, (start, n) in zip(shard, rs, idx):
            if case["kind"] == "wpq":
                _check_wpq(chk, case, real)
            elif case["kind"] == "ctx":
                _check_ctx(chk, case, real)
            elif case["kind"] == "persist":
                _check_persist(chk, case, real)
            elif case["kind"] == "copy":
                _check_copy(chk, case, real, reps[start])
            else:
                fit = [None if v is None else reps[start + 1 + i] for i, v in enumerate(case["vals"])]
                _check_value(chk, case, real, reps[start], fit)
    # process time zone slice: the same timestamp cases in a child process whose TZ is not UTC, on instances whose database is
    # created by connect(), by CREATE DATABASE after a bare connect(), and with create_*_on_connect=False
    tz_cases = []
    for shape in TZ_SHAPES:
        for ty, path in (("TIMESTAMP_TZ", "literal"), ("TIMESTAMP_TZ", "pyformat"), ("TIMESTAMP_TZ", "write_pandas"), ("TIMESTAMP_TZ", "ctas"),
                         ("TIMESTAMP_NTZ", "literal"), ("TIMESTAMP_NTZ", "write_pandas"), ("TIME", "literal"), ("DATE", "pyformat")):
            vals = _values(rnd, ty, 3)
            vals.insert(rnd.randrange(len(vals) + 1), None)
            tz_cases.append({"kind": "value", "ty": ty, "path": path, "vals": vals, "tz_shape": shape})
    tz_reals = _run_tz_child(tz_cases)
    lines, idx = _model_lines(tz_cases)
    reps = common.batch(lines)
    for case, real, (start, n) in zip(tz_cases, tz_reals, idx):
        chk.count("process-tz:" + case["tz_shape"])
        real.setdefault("err", None)
        fit = [None if v is None else reps[start + 1 + i] for i, v in enumerate(case["vals"])]
        _check_value(chk, case, real, reps[start], fit)
    chk.exhaustive = True
    chk.extra["exhaustive_part"] = f"type spellings x ingestion paths: {len(ALL_TYPES)} x {len(PATHS)} (values per cell sampled with forced edges)"
    chk.assumptions = ["BINARY values reach the source table of the copy paths through DuckDB's unhex() (no Snowflake literal form stores bytes — recorded finding)",
                       "JSON text is compared after json.loads (DuckDB re-renders numbers/whitespace)",
                       "TIMESTAMP_TZ: the instant is compared, the original offset is not kept (UTC-aware result, as the property allows)"]
    chk.trusted += ["DuckDB 1.0: storage and retrieval of values within a type's domain, CTAS/INSERT…SELECT semantics, typeof() (modelled by duckDom/Copy; exercised on every run, not proved)",
                    "pyarrow to_pylist conversions (modelled by pyOf)", "sqlglot 25.24: Snowflake type-name parsing and DuckDB type rendering (modelled by parseSf/duckOf; tied through typeof())",
                    "pandas → DuckDB replacement scan in write_pandas"]


def replay(chk, case) -> None:
    from props import c17
    c17._real_connect()
    if case.get("kind") == "wpq":
        _check_wpq(chk, case, _worker([case])[0])
    elif case.get("kind") == "ctx":
        _check_ctx(chk, case, _worker([case])[0])
    elif case.get("kind") == "persist":
        c = dict(case, vals=[_deser(v) for v in case["vals"]])
        _check_persist(chk, c, _worker([c])[0])
    elif case.get("kind") == "copy":
        real = _worker([case])[0]
        lines, idx = _model_lines([case])
        _check_copy(chk, case, real, common.batch(lines)[0])
    else:
        c = {"kind": "value", "ty": case["ty"], "path": case["path"], "vals": [_deser(v) for v in case["vals"]]}
        if "setvar" in case:
            c["setvar"] = case["setvar"]
        if case.get("nop"):
            c["nop"] = True
        if case.get("wp_kwargs"):
            c["wp_kwargs"] = case["wp_kwargs"]
        if case.get("tz_shape"):
            c["tz_shape"] = case["tz_shape"]
            real = _run_tz_child([c])[0]
            real.setdefault("err", None)
            lines, idx = _model_lines([c])
            reps = common.batch(lines)
            _check_value(chk, c, real, reps[0], [None if v is None else reps[1 + i] for i, v in enumerate(c["vals"])])
            return
        real = _worker([c])[0]
        lines, idx = _model_lines([c])
        reps = common.batch(lines)
        fit = [None if v is None else reps[1 + i] for i, v in enumerate(c["vals"])]
        _check_value(chk, c, real, reps[0], fit)
