"""C12 — MERGE leaves the target as Snowflake's MERGE would, with true counts (partial).

Correspondence: generated MERGE statements of the modelled shape are executed on the real fake
(target/source contents, clause lists, conditions, spelling/qualification variants) and on
Fs.Merge.spec / Fs.Merge.impl through the driver; target multiset, reported counts, source frame and
helper visibility are compared.  Theorems: Fs/Props/C12.lean.
"""
from __future__ import annotations

import itertools
import random
from decimal import Decimal

from lib import common
from lib.common import enc_list, dec_list

SHAPES = [  # (number of key columns, types of the target non-key columns, types of the source non-key columns); i = INT, s = VARCHAR
    (1, "ii", "i"), (1, "ii", "i"), (2, "ii", "ii"), (1, "iii", "ii"), (1, "is", "is"),
]
# VARCHAR cells/constants are drawn from this pool; the model sees the pool index (a Nat)
POOL = ["a", "b\\c", "it's", "x;y", "C:\\new\\t", "", "-- no", "ß√"]


def _lit(typ: str, n: int) -> str:
    if typ == "i":
        return str(n)
    return "'" + POOL[n].replace("\\", "\\\\").replace("'", "\\'") + "'"


def _types(case):
    nk, ntc, nsc = case["shape"]
    return case.get("ttypes", "i" * ntc), case.get("stypes", "i" * nsc)


def _rpn_sql(rpn: list[str], t: str, s: str, col, tt: str = "", stt: str = "") -> str:
    st = []
    for tok in rpn:
        if tok == "T":
            st.append("1 = 1")
        elif tok in "&|":
            b, a = st.pop(), st.pop()
            st.append(f"({a} {'AND' if tok == '&' else 'OR'} {b})")
        elif tok == "!":
            st.append(f"(NOT {st.pop()})")
        else:
            side, rest = tok[0], tok[1:]
            i = 0
            while rest[i].isdigit():
                i += 1
            idx, rest = int(rest[:i]), rest[i:]
            op = ">=" if rest.startswith(">=") else "!=" if rest.startswith("!=") else rest[0]
            name = f"{t()}.{col('c' + str(idx))}" if side == "t" else f"{s()}.{col('d' + str(idx))}"
            typ = ((tt if side == "t" else stt) + "iiii")[idx]
            st.append(f"{name} {op.replace('!=', '<>')} {_lit(typ, int(rest[len(op):]))}")
    assert len(st) == 1
    return st[0]


def _recase(rnd, s: str) -> str:
    return "".join(c.upper() if rnd.random() < 0.5 else c.lower() for c in s)


def _render(case, rnd) -> str:
    nk, ntc, nsc = case["shape"]
    kw = (lambda x: _recase(rnd, x)) if case["recase"] else (lambda x: x)
    # unquoted identifiers are re-spelled per occurrence too (quoted style keeps the stored upper-case names)
    idc = (lambda x: x if x.startswith('"') or x.startswith("(") else _recase(rnd, x)) if case["recase"] else (lambda x: x)
    t, s = (lambda: idc(case["tname"])), (lambda: idc(case["sname"]))
    qc = case.get("quoted_cols") or {}

    def col(name):
        # logical column name -> SQL spelling; a column that needs quoting is always written quoted, as declared
        return qc[name] if name in qc else idc(name)
    if case.get("nullsafe"):
        # NULL-safe join: NULL keys join NULL keys (the model sees NULL as one more key value)
        on = f" {kw('and')} ".join(f"{t()}.{col('k' + str(j))} {kw('is not distinct from')} {s()}.{col('k' + str(j))}" for j in range(nk))
    elif case.get("on_swapped"):
        on = f" {kw('and')} ".join(f"{s()}.{col('k' + str(j))} = {t()}.{col('k' + str(j))}" for j in range(nk))
    else:
        on = f" {kw('and')} ".join(f"{t()}.{col('k' + str(j))} = {s()}.{col('k' + str(j))}" for j in range(nk))
    ox = case.get("on_extra") or {}
    if ox.get("t") is not None:
        on += f" {kw('and')} {t()}.{col('c' + str(ox['t']))} = 1"
    if ox.get("s") is not None:
        on += f" {kw('and')} {s()}.{col('d' + str(ox['s']))} = 1"
    parts = [f"{kw('merge into')} {t()} {kw('using')} {idc(case['source_sql'])} {kw('on')} {on}"]

    tt, stt = _types(case)

    def rhs(r, typ="i"):
        if r[0] == "s":
            # source non-key columns (d*) have names the target does not have: they may be written without the source qualifier
            return col("d" + r[1:]) if case.get("unqualified_src") and rnd.random() < 0.7 else f"{s()}.{col('d' + r[1:])}"
        return _lit(typ, int(r[1:]))

    for c in case["clauses"]:
        f = c.split(":")
        kind, toks = f[0], f[1].split(",")
        cond = "" if toks == ["T"] and case["omit_true"] else f" {kw('and')} {_rpn_sql(toks, t, s, col, tt, stt)}"
        if kind == "D":
            parts.append(f"{kw('when matched')}{cond} {kw('then delete')}")
        elif kind == "U":
            sets = []
            for a in f[2].split(","):
                j, r = a.split("=")
                lhs = col("c" + j)
                if rnd.random() < 0.3:
                    lhs = f"{t()}.{lhs}"          # t.c / s1.t.c / db1.s1.t.c, as the target is written
                sets.append(f"{lhs} = {rhs(r, tt[int(j)])}")
            parts.append(f"{kw('when matched')}{cond} {kw('then update set')} {', '.join(sets)}")
        else:
            names = [col("k" + str(j)) for j in range(nk)] + [col("c" + str(j)) for j in range(ntc)]
            vals = [f"{s()}.{col('k' + str(j))}" for j in range(nk)] + [rhs(r, tt[j]) for j, r in enumerate(f[2].split(","))]
            order = list(range(len(names)))
            if case["permute_insert"]:
                random.Random(case["render_seed"] + 7).shuffle(order)
            parts.append(f"{kw('when not matched')}{cond} {kw('then insert')} ({', '.join(names[i] for i in order)}) {kw('values')} "
                         f"({', '.join(vals[i] for i in order)})")
    return "\n  ".join(parts)


def _gen_case(rnd: random.Random, i: int) -> dict:
    nk, tt, stt = rnd.choice(SHAPES)
    ntc, nsc = len(tt), len(stt)
    t_atoms = [f"t{j}{op}" for j in range(ntc) for op in (("=0", "=1", "<2", ">=20", "!=1") if tt[j] == "i" else ("=1", "!=2", "=4"))]
    s_atoms = [f"s{j}{op}" for j in range(nsc) for op in (("=0", "!=0", ">=2", "<5") if stt[j] == "i" else ("=1", "!=2", "=4"))] + ["T"]

    def cond(atoms):
        r = rnd.random()
        if r < 0.3:
            return ["T"]
        if r < 0.65:
            return [rnd.choice(atoms)]
        if r < 0.88:
            return [rnd.choice(atoms), rnd.choice(atoms), rnd.choice("&||")]
        return [rnd.choice(atoms), "!"]

    def rhs(typ):
        srcs = [j for j in range(nsc) if stt[j] == typ]
        if srcs and rnd.random() < 0.7:
            return f"s{rnd.choice(srcs)}"
        return f"c{rnd.choice([0, 1, 7, 42])}" if typ == "i" else f"c{rnd.randrange(len(POOL))}"

    ncl = rnd.choice([1, 2, 2, 3, 3, 4])
    clauses = []
    for _ in range(ncl):
        k = rnd.choice("DUUI")
        cnd = ",".join(cond(s_atoms if k == "I" or rnd.random() < 0.45 else t_atoms + s_atoms))
        if k == "D":
            clauses.append(f"D:{cnd}")
        elif k == "U":
            cols = rnd.sample(range(ntc), rnd.randint(1, ntc))
            clauses.append(f"U:{cnd}:" + ",".join(f"{j}={rhs(tt[j])}" for j in cols))
        else:
            clauses.append(f"I:{cnd}:" + ",".join(rhs(tt[j]) for j in range(ntc)))
    keyvals = [1, 2, 3] if nk == 1 else [1, 2]
    allkeys = [tuple(k) for k in itertools.product(keyvals, repeat=nk)]
    mode = rnd.random()
    nt = 0 if rnd.random() < 0.05 else rnd.choice([1, 2, 3, 3, 4, 4, 5, 6])
    ns = 0 if rnd.random() < 0.05 else rnd.choice([1, 2, 2, 3, 3, 4, 5])

    def uniq(n):
        ks = rnd.sample(allkeys, min(n, len(allkeys)))
        return ks + [None] * (1 if n > len(allkeys) else 0)
    if mode < 0.45:   # unique keys on both sides (always inside H1c ∧ H2)
        tk, sk = uniq(nt), uniq(ns)
    elif mode < 0.85:  # duplicate target keys, unique source keys (H1c holds, H2 depends on the conditions)
        tk = [rnd.choice(allkeys + [None]) for _ in range(nt)]
        sk = uniq(ns)
    else:              # anything (often non-deterministic -> out of scope)
        tk = [rnd.choice(allkeys + [None]) for _ in range(nt)]
        sk = [rnd.choice(allkeys + [None]) for _ in range(ns)]
    def tval(j, c):
        if tt[c] == "s":
            return rnd.randrange(len(POOL))
        return rnd.choice([0, 1, 2]) if c == 0 else 10 * (j + 1) + c
    tgt = [(k, tuple(tval(j, c) for c in range(ntc))) for j, k in enumerate(tk)]
    src = [(k, tuple(rnd.choice([0, 1, 2, 5, 7]) if stt[c] == "i" else rnd.randrange(len(POOL)) for c in range(nsc))) for k in sk]
    style = rnd.choice(["plain", "plain", "qualified-target", "schema-target", "subquery", "quoted", "plain", "qualified-source",
                        "other-schema-target", "other-schema-target"])
    tname, sname, source_sql, tloc = "t", "s", "s", "db1.s1"
    if style == "other-schema-target":
        # the target lives outside the current schema; a same-named bystander table sits in the current schema
        tname, tloc = rnd.choice([("s2.t", "db1.s2"), ("db1.s2.t", "db1.s2"), ("db2.s9.t", "db2.s9")])
    elif style == "qualified-target":
        tname = "db1.s1.t"
    elif style == "schema-target":
        tname = "s1.t"
    elif style == "qualified-source":
        sname = source_sql = rnd.choice(["db1.s1.s", "s1.s"])
    elif style == "subquery":
        source_sql = "(select * from s) as s"
    elif style == "quoted":
        tname, sname, source_sql = '"T"', '"S"', '"S"'
    on_extra = None
    if rnd.random() < 0.22 and style != "qualified-source":
        # extra ON terms: `AND t.c<j> = 1` over a target column that no clause assigns and/or `AND s.d<j> = 1`.
        # Rows failing their term never join (the model sees them with a NULL join key).  Envelope of this style:
        # no NULL keys, insert clauses last (an inserted row cannot be re-joined by a later clause).
        tcol = max(j for j in range(ntc) if tt[j] == "i")
        scol = max(j for j in range(nsc) if stt[j] == "i")
        which = rnd.choice(["t", "t", "s", "ts"])
        tgt = [(k, tuple(rnd.choice([0, 1, 1]) if (c == tcol and "t" in which) else v for c, v in enumerate(vals))) for k, vals in tgt if k is not None]
        src = [(k, tuple(rnd.choice([0, 1, 1]) if (c == scol and "s" in which) else v for c, v in enumerate(vals))) for k, vals in src if k is not None]
        fixed = []
        for c in clauses:
            f = c.split(":")
            if f[0] == "U" and "t" in which:
                keep = [a for a in f[2].split(",") if int(a.split("=")[0]) != tcol]
                if not keep:
                    other = next(j for j in range(ntc) if j != tcol)
                    keep = [f"{other}={rhs(tt[other])}"]
                c = f"U:{f[1]}:{','.join(keep)}"
            fixed.append(c)
        clauses = [c for c in fixed if c[0] != "I"] + [c for c in fixed if c[0] == "I"]
        on_extra = {"t": tcol if "t" in which else None, "s": scol if "s" in which else None}
    quoted_cols = None
    if rnd.random() < 0.2:
        # a target and a source column whose names must be quoted (reserved word / space / lower case)
        quoted_cols = {f"c{ntc - 1}": rnd.choice(['"ORDER"', '"unit price"', '"Group"']), f"d{nsc - 1}": rnd.choice(['"select"', '"src col"'])}
    tx = rnd.choice([None, None, None, None, "commit", "rollback"])
    on_form = rnd.random()
    nullsafe = on_extra is None and on_form < 0.15
    on_swapped = on_extra is None and 0.15 <= on_form < 0.3
    return {"id": i, "nullsafe": nullsafe, "on_swapped": on_swapped, "tx": tx, "quoted_cols": quoted_cols, "on_extra": on_extra, "shape": (nk, ntc, nsc), "ttypes": tt, "stypes": stt, "tloc": tloc, "clauses": clauses, "tgt": tgt, "src": src, "style": style, "tname": tname, "sname": sname,
            "source_sql": source_sql, "recase": rnd.random() < 0.5, "omit_true": rnd.random() < 0.7,
            "permute_insert": rnd.random() < 0.3, "unqualified_src": rnd.random() < 0.3, "render_seed": rnd.randrange(1 << 30)}


def _num(v):
    if v is None:
        return None
    if isinstance(v, (int, Decimal)) and not isinstance(v, bool):
        return int(v) if v == int(v) else str(v)
    return repr(v)


def _flat(row, nk):
    k, vals = row
    return tuple((None,) * nk if k is None else k) + tuple(vals)


def _sortkey(r):
    return tuple((v is None, isinstance(v, str), v) for v in r)


def _unlit(typ: str, v):
    """value read back -> the Nat the model uses (pool index for VARCHAR); unknown strings are kept as they are"""
    if typ == "s" and isinstance(v, str):
        return POOL.index(v) if v in POOL else v
    return v


def _exec_case(conn, case) -> dict:
    from snowflake.connector.cursor import DictCursor
    nk, ntc, nsc = case["shape"]
    tt, stt = _types(case)
    tloc = case.get("tloc", "db1.s1")
    bloc = "db1.s2" if tloc == "db1.s1" else "db1.s1"
    cur = conn.cursor()
    sqlt = {"i": "int", "s": "varchar"}
    qc = case.get("quoted_cols") or {}
    tcols = [f"k{j} int" for j in range(nk)] + [f"{qc.get('c' + str(j), 'c' + str(j))} {sqlt[tt[j]]}" for j in range(ntc)]
    scols = [f"k{j} int" for j in range(nk)] + [f"{qc.get('d' + str(j), 'd' + str(j))} {sqlt[stt[j]]}" for j in range(nsc)]
    ttypes, stypes = "i" * nk + tt, "i" * nk + stt
    cur.execute(f"create or replace table {tloc}.t ({', '.join(tcols)})")
    cur.execute(f"create or replace table {bloc}.t ({', '.join(tcols)})")
    cur.execute("create or replace table s (" + ", ".join(scols) + ")")

    def tup(r, types):
        return "(" + ",".join("NULL" if v is None else _lit(ty, v) for v, ty in zip(_flat(r, nk), types)) + ")"
    bystander = ((7,) * nk, tuple(3 for _ in range(ntc)))
    cur.execute(f"insert into {bloc}.t values " + tup(bystander, ttypes))
    if case["tgt"]:
        cur.execute(f"insert into {tloc}.t values " + ",".join(tup(r, ttypes) for r in case["tgt"]))
    if case["src"]:
        cur.execute("insert into s values " + ",".join(tup(r, stypes) for r in case["src"]))
    sql = _render(case, random.Random(case["render_seed"]))
    out = {"sql": sql}
    dcur = conn.cursor(DictCursor)
    tx = case.get("tx")
    try:
        if tx:
            cur.execute("begin")
        dcur.execute(sql)
        rows = dcur.fetchall()
        out["status"] = [{k: _num(v) for k, v in r.items()} for r in rows]
        if tx:
            cur.execute(f"select * from {tloc}.t")
            out["t_in_tx"] = sorted((tuple(_unlit(ty, v) for v, ty in zip(r, ttypes)) for r in cur.fetchall()), key=_sortkey)
            cur.execute(tx)
    except Exception as e:
        out["error"] = f"{type(e).__name__}: {str(e)[:200]}"
        if tx:
            try:
                cur.execute("rollback")
            except Exception:
                pass
    cur.execute(f"select * from {tloc}.t")
    out["t"] = sorted((tuple(_unlit(ty, v) for v, ty in zip(r, ttypes)) for r in cur.fetchall()), key=_sortkey)
    cur.execute("select * from s")
    out["s"] = sorted((tuple(_unlit(ty, v) for v, ty in zip(r, stypes)) for r in cur.fetchall()), key=_sortkey)
    cur.execute(f"select * from {bloc}.t")
    got = [tuple(_unlit(ty, v) for v, ty in zip(r, ttypes)) for r in cur.fetchall()]
    out["bystander_ok"] = got == [_flat(bystander, nk)]
    out["bystander"] = got
    cur.execute("show tables")
    out["tables"] = sorted(r[1] for r in cur.fetchall() if not r[1].startswith("_fs_"))
    return out


def _worker(shard):
    import fakesnow
    import snowflake.connector
    res = []
    with fakesnow.patch():
        conn = snowflake.connector.connect(database="db1", schema="s1")
        c = conn.cursor()
        c.execute("create schema if not exists db1.s2")
        c.execute("create database if not exists db2")
        c.execute("create schema if not exists db2.s9")
        for case in shard:
            res.append(_exec_case(conn, case))
    return res


def _enc_row(r) -> str:
    k, vals = r
    return ("N" if k is None else ",".join(map(str, k))) + "|" + ",".join(map(str, vals))


def _shift_clause(c: str, nk: int) -> str:
    """clause over (key ++ non-key) value lists: every column index moves up by nk, inserts copy the source key columns"""
    import re
    f = c.split(":")
    cond = re.sub(r"\b([ts])(\d+)", lambda m: f"{m.group(1)}{int(m.group(2)) + nk}", f[1])

    def rhs(r):
        return f"s{int(r[1:]) + nk}" if r[0] == "s" else r
    if f[0] == "D":
        return f"D:{cond}"
    if f[0] == "U":
        return f"U:{cond}:" + ",".join(f"{int(a.split('=')[0]) + nk}={rhs(a.split('=')[1])}" for a in f[2].split(","))
    return f"I:{cond}:" + ",".join([f"s{j}" for j in range(nk)] + [rhs(r) for r in f[2].split(",")])


def _line(case) -> str:
    ox = case.get("on_extra")
    nk = case["shape"][0]
    if not ox:
        # NULL-safe ON: a NULL key is one more key value (0 is not used by the generator)
        ns = (lambda r: ((0,) * nk, r[1]) if r[0] is None else r) if case.get("nullsafe") else (lambda r: r)
        return "\t".join(["merge", "run", enc_list(case["clauses"]), enc_list([_enc_row(ns(r)) for r in case["tgt"]]),
                          enc_list([_enc_row(ns(r)) for r in case["src"]])])

    def enc(r, col):
        k, vals = r
        joins = col is None or vals[col] == 1
        return _enc_row((k if joins else None, tuple(k) + tuple(vals)))
    return "\t".join(["merge", "run", enc_list([_shift_clause(c, nk) for c in case["clauses"]]),
                      enc_list([enc(r, ox["t"]) for r in case["tgt"]]), enc_list([enc(r, ox["s"]) for r in case["src"]])])


def _rows(s: str, nk: int, extra: bool = False, nullsafe: bool = False):
    out = []
    for r in dec_list(s):
        k, v = r.split("|")
        vals = tuple(int(x) for x in v.split(","))
        if extra:   # the value list already starts with the key columns
            out.append(vals)
            continue
        key = (None,) * nk if k == "N" else tuple(int(x) for x in k.split(","))
        if nullsafe and key == (0,) * nk:
            key = (None,) * nk
        out.append(key + vals)
    return sorted(out, key=_sortkey)


COLS = ["number of rows inserted", "number of rows updated", "number of rows deleted"]


def _counts(s: str):
    """'2,_,N' -> {col: value} for reported columns"""
    d = {}
    for col, v in zip(COLS, s.split(",")):
        if v != "_":
            d[col] = None if v == "N" else int(v)
    return d


def _judge(chk, case, real, m) -> None:
    finding = m["finding"]
    ops = "".join(c[0] for c in case["clauses"])
    chk.count("clauses:" + ops)
    chk.count("style:" + case["style"])
    if case.get("on_extra"):
        chk.count("on-extra:" + "".join(k for k, v in case["on_extra"].items() if v is not None))
    chk.count("shape:" + "/".join(map(str, case["shape"])))
    chk.count("region:" + finding)
    nontrivial = bool(case["tgt"]) and bool(case["src"]) and finding != "out-of-scope:nondeterministic"
    chk.case((tuple(case["clauses"]), tuple(case["tgt"]), tuple(case["src"]), case["style"], tuple(case["shape"])), nontrivial=nontrivial)
    if finding.startswith("out-of-scope"):
        return
    nk = case["shape"][0]
    nsf = bool(case.get("nullsafe"))
    if nsf:
        chk.count("on:null-safe")
    elif case.get("on_swapped"):
        chk.count("on:source-column-first")
    spec_t, impl_t = _rows(m["spec"], nk, bool(case.get("on_extra")), nsf), _rows(m["impl"], nk, bool(case.get("on_extra")), nsf)
    sc, ic = _counts(m["scount"]), _counts(m["icount"])
    src0 = sorted((_flat(r, nk) for r in case["src"]), key=_sortkey)
    desc = f"{real['sql']!r} over t={case['tgt']} s={case['src']}"
    if "error" in real and case["style"] == "qualified-source" and real["error"].startswith("ParseError") and \
            [tuple(r) for r in real["t"]] == sorted((_flat(r, case["shape"][0]) for r in case["tgt"]), key=_sortkey):
        chk.finding("C12/qualified-source-name", f"MERGE with a qualified source table name raised {real['error'][:60]!r}: {real['sql']!r}", case)
        return
    if "error" in real:
        chk.violation(f"MERGE raised {real['error']} for {desc}", case, broken="C12 correspondence (statement must succeed)")
        return
    real_t = [tuple(r) for r in real["t"]]
    if case.get("tx"):
        chk.count("tx:" + case["tx"])
        orig = sorted((_flat(r, nk) for r in case["tgt"]), key=_sortkey)
        if case["tx"] == "rollback":
            # BEGIN; MERGE; ROLLBACK leaves the target as it was; what the MERGE did is judged on the in-transaction view
            if real_t != orig:
                chk.violation(f"BEGIN; MERGE; ROLLBACK left the target changed: {real_t} (was {orig}) for {desc}", case,
                              broken="C12 in an explicit transaction (all or none; ROLLBACK undoes it)")
                return
        real_t = [tuple(r) for r in real["t_in_tx"]] if case["tx"] == "rollback" else real_t
        if [tuple(r) for r in real["t_in_tx"]] != real_t:
            chk.violation(f"BEGIN; MERGE; COMMIT: the target inside the transaction {real['t_in_tx']} differs from the committed one {real_t}", case,
                          broken="C12 in an explicit transaction")
            return
    status = real["status"][0] if len(real["status"]) == 1 else {"?": real["status"]}
    ok_target = real_t == spec_t
    ok_counts = status == sc
    ok_src = [tuple(r) for r in real["s"]] == src0
    if not ok_src:
        chk.violation(f"source table changed by {desc}: {real['s']}", case, broken="C12 source frame")
        return
    if not real.get("bystander_ok", True):
        chk.violation(f"a same-named table in another schema was changed by {desc}: it now holds {real['bystander']}", case,
                      broken="C12 frame (no other table changes)")
        return
    if ok_target and ok_counts:
        if m["h1"] == "1" and m["h2"] == "1" and m["same"] != "1":
            chk.violation("model inconsistency: C12_partial says impl~spec under H1,H2", case, broken="C12_partial", failing_input=False)
        return
    # real differs from MERGE semantics: only the listed regions, and only with the modelled behaviour, are known
    nullkey = (None,) * nk
    tnull, snull = sum(r[0] is None for r in case["tgt"]), sum(r[0] is None for r in case["src"])
    phantom = nsf and (tnull == 0) != (snull == 0) and any(c[0] in "DU" for c in case["clauses"])
    if phantom:
        # NULL-safe ON with NULL keys on one side only: the code's CASE takes the outer join's NULL padding for a match
        # (`NULL IS NOT DISTINCT FROM NULL`), so an unmatched NULL-keyed target row is updated/deleted from an all-NULL phantom
        # source row, and an unmatched NULL-keyed source row is counted under a matched clause instead of being inserted.
        # Everything about rows that have a key (and the source, the bystander) must still be exact, and the counts may be
        # off by at most the number of NULL-keyed rows.
        def nn(rows):
            return [r for r in rows if tuple(r[:nk]) != nullkey]

        def near(col, lo, hi):
            if col not in sc:
                return isinstance(status, dict) and col not in status
            v = status.get(col) if isinstance(status, dict) else None
            return isinstance(v, int) and sc[col] - lo <= v <= sc[col] + hi
        counts_near = near(COLS[0], snull, 0) and near(COLS[1], 0, tnull + snull) and near(COLS[2], 0, tnull + snull)
        if counts_near and (nn(real_t) == nn(spec_t) or (finding == "C12/over-delete" and nn(real_t) == nn(impl_t))):
            chk.finding("C12/null-safe-on-phantom-match", f"NULL-keyed rows matched the outer join's NULL padding: target {real_t} ≠ MERGE semantics {spec_t} "
                        f"or status {status} ≠ {sc} for {desc}", case)
            return
    if finding == "C12/over-delete" and real_t == impl_t and status == ic:
        chk.finding("C12/over-delete", f"target {real_t} ≠ MERGE semantics {spec_t} for {desc}", case)
    elif finding == "C12/counts-null-no-candidates" and ok_target and status == ic:
        chk.finding("C12/counts-null-no-candidates", f"counts {status} ≠ {sc} for {desc}", case)
    else:
        what = []
        if not ok_target:
            what.append(f"target is {real_t}, MERGE semantics give {spec_t}")
        if not ok_counts:
            what.append(f"status row is {status}, rows actually affected are {sc}")
        chk.violation(f"{desc}: " + "; ".join(what) + f"  [model impl: {impl_t} {ic}, H1={m['h1']} H2={m['h2']}]", case,
                      broken="C12_partial/C12_counts (correspondence with Fs.Merge.impl/spec)")


# ---- fixed variants outside the modelled statement shape (their expected outcome is stated directly) ----------
def _variants(chk) -> None:
    import fakesnow
    import snowflake.connector

    def fresh(cur):
        cur.execute("create or replace table t (k int, x int not null, v int)")
        cur.execute("create or replace table s (k int, y int)")
        cur.execute("insert into t values (1,1,10),(2,1,20)")
        cur.execute("insert into s values (1,5),(3,7)")

    want = [(1, 1, 5), (2, 1, 20), (3, 0, 7)]
    with fakesnow.patch():
        conn = snowflake.connector.connect(database="db1", schema="s1")
        cur = conn.cursor()
        # (a) table aliases
        fresh(cur)
        case = {"variant": "alias"}
        chk.case(("variant", "alias"))
        try:
            cur.execute("merge into t as tt using s as ss on tt.k = ss.k when matched then update set v = ss.y "
                        "when not matched then insert (k, x, v) values (ss.k, 0, ss.y)")
            cur.execute("select * from t order by k")
            got = cur.fetchall()
            if got != want:
                chk.violation(f"MERGE with table aliases left {got}, expected {want}", case, broken="C12 variant alias")
        except Exception as e:
            chk.finding("C12/table-alias", f"MERGE with table aliases raised {type(e).__name__}: {str(e)[:120]}", case)
        # (b) source expression in SET / VALUES
        fresh(cur)
        case = {"variant": "source-expression"}
        chk.case(("variant", "source-expression"))
        try:
            cur.execute("merge into t using s on t.k = s.k when matched then update set v = s.y + 1 "
                        "when not matched then insert (k, x, v) values (s.k, 0, s.y * 2)")
            cur.execute("select * from t order by k")
            got = cur.fetchall()
            if got != [(1, 1, 6), (2, 1, 20), (3, 0, 14)]:
                chk.violation(f"MERGE with source expressions left {got}", case, broken="C12 variant source-expression")
        except Exception as e:
            chk.finding("C12/source-expression", f"MERGE with expressions over source columns raised {type(e).__name__}: {str(e)[:120]}", case)
        # (c) helper object must not be visible afterwards
        fresh(cur)
        case = {"variant": "helper-visible"}
        chk.case(("variant", "helper-visible"))
        cur.execute("merge into t using s on t.k = s.k when matched then update set v = s.y")
        try:
            cur.execute("select * from merge_candidates")
            chk.finding("C12/helper-visible", "`select * from merge_candidates` succeeds after a MERGE (temporary helper table left in the session)", case)
        except snowflake.connector.errors.ProgrammingError:
            pass
        cur.execute("show tables")
        names = sorted(r[1] for r in cur.fetchall() if not r[1].startswith("_fs_"))
        if names != ["S", "T"]:
            chk.violation(f"SHOW TABLES after MERGE lists {names}", case, broken="C12 helper visibility")
        # (d) all effects or none: the INSERT clause violates NOT NULL after the UPDATE clause has run
        fresh(cur)
        case = {"variant": "non-atomic"}
        chk.case(("variant", "non-atomic"))
        failed = False
        try:
            cur.execute("merge into t using s on t.k = s.k when matched then update set v = s.y "
                        "when not matched then insert (k, x, v) values (s.k, NULL, s.y)")
        except Exception:
            failed = True
        cur.execute("select * from t order by k")
        got = cur.fetchall()
        if not failed:
            chk.violation(f"MERGE inserting NULL into a NOT NULL column succeeded: {got}", case, broken="C12 variant non-atomic")
        elif got != [(1, 1, 10), (2, 1, 20)]:
            if got == [(1, 1, 5), (2, 1, 20)]:
                chk.finding("C12/non-atomic", f"failed MERGE left its UPDATE applied: {got}", case)
            else:
                chk.violation(f"failed MERGE left {got}", case, broken="C12 variant non-atomic")


def _small_exhaustive(chk) -> list[dict]:
    """all targets of ≤2 rows / sources of ≤2 rows over 2 keys+NULL with 4 clause lists — thorough only"""
    cases = []
    i = 10_000_000
    trows = [((k,) if k else None, (x, 10)) for k in (1, 2, None) for x in (0, 1)]
    srows = [((k,) if k else None, (y,)) for k in (1, 2, None) for y in (0, 5)]
    cls = [["D:t0=0", "U:T:1=s0", "I:T:c0,s0"], ["U:s0=0:1=s0", "D:T", "I:s0!=0:c0,s0"], ["I:T:c0,s0", "D:s0=5"], ["U:t0=1:1=s0", "D:t0=0"]]
    for nt in range(3):
        for tg in itertools.combinations_with_replacement(trows, nt):
            for ns in range(3):
                for sr in itertools.combinations_with_replacement(srows, ns):
                    for cl in cls:
                        i += 1
                        cases.append({"id": i, "shape": (1, 2, 1), "clauses": cl, "tgt": list(tg), "src": list(sr), "style": "plain",
                                      "tname": "t", "sname": "s", "source_sql": "s", "recase": False, "omit_true": True,
                                      "permute_insert": False, "render_seed": 1})
    return cases


def _norm_case(c: dict) -> dict:
    c = dict(c)
    c["shape"] = tuple(c["shape"])
    c["tgt"] = [(tuple(k) if k is not None else None, tuple(v)) for k, v in c["tgt"]]
    c["src"] = [(tuple(k) if k is not None else None, tuple(v)) for k, v in c["src"]]
    return c


def run(chk) -> None:
    rnd = random.Random(chk.seed)
    n = 600 if chk.tier == "quick" else 12000
    cases = [_gen_case(rnd, i) for i in range(n)]
    if chk.tier != "quick":
        cases += _small_exhaustive(chk)
        chk.extra["exhaustive_part"] = "all targets ≤2 rows × sources ≤2 rows over keys {1,2,NULL} × 4 clause lists"
    # corpus first: the Lean witnesses and minimised past disagreements
    import json
    corpus = []
    for f in sorted((common.CORPUS / "C12").glob("*.json")):
        c = json.loads(f.read_text())
        if "clauses" in c:
            corpus.append(_norm_case(c))
    cases = corpus + cases
    chk.rule = ("random MERGE statements of the modelled shape: 1-4 clauses (DELETE/UPDATE/INSERT) with conditions over target and/or source "
                "columns, targets of 0-6 rows and sources of 0-5 rows over 3-4 keys + NULL (unique, duplicate-target and arbitrary key modes), "
                "rendered plain/qualified/schema-qualified/other-schema/quoted/subquery-source with random keyword and identifier case, ON written "
                "key-first / source-column-first / with extra single-table terms / NULL-safe, optionally inside BEGIN…COMMIT|ROLLBACK; plus 4 fixed variants (aliases, "
                "source expressions, helper visibility, atomicity).  non-trivial = distinct case with non-empty target and source inside the "
                "deterministic-merge envelope")
    shards = common.chunks(cases, 16)
    reals = common.shard_map(_worker, shards)
    models = [common.batch([_line(c) for c in s]) for s in shards]
    for shard, rs, ms in zip(shards, reals, models):
        for case, real, m in zip(shard, rs, ms):
            if "finding" not in m:
                raise common.Infra(f"model rejected case: {m}")
            _judge(chk, case, real, m)
    _variants(chk)
    chk.samples = [{"shape": c["shape"], "clauses": c["clauses"], "tgt": c["tgt"], "src": c["src"], "style": c["style"]} for c in cases[:7]]
    chk.trusted += ["modelled engine: DuckDB FULL OUTER JOIN / CASE / DELETE USING / UPDATE FROM / INSERT SELECT / COUNT_IF semantics "
                    "(Fs.Merge.cands, mutate, implCount) — exercised by this correspondence, not proved",
                    "MERGE semantics transcribed from the Snowflake documentation (Fs.Merge.spec)"]
    chk.assumptions = ["statement shapes: 1-2 nullable integer key columns, 2-3 target and 1-2 source non-key columns (int or VARCHAR from a fixed pool, NOT NULL), "
                       "UPDATE SET of any column subset from bare source columns or constants, INSERT of all columns in any order with the source key",
                       "counts compared by numeric value (Decimal 2 = 2)"]


def replay(chk, case) -> None:
    if "variant" in case:
        _variants(chk)
        return
    case = _norm_case(case)
    real = _worker([case])[0]
    m = common.batch([_line(case)])[0]
    _judge(chk, case, real, m)
