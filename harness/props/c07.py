"""C07 — failures are Snowflake errors with the right codes, and change nothing.

Correspondence with `Fs.Err` (driver model `err`):
 A. the cause x position table, exhaustively: every template (statement shape that refers to something missing /
    duplicate / mis-counted) x every qualification level it can be written with x the three reachable session states
    (database+schema, database only, none) x outside / inside an open transaction, each on a fresh fake instance;
    observed: exception class, errno, sqlstate, cursor.sqlstate, a full state snapshot before/after (context,
    variables, data, tables/views/schemas of every database, own uncommitted rows), and that the connection still
    works afterwards.  Compared with `predict`/`specOutcome` of the scenario.
 B. generated cursor-op sequences (succeeding / failing / raw-failing statements, undefined variables, SET/UNSET,
    fetches, description reads, COMMIT/ROLLBACK outside a transaction, a multi-call MERGE, close) - outcome and
    cursor.sqlstate after every op, compared with `Fs.Err.execute`/`runOps`.
"""
from __future__ import annotations

import itertools
import random

from lib import common

# ------------------------------------------------------------------------------------------------
# A. scenario templates: (cause, pos, refKind, allowed quals, sql with {X} offending name, {T},{T2},{V},{N} good names)
# ------------------------------------------------------------------------------------------------
TABLE_CAUSES = {  # cause -> quals the offending table name can be written with
    "unknownTable": (1, 2, 3), "unknownSchema": (2, 3), "unknownDatabase": (3,),
}


def _name(obj: str, qual: int, cause: str | None = None) -> str:
    """qualified spelling of a good object, or of the offending table when `cause` is given"""
    if cause == "unknownTable":
        return {1: "nope", 2: "s1.nope", 3: "db1.s1.nope"}[qual]
    if cause == "unknownSchema":
        return {2: f"nos.{obj}", 3: f"db1.nos.{obj}"}[qual]
    if cause == "unknownDatabase":
        return f"nodb.s1.{obj}"
    return {1: obj, 2: f"s1.{obj}", 3: f"db1.s1.{obj}"}[qual]


def templates():
    out = []

    def add(cause, pos, refkind, quals, sql, variant):
        for q in quals:
            out.append({"cause": cause, "pos": pos, "refKind": refkind, "qual": q, "variant": variant, "fmt": sql})

    for cause, quals in TABLE_CAUSES.items():
        add(cause, "query", "table", quals, "select * from {X}", "from")
        add(cause, "query", "table", quals, "select * from {T} join {X} on true", "join")
        add(cause, "query", "table", quals, "select * from (select * from {X})", "subquery")
        add(cause, "query", "table", quals, "with c as (select * from {X}) select * from c", "cte")
        add(cause, "query", "table", quals, "select * from {T} where a in (select a from {X})", "in-subquery")
        add(cause, "dmlTarget", "table", quals, "insert into {X} values (1, 2)", "insert")
        add(cause, "dmlTarget", "table", quals, "update {X} set a = 1", "update")
        add(cause, "dmlTarget", "table", quals, "delete from {X}", "delete")
        add(cause, "dmlTarget", "table", quals, "truncate table {X}", "truncate")
        add(cause, "dmlSource", "table", quals, "insert into {T} select * from {X}", "insert-select")
        add(cause, "ddlSource", "table", quals, "create table {N} as select * from {X}", "ctas")
        add(cause, "ddlSource", "table", quals, "create table {N} clone {X}", "clone")
        add(cause, "ddlSource", "table", quals, "create view {N} as select * from {X}", "view")
        add(cause, "ddlTarget", "table", quals, "drop table {X}", "drop-table")
        add(cause, "ddlTarget", "table", quals, "alter table {X} add column c int", "alter-add")
        add(cause, "ddlTarget", "table", quals, "alter table {X} rename column a to z", "alter-rename-col")
        add(cause, "describeTarget", "table", quals, "describe table {X}", "describe-table")
    add("unknownTable", "dmlTarget", "table", (1,), "merge into nope using t2 on nope.a = t2.a when matched then DELETE", "merge-target")
    add("unknownTable", "dmlSource", "table", (1,), "merge into t using nope on nope.a = t.a when matched then DELETE", "merge-source")
    add("unknownView", "ddlTarget", "table", (1, 2, 3), "drop view {XV}", "drop-view")
    add("unknownView", "describeTarget", "table", (1, 2, 3), "describe view {XV}", "describe-view")
    add("unknownSchema", "ddlTarget", "table", (2, 3), "create table {X} (a int)", "create-table")
    add("unknownDatabase", "ddlTarget", "table", (3,), "create table {X} (a int)", "create-table")
    add("unknownSchema", "ddlTarget", "table", (2, 3), "create table {X} (a varchar(5)) comment = 'c'", "create-table-varchar-comment")
    add("unknownDatabase", "ddlTarget", "table", (3,), "create table {X} (a varchar(5)) comment = 'c'", "create-table-varchar-comment")
    add("unknownSchema", "ddlTarget", "schema", (1,), "drop schema nos", "drop-schema")
    add("unknownSchema", "ddlTarget", "schema", (2,), "drop schema db1.nos", "drop-schema")
    add("unknownDatabase", "ddlTarget", "schema", (2,), "drop schema nodb.s1", "drop-schema")
    add("unknownDatabase", "ddlTarget", "schema", (2,), "create schema nodb.s9", "create-schema")
    # USE is rewritten by transforms.set_schema into `SET schema = ...` before the pre-check: no table expression left
    add("unknownSchema", "useTarget", "noTable", (1,), "use schema nos", "use-schema")
    add("unknownSchema", "useTarget", "noTable", (1,), "use schema db1.nos", "use-schema-qualified")
    add("unknownDatabase", "useTarget", "noTable", (1,), "use schema nodb.s1", "use-schema-qualified")
    add("unknownDatabase", "useTarget", "noTable", (1,), "use database nodb", "use-database")
    for q3 in ((1, 2, 3),):
        add("unknownColumn", "query", "table", q3, "select nocol from {T}", "select-list")
        add("unknownColumn", "query", "table", q3, "select x.nocol from {T} x", "qualified-column")
        add("unknownColumn", "query", "table", q3, "select * from {T} where nocol = 1", "where")
        add("unknownColumn", "query", "table", q3, "select * from {T} order by nocol", "order-by")
        add("unknownColumn", "query", "table", q3, "select a from {T} group by nocol", "group-by")
        add("unknownColumn", "dmlTarget", "table", q3, "insert into {T} (a, nocol) values (1, 2)", "insert-columns")
        add("unknownColumn", "dmlTarget", "table", q3, "update {T} set nocol = 1", "update-set")
        add("unknownColumn", "dmlTarget", "table", q3, "update {T} set a = nocol", "update-rhs")
        add("unknownColumn", "dmlTarget", "table", q3, "delete from {T} where nocol = 1", "delete-where")
        add("unknownColumn", "ddlTarget", "table", q3, "alter table {T} drop column nocol", "alter-drop-col")
        add("unknownColumn", "ddlTarget", "table", q3, "alter table {T} rename column nocol to z", "alter-rename-col")
        add("unknownFunction", "query", "table", q3, "select nofn(a) from {T}", "scalar-fn")
        add("wrongValueCount", "dmlTarget", "table", q3, "insert into {T} values (1)", "too-few")
        add("wrongValueCount", "dmlTarget", "table", q3, "insert into {T} values (1, 2, 3)", "too-many")
        add("wrongValueCount", "dmlTarget", "table", q3, "insert into {T} (a) values (1, 2)", "column-list")
        add("wrongValueCount", "dmlTarget", "table", q3, "insert into {T} select a from {T2}", "insert-select")
        add("existsTable", "ddlTarget", "table", q3, "create table {T} (a int)", "create-table")
        add("existsTable", "ddlTarget", "table", q3, "create view {T} as select 1 a", "create-view-over-table")
        # failing DDL that carries side-table bookkeeping (comment, VARCHAR lengths): nothing of it may stick
        add("existsTable", "ddlTarget", "table", q3, "create table {T} (a int) comment = 'new'", "create-table-comment")
        add("existsTable", "ddlTarget", "table", q3, "create table {TV} (s varchar(99), n int)", "create-table-varchar")
        add("existsTable", "ddlTarget", "table", q3, "create table {TV} (s varchar(5), z varchar(6)) comment = 'new'", "create-table-varchar-comment")
        add("existsColumn", "ddlTarget", "table", q3, "alter table {TV} add column s varchar(42)", "alter-add-varchar")
        add("existsView", "ddlTarget", "table", q3, "create view {V} as select 1 a", "create-view")
        add("existsColumn", "ddlTarget", "table", q3, "alter table {T} add column a int", "alter-add")
        add("wrongKind", "ddlTarget", "table", q3, "drop view {T}", "drop-view-of-table")
        add("wrongKind", "ddlTarget", "table", q3, "drop table {V}", "drop-table-of-view")
    add("unknownFunction", "query", "noTable", (1,), "select nofn(1)", "scalar-fn-no-table")
    add("existsSchema", "ddlTarget", "schema", (1,), "create schema s2", "create-schema")
    add("existsSchema", "ddlTarget", "schema", (2,), "create schema db1.s2", "create-schema")
    add("existsDatabase", "ddlTarget", "database", (1,), "create database db2", "create-database")
    # metadata views through unknown databases / schemas, unknown views and columns of information_schema
    for view in ("columns", "tables", "schemata", "views", "databases"):
        x = f"nodb.information_schema.{view}"
        add("unknownDatabase", "query", "table", (3,), f"select * from {x}", f"info-schema-{view}-from")
        add("unknownDatabase", "query", "table", (3,), f"select 1 from {{T}} join {x} m on true", f"info-schema-{view}-join")
        add("unknownDatabase", "query", "table", (3,), f"select * from (select * from {x} where 1 = 1)", f"info-schema-{view}-subquery")
        add("unknownDatabase", "ddlSource", "table", (3,), f"create table {{N}} as select * from {x}", f"info-schema-{view}-ctas")
        add("unknownDatabase", "dmlSource", "table", (3,), f"insert into {{T2}} select 1 from {x}", f"info-schema-{view}-insert-select")
    add("unknownTable", "query", "table", (2,), "select * from information_schema.nope", "info-schema-unknown-view")
    add("unknownTable", "query", "table", (3,), "select * from db1.information_schema.nope", "info-schema-unknown-view")
    add("unknownSchema", "query", "table", (2,), "select * from nos.columns", "info-schema-like-name-in-missing-schema")
    add("unknownSchema", "query", "table", (3,), "select * from db1.nos.columns", "info-schema-like-name-in-missing-schema")
    add("unknownColumn", "query", "table", (2,), "select nocol from information_schema.columns", "info-schema-unknown-column")
    add("unknownColumn", "query", "table", (3,), "select nocol from db1.information_schema.tables", "info-schema-unknown-column")
    # the same failures through cursor.executemany (every row is a cursor.execute) ...
    for cause, quals in TABLE_CAUSES.items():
        add(cause, "dmlTarget", "table", quals, "insert into {X} values (%s, %s)", "executemany-insert")
        if cause == "unknownTable":
            add(cause, "dmlTarget", "table", quals, "delete from {X} where a = %s and b = %s", "executemany-delete")
    add("unknownColumn", "dmlTarget", "table", (1, 2, 3), "insert into {T} (a, nocol) values (%s, %s)", "executemany-insert-columns")
    add("unknownColumn", "dmlTarget", "table", (1, 2, 3), "update {T} set nocol = %s where a = %s", "executemany-update-set")
    add("wrongValueCount", "dmlTarget", "table", (1, 2, 3), "insert into {T} values (%s, %s, 3)", "executemany-too-many")
    # ... and through write_pandas (inserts through the DuckDB connection directly; run with database+schema)
    add("unknownTable", "dmlTarget", "table", (1,), "write_pandas(conn, df[A], 'NOPE')", "write-pandas-missing-table")
    add("unknownColumn", "dmlTarget", "table", (1,), "write_pandas(conn, df[NOCOL], 'T')", "write-pandas-missing-column")
    add("unknownSchema", "dmlTarget", "table", (2,), "write_pandas(conn, df[A], 'T', schema='NOS')", "write-pandas-missing-schema")
    add("unknownDatabase", "dmlTarget", "table", (3,), "write_pandas(conn, df[A], 'T', database='NODB', schema='S1')", "write-pandas-missing-database")
    # statements with nothing wrong but the session: they must be refused (90105 / 90106), not run against some default schema
    add("unknownTable", "ddlTarget", "table", (1,), "create table z9 (a int)", "would-succeed-create-table")
    add("unknownTable", "ddlTarget", "table", (1,), "create view zv9 as select 1 a", "would-succeed-create-view")
    add("unknownTable", "dmlTarget", "table", (1,), "insert into t2 values (5)", "would-succeed-insert")
    add("unknownTable", "query", "table", (1,), "select * from t", "would-succeed-select")
    for sql in ("create table if not exists z9 (a int)", "create or replace table z9 (a int)", "create table if not exists t (a int)", "create or replace view zv9 as select 1 a",
                "drop table t2", "drop table if exists t2", "drop table if exists nope", "drop view v", "drop view if exists v", "alter table if exists t2 add column z int",
                "truncate table if exists t2"):
        add("unknownTable", "ddlTarget", "table", (1,), sql, "would-succeed-" + sql.split(" (")[0].replace(" ", "-"))
    # CREATE / DROP SCHEMA need a current DATABASE only: every spelling, in the session without one
    for sql in ("create schema z8", "create schema if not exists z8", "create schema if not exists s2", "create or replace schema z8", "drop schema s2", "drop schema if exists s2",
                "drop schema if exists nos", "drop schema s2 cascade"):
        add("unknownSchema", "ddlTarget", "schema", (1,), sql, "would-succeed-db-" + sql.replace(" ", "-"))
    # finding positions (run with database+schema set only)
    add("unknownTable", "commentTarget", "noTable", (1,), "comment on table nope is 'c'", "comment-on")
    add("unknownTable", "commentTarget", "noTable", (1,), "alter table nope set comment = 'c'", "set-comment")
    add("unknownSchema", "commentTarget", "noTable", (1,), "comment on table nos.t is 'c'", "comment-on")
    add("unknownDatabase", "commentTarget", "noTable", (1,), "comment on table nodb.s1.t is 'c'", "comment-on")
    add("unknownSchema", "showScope", "noTable", (1,), "show tables in schema nos", "show-tables")
    add("unknownSchema", "showScope", "noTable", (1,), "show tables in schema db1.nos", "show-tables")
    add("unknownDatabase", "showScope", "noTable", (1,), "show tables in database nodb", "show-tables")
    add("unknownDatabase", "showScope", "noTable", (1,), "show schemas in database nodb", "show-schemas")
    add("unknownDatabase", "dropDatabase", "database", (1,), "drop database nodb", "drop-database")
    return out


FINDING_POS = ("commentTarget", "showScope", "dropDatabase")
STATES = {"TT": (True, True, dict(database="db1", schema="s1")), "TF": (True, False, dict(database="db1")), "FF": (False, False, {}),
          # reached from "no database" by USE statements: a qualified USE SCHEMA, or USE DATABASE followed by USE SCHEMA
          "UQ": (True, True, {}), "UD": (True, True, {}),
          # the session's own current schema (an empty S3) dropped by this connection: database only
          "DS": (True, False, dict(database="db1", schema="s3")), "DSQ": (True, False, dict(database="db1", schema="s3")),
          "DSI": (True, False, dict(database="db1", schema="s3")),
          "S3": (True, True, dict(database="db1", schema="s3"))}     # op sequences only: starts with a current schema S3
STATE_SETUP = {"UQ": ["use schema db1.s1"], "UD": ["use database db1", "use schema s1"],
               "DS": ["drop schema s3"], "DSQ": ["drop schema db1.s3"], "DSI": ["drop schema if exists s3"]}
SCEN_STATES = ["TT", "TF", "FF", "UQ", "UD", "DS", "DSQ", "DSI"]
NO_SCHEMA_STATES = ("TF", "FF", "DS", "DSQ", "DSI")


def render(t):
    q, cause = t["qual"], t["cause"]
    x = _name("t", q, cause) if "{X}" in t["fmt"] and cause in TABLE_CAUSES else ""
    return t["fmt"].format(X=x, XV=_name("nov", q), T=_name("t", q), T2=_name("t2", q), V=_name("v", q), N=_name("n1", q), TV=_name("tv", q))


MULTI = [
    {"kind": "scenops", "sql": "merge into t using t2 on t.a = t2.a when matched then update set nocol = 1", "ops": "x:0:0:-:11.0.-.-,11.1.-.-",
     "spec": "P:2043:02000", "state": "TT", "tx": False, "note": "MERGE = helper table + one DML per clause; the clause's DML fails"},
    {"kind": "scenops", "sql": "merge into t using t2 on t.a = t2.a when matched and t.b = 2 then update set b = 3 when not matched then insert (a, nocol) values (1, 2)",
     "ops": "x:0:0:-:11.0.-.-,11.0.-.-,11.1.-.-", "spec": "P:2043:02000", "state": "TT", "tx": False, "note": "second clause fails after the first clause's UPDATE ran"},
    {"kind": "scenops", "sql": "unset v9", "ops": "x:0:0:u.V9:00.0.-.-", "spec": "P:?:?", "state": "TT", "tx": False, "note": "UNSET of a variable that is not set"},
]


def is_first_qual(tpls, t):
    return t["qual"] == min(u["qual"] for u in tpls if (u["fmt"], u["cause"]) == (t["fmt"], t["cause"]))


# CTEs: only unqualified REAL table references need a current database / schema; a reference to the statement's own CTE needs none.
# wire `X:` = the table expression the pre-check looks at is a CTE reference.
def _cte(sql, state, spec, note):
    return {"kind": "scenops", "sql": sql, "ops": "X:0:0:-:11.9.-.-", "spec": spec, "state": state, "tx": False, "note": note}


CTE_CASES = [
    _cte("with c as (select * from db1.s1.t) select a from c", "TT", "ok", "pure CTE over a fully qualified table"),
    _cte("with c as (select * from db1.s1.t) select a from c", "TF", "ok", "pure CTE over a fully qualified table"),
    _cte("with c as (select * from db1.s1.t) select a from c", "FF", "ok", "pure CTE over a fully qualified table"),
    _cte("with t2 as (select * from s1.t2 where a > 0) select a from t2", "TT", "ok", "CTE named like the table it reads"),
    _cte("with t2 as (select * from s1.t2 where a > 0) select a from t2", "TF", "ok", "CTE named like the table it reads (schema-qualified: the database is current)"),
    _cte("with t2 as (select * from s1.t2 where a > 0) select a from t2", "FF", "P:90105:22000", "CTE named like the table it reads: s1.t2 needs a current database"),
    _cte("with t as (select * from db1.s1.t) select x.a from t x join s1.t2 y on x.a = y.a", "FF", "P:90105:22000", "a real schema-qualified table next to the CTE"),
    _cte("with t as (select * from db1.s1.t) select x.a from t x join t2 y on x.a = y.a", "TF", "P:90106:22000", "a real unqualified table next to the CTE"),
    _cte("with t2 as (select 1 a) select a from t2", "FF", "ok", "CTE without any table, named like a real table"),
]


def scen_cases():
    cases = []
    tpls = templates()
    for t in tpls:
        for st in SCEN_STATES:
            if t["variant"].startswith("would-succeed") and st not in NO_SCHEMA_STATES:
                continue  # statements that are only wrong because the session lacks the schema / database they need
            if any(w in t["variant"] for w in ("-comment", "-varchar")) and st not in ("TT", "FF"):
                continue  # the side-table variants matter where the statement reaches the engine (TT, and FF with a full name); keep the table small
            if t["variant"].startswith("would-succeed-db-") and st != "FF":
                continue  # ... these lack only a database
            if st == "DS" and t["qual"] != 1:
                continue  # qualified names behave as in the database-only session (TF), already covered
            if st in ("DSQ", "DSI") and not t["variant"].startswith("would-succeed"):
                continue  # the other spellings of the DROP: the statements that would otherwise succeed are enough
            if t["variant"].startswith("executemany") and st not in ("TT", "TF", "FF"):
                continue
            if t["variant"].startswith("write-pandas") and st != "TT":
                continue
            if t["variant"].startswith("info-schema") and st != "TT":
                continue  # the information_schema rewrites add unqualified helper tables: sessions without database/schema are C09's / C03's subject
            if t["pos"] in FINDING_POS and st != "TT":
                continue
            if st in STATE_SETUP and (t["pos"] in FINDING_POS or not is_first_qual(tpls, t) or t["variant"] == "cte"):
                continue  # the USE-reached states: one spelling per template is enough (they must behave like TT)
            if t["variant"] == "cte" and st != "TT":
                continue  # the pre-check takes the CTE reference for an unqualified table (C03's subject)
            if t["variant"] == "use-schema" and st == "FF":
                continue  # without a current database DuckDB is asked for 'missing_database.NOS': a Binder error (C03's subject)
            first_qual = is_first_qual(tpls, t)
            txs = (False, True) if st == "TT" and first_qual else (False,)
            if st == "TT" and first_qual and (t["variant"].startswith(("executemany", "write-pandas")) or t["variant"].endswith(("columns-from", "tables-ctas", "columns-insert-select")) or t["variant"] in ("from", "insert", "too-few")):
                txs = (False, True, "commit")     # True = the open transaction is rolled back at the end, "commit" = committed
            for tx in txs:
                cases.append({"kind": "scen", **{k: t[k] for k in ("cause", "pos", "refKind", "qual", "variant")}, "sql": render(t), "state": st, "tx": tx})
    return cases


# ------------------------------------------------------------------------------------------------
# real runs
# ------------------------------------------------------------------------------------------------
FIXTURE = ["create table t (a int, b int)", "insert into t values (1, 2)", "create table t2 (a int)", "insert into t2 values (1)",
           "create view v as select * from db1.s1.t", "create schema s2", "create database db2",
           "comment on table t is 'orig'", "create table tv (s varchar(7), n int) comment = 'tv-orig'"]


def enc_exc(e) -> str:
    import duckdb
    import snowflake.connector.errors as sferr
    if isinstance(e, sferr.ProgrammingError):
        return f"P:{e.errno}:{e.sqlstate}"
    if isinstance(e, sferr.DatabaseError):
        return f"D:{e.errno}:{e.sqlstate}"
    if isinstance(e, sferr.Error):
        return f"S:{type(e).__name__}:{e.errno}:{e.sqlstate}"
    if isinstance(e, duckdb.Error):
        return f"R:{type(e).__name__}"
    return f"Y:{type(e).__name__}"


def _q(cur, sql):
    try:
        cur.execute(sql)
        return [list(r) for r in cur.fetchall()]
    except Exception as e:
        return "ERR " + enc_exc(e)


def snapshot(conn, observer):
    """everything a failed statement must leave alone; `observer` is a connection with database+schema set"""
    oc = observer.cursor()
    snap = {
        "ctx": [conn.database, conn.schema],
        "var": _q(conn.cursor(), "select $v1"),
        "catalog": _q(oc, "select 'table' k, database_name d, schema_name s, table_name n, estimated_size z, column_count c from duckdb_tables() where table_name not like '_fs_%' "
                          "union all select 'view', database_name, schema_name, view_name, 0, 0 from duckdb_views() where not internal and view_name not like '_fs_%' "
                          "union all select 'schema', database_name, schema_name, '', 0, 0 from duckdb_schemas() where database_name not in ('system', 'temp') order by 1, 2, 3, 4"),
        "t": _q(oc, "select * from db1.s1.t order by 1, 2"),
        "t2": _q(oc, "select * from db1.s1.t2 order by 1"),
        "side_tables": _q(oc, "select * from db1.information_schema._fs_tables_ext order by 1, 2, 3"),
        "side_columns": _q(oc, "select * from db1.information_schema._fs_columns_ext order by 1, 2, 3, 4"),
    }
    return snap


def _real_scen(case, shared=None):
    """`shared` = the fixture connection of an instance that earlier scenarios left exactly as it was (their snapshots say so): this scenario
    gets its own new connection there.  Scenarios that legitimately change something (finding positions, multi-call) run on a fresh instance."""
    import contextlib
    import fakesnow
    import snowflake.connector
    with (contextlib.nullcontext() if shared else fakesnow.patch()):
        if shared:
            c0 = shared
        else:
            c0 = snowflake.connector.connect(database="db1", schema="s1")
            k = c0.cursor()
            for s in FIXTURE:
                k.execute(s)
        conn = c0 if (case["state"] == "TT" and not shared) else snowflake.connector.connect(**STATES[case["state"]][2])
        for q in STATE_SETUP.get(case["state"], []):
            conn.cursor().execute(q)
        conn.cursor().execute("set v1 = 5")
        cur = conn.cursor()
        if case["tx"]:
            cur.execute("begin")
            cur.execute("insert into db1.s1.t values (7, 7)")
        observer = conn if case["state"] == "TT" else c0
        before = snapshot(conn, observer)
        v = case.get("variant", "")
        try:
            if v.startswith("executemany"):
                cur.executemany(case["sql"], [(1, 2), (3, 4)])
            elif v.startswith("write-pandas"):
                import pandas as pd
                import snowflake.connector.pandas_tools as pt
                kw = {"write-pandas-missing-table": ("NOPE", "A", {}), "write-pandas-missing-column": ("T", "NOCOL", {}),
                      "write-pandas-missing-schema": ("T", "A", {"schema": "NOS"}), "write-pandas-missing-database": ("T", "A", {"database": "NODB", "schema": "S1"})}[v]
                pt.write_pandas(conn, pd.DataFrame({kw[1]: [1]}), kw[0], **kw[2])
            else:
                cur.execute(case["sql"])
            outcome = "ok"
        except Exception as e:
            outcome = enc_exc(e)
        res = {"outcome": outcome, "sqlstate": (None if v.startswith("write-pandas") and outcome.startswith("P:") else cur.sqlstate)}
        if v.startswith("write-pandas") and outcome.startswith("P:"):
            res["sqlstate"] = outcome.split(":")[2]      # write_pandas has no cursor of the caller's: only the exception is judged
        if case["kind"] == "scenops":
            cur.execute("select * from db1.s1.t order by 1, 2")  # reads through the statement's own connection
            res["t_own"] = [list(r) for r in cur.fetchall()]
        after = snapshot(conn, observer)
        res["changed"] = [k2 for k2 in before if before[k2] != after[k2]]
        res["before"], res["after"] = {k2: before[k2] for k2 in res["changed"]}, {k2: after[k2] for k2 in res["changed"]}
        # the connection is still usable, the open transaction still open and intact
        usable = []
        try:
            cur.execute("select 1")
            usable.append(cur.fetchall() == [(1,)] and cur.sqlstate is None)
            cur.execute("insert into db1.s1.t values (9, 9)")
            usable.append(cur.rowcount == 1)
            cur.execute("select count(*) from db1.s1.t")
            usable.append(cur.fetchall() == [(3 if case["tx"] else 2,)])
            if case["tx"] == "commit":
                cur.execute("commit")
                conn.cursor().execute("rollback")           # a no-op if the commit really ended the transaction
                k2 = c0.cursor()
                k2.execute("select * from db1.s1.t order by 1")
                usable.append(k2.fetchall() == [(1, 2), (7, 7), (9, 9)])
                k2.execute("delete from db1.s1.t where a in (7, 9)")
            elif case["tx"]:
                cur.execute("rollback")
                cur.execute("select * from db1.s1.t")
                usable.append(cur.fetchall() == [(1, 2)])
            else:
                cur.execute("delete from db1.s1.t where a = 9")
                usable.append(cur.rowcount == 1)
        except Exception as e:
            usable.append(f"raised {enc_exc(e)}: {str(e)[:100]}")
        res["usable"] = usable
        return res


# ------------------------------------------------------------------------------------------------
# B. op sequences
# ------------------------------------------------------------------------------------------------
# name -> (sql, wire encoding of the statement, spec outcome or None when the property makes no demand)
STMTS = {
    "ok-select": ("select * from t", "x:0:0:-:11.0.-.-", "ok"),
    "ok-const": ("select 1", "x:0:0:-:00.0.-.-", "ok"),
    "ok-insert": ("insert into t2 values (3)", "x:0:0:-:11.0.-.-", "ok"),
    "fail-table": ("select * from nope", "x:0:0:-:11.2.-.-", "P:2003:42S02"),
    "fail-column": ("select nocol from t", "x:0:0:-:11.1.-.-", "P:2043:02000"),
    "fail-exists": ("create table t (a int)", "x:0:0:-:11.2.-.-", "P:2003:42S02"),
    "fail-values": ("insert into t values (1)", "x:0:0:-:11.1.-.-", "P:2043:02000"),
    "fail-database": ("select * from nodb.s1.t", "x:0:0:-:00.1.-.-", "P:2043:02000"),
    "undefined-var": ("select $nope", "x:v.NOPE:0:-:-", "P:-1:n/a"),
    "use-var": ("select $v1", "x:v.V1:0:-:00.0.-.-", None),
    "set-var": ("set v1 = 1", "x:0:0:s.V1:00.0.-.-", "ok"),
    "unset-var": ("unset v1", "x:0:0:u.V1:00.0.-.-", None),
    "commit-no-tx": ("commit", "x:0:0:-:00.3.-.-", "ok"),
    "rollback-no-tx": ("rollback", "x:0:0:-:00.3.-.-", "ok"),
    "raw-conversion": ("select 'x'::int", "x:0:0:-:00.6.-.-", None),
    "raw-parse": ("selec 1", "x:0:1:-:-", None),
    "merge-second-call-fails": ("merge into t using t2 on t.a = t2.a when matched then update set nocol = 1", "x:0:0:-:11.0.-.-,11.1.-.-", "P:2043:02000"),
}
# statements used only in designed sequences (they need a particular state)
EXTRA = {
    "ok-select-tmp": ("select a from tmpx", "x:0:0:-:11.0.-.-", "ok"),
    "describe-select": ("select * from t", "x:0:0:-:11.0.-.-", "ok"),          # op kind "B": cursor.describe(sql)
    "use-schema-qualified": ("use schema db1.s1", "x:0:0:-:00.0.q.-", "ok"),
    "use-database": ("use database db1", "x:0:0:-:00.0.d.-", "ok"),
    "use-schema": ("use schema s1", "x:0:0:-:00.0.s.-", "ok"),
    "describe-missing": ("select * from nope", "x:0:0:-:11.2.-.-", "P:2003:42S02"),          # op kind "B"
    "describe-missing-column": ("select nocol from t", "x:0:0:-:11.1.-.-", "P:2043:02000"),  # op kind "B"
    "drop-current-schema": ("drop schema s3", "x:0:0:-:10.0.k.-", "ok"),
    "drop-current-schema-qualified": ("drop schema db1.s3", "x:0:0:-:00.0.k.-", "ok"),
    "drop-current-schema-if-exists": ("drop schema if exists s3", "x:0:0:-:10.0.k.-", "ok"),
    "create-z": ("create table z9 (a int)", "x:0:0:-:11.0.-.-", "ok"),
    "select-qualified": ("select * from db1.s1.t", "x:0:0:-:00.0.-.-", "ok"),
}
DESCRIBES = ["describe-select", "describe-missing", "describe-missing-column"]
# checked `cursor.description` reads (op kind "D"): wire encoding of the DESCRIBE call + DuckDB's reaction, demanded outcome when open
DESCR = {"plain": ("d:11.0.-.-", "ok"), "dropped-table": ("d:11.2.-.-", "P:2003:42S02"), "dropped-column": ("d:11.1.-.-", "P:2043:02000")}
# uses of the connection that are not a plain execute on the tracked cursor (op kind "K"): wire encoding (an execute on another
# cursor: `u:`), demanded outcome on an open connection; on a closed one every one of them must raise DatabaseError 250002/08003
CONN_USES = {
    "conn.commit()": "u:00.3.-.-", "conn.rollback()": "u:00.3.-.-", "conn.cursor().execute('select 1')": "u:00.0.-.-",
    "conn.execute_string('select 1; select 2')": "u:00.0.-.-,00.0.-.-", "write_pandas(conn, df, 'T2')": "u:00.0.-.-",
    "write_pandas(conn, df, 'T9', auto_create_table=True)": "u:00.0.-.-,00.0.-.-", "conn.cursor().executemany(insert, 2 rows)": "u:11.0.-.-,11.0.-.-",
    "conn.cursor().describe('select * from t')": "u:11.0.-.-",
}
OTHERS = ["fetchall", "fetchone", "description", "rowcount", "fetchmany", "cursor.close()", "with contextlib.closing(cursor)"]


def conn_use(conn, name):
    import pandas as pd
    import snowflake.connector.pandas_tools as pt
    if name == "conn.commit()":
        conn.commit()
    elif name == "conn.rollback()":
        conn.rollback()
    elif name.startswith("conn.cursor().execute("):
        conn.cursor().execute("select 1")
    elif name.startswith("conn.execute_string"):
        list(conn.execute_string("select 1; select 2"))
    elif name.startswith("write_pandas(conn, df, 'T2')"):
        pt.write_pandas(conn, pd.DataFrame({"A": [1]}), "T2")
    elif name.startswith("write_pandas"):
        pt.write_pandas(conn, pd.DataFrame({"A": [1]}), "T9", auto_create_table=True)
    elif name.startswith("conn.cursor().executemany"):
        conn.cursor().executemany("insert into t2 values (%s)", [(1,), (2,)])
    else:
        conn.cursor().describe("select * from t")


def stmt(name):
    return STMTS[name] if name in STMTS else EXTRA[name]


def designed_seqs():
    out = []
    for a in ("ok-select", "ok-const", "ok-insert", "set-var", "commit-no-tx"):
        out.append({"kind": "seq", "ops": [["x", a], ["D", "plain"], ["c", "close"], ["D", "plain"], ["B", "describe-select"], ["D", "plain"], ["o", "fetchall"]]})
    tmp = [["y", "create table tmpx (a int, b int)"], ["y", "insert into tmpx values (1, 2)"], ["x", "ok-select-tmp"], ["D", "plain"]]
    out.append({"kind": "seq", "ops": tmp + [["y", "drop table tmpx"], ["D", "dropped-table"], ["o", "fetchall"], ["x", "ok-const"], ["D", "plain"]]})
    out.append({"kind": "seq", "ops": tmp + [["y", "alter table tmpx drop column a"], ["D", "dropped-column"], ["x", "fail-table"], ["D", "dropped-column"]]})
    out.append({"kind": "seq", "ops": tmp + [["y", "drop table tmpx"], ["c", "close"], ["D", "dropped-table"]]})
    # closing the CURSOR is not an execute: the sqlstate of the failed statement stays readable
    for a in ("fail-table", "fail-column", "undefined-var", "ok-select"):
        for cl in ("cursor.close()", "with contextlib.closing(cursor)"):
            out.append({"kind": "seq", "ops": [["x", a], ["o", cl], ["o", "rowcount"], ["o", cl], ["x", "ok-const"], ["x", "fail-values"], ["o", cl]]})
    # any use of a closed connection
    for u in CONN_USES:
        out.append({"kind": "seq", "ops": [["x", "fail-table"], ["K", u], ["c", "close"], ["K", u], ["o", "fetchall"], ["K", u]]})
    out.append({"kind": "seq", "ops": [["c", "close"]] + [["K", u] for u in CONN_USES]})
    # describe() is an execute on the cursor itself: it sets / clears cursor.sqlstate like any other
    for a in ("fail-column", "fail-table", "ok-select", "undefined-var"):
        for b in DESCRIBES:
            out.append({"kind": "seq", "ops": [["x", a], ["B", b], ["o", "fetchall"], ["o", "rowcount"], ["x", "ok-const"], ["B", b]]})
    out.append({"kind": "seq", "ops": [["B", "describe-missing"], ["B", "describe-select"], ["B", "describe-missing-column"], ["x", "fail-table"], ["B", "describe-select"]]})
    # the session drops its own current schema (an empty S3), in three spellings
    for d in ("drop-current-schema", "drop-current-schema-qualified", "drop-current-schema-if-exists"):
        for x in ("create-z", "ok-select", "fail-table", "ok-insert"):
            out.append({"kind": "seq", "state": "S3", "ops": [["x", d], ["x", x], ["x", "select-qualified"], ["x", "ok-const"], ["x", "use-schema"], ["x", "ok-select"], ["x", "fail-column"]]})
    for x in ("ok-select", "fail-table", "fail-column", "fail-exists", "fail-values", "ok-insert"):
        out.append({"kind": "seq", "state": "FF", "ops": [["x", x]]})
        out.append({"kind": "seq", "state": "FF", "ops": [["x", "use-database"], ["x", x]]})
        out.append({"kind": "seq", "state": "FF", "ops": [["x", "use-database"], ["x", "use-schema"], ["x", x], ["x", "ok-select"]]})
        out.append({"kind": "seq", "state": "FF", "ops": [["x", "use-schema-qualified"], ["x", x], ["x", "ok-select"], ["x", "fail-table"]]})
    return out


def gen_seq(rnd, with_close):
    names = list(STMTS)
    n = rnd.randint(3, 9)
    ops = []
    for _ in range(n):
        r = rnd.random()
        if r < 0.1:
            ops.append(("B", rnd.choice(DESCRIBES)))
        elif r < 0.35:
            ops.append(("o", rnd.choice(OTHERS)))
        else:
            ops.append(("x", rnd.choice(names)))
    if with_close:
        ops.insert(rnd.randint(1, len(ops)), ("c", "close"))
        ops += [("x", rnd.choice(names)) for _ in range(rnd.randint(1, 3))] + [("B", rnd.choice(DESCRIBES)), ("o", rnd.choice(OTHERS))]
    return ops


def seq_cases(chk):
    rnd = random.Random(chk.seed + 7)
    cases = []
    # every statement kind once after a failing one and once before (sqlstate set -> reset), then with close
    for a, b in itertools.product(STMTS, STMTS):
        cases.append({"kind": "seq", "ops": [["x", a], ["o", "fetchall"], ["x", b], ["o", "description"], ["o", "rowcount"]]})
    for a in STMTS:
        cases.append({"kind": "seq", "ops": [["x", "fail-table"], ["c", "close"], ["x", a], ["o", "fetchall"], ["x", a]]})
        cases.append({"kind": "seq", "ops": [["c", "close"], ["x", a], ["o", "description"]]})
    cases += designed_seqs()
    n = 100 if chk.tier == "quick" else 4000
    for i in range(n):
        cases.append({"kind": "seq", "ops": [list(o) for o in gen_seq(rnd, with_close=i % 3 == 0)]})
    return cases


def _real_seq(case, shared=None):
    """`shared`: an instance whose fixture exists already - the sequence gets its own new connection (session variables, context and the
    closed flag are per connection); sequences that create/drop objects through another cursor get a fresh instance"""
    import contextlib
    import fakesnow
    import snowflake.connector
    out = []
    with (contextlib.nullcontext() if shared else fakesnow.patch()):
        if not shared:
            k = snowflake.connector.connect(database="db1", schema="s1").cursor()
            for s in FIXTURE:
                k.execute(s)
        conn = snowflake.connector.connect(**STATES[case.get("state", "TT")][2])
        cur = conn.cursor()
        for kind, name in case["ops"]:
            outcome = "-"
            try:
                if kind == "x":
                    outcome = "ok"
                    cur.execute(stmt(name)[0])
                elif kind == "B":
                    outcome = "ok"
                    cur.describe(stmt(name)[0])
                elif kind == "D":
                    outcome = "ok"
                    cur.description
                elif kind == "K":
                    outcome = "ok"
                    conn_use(conn, name)
                elif kind == "y":
                    conn.cursor().execute(name)
                elif kind == "c":
                    conn.close()
                elif name == "fetchall":
                    cur.fetchall()
                elif name == "fetchone":
                    cur.fetchone()
                elif name == "fetchmany":
                    cur.fetchmany(2)
                elif name == "rowcount":
                    cur.rowcount
                elif name == "description":
                    cur.description
                elif name == "cursor.close()":
                    cur.close()
                elif name == "with contextlib.closing(cursor)":
                    import contextlib
                    with contextlib.closing(cur):
                        pass
            except Exception as e:
                outcome = enc_exc(e) if kind in ("x", "B", "D", "K") else "-"
            out.append([outcome, cur.sqlstate])
    return out


# ------------------------------------------------------------------------------------------------
# workers / comparison
# ------------------------------------------------------------------------------------------------

def _worker(shard):
    import fakesnow
    import snowflake.connector
    out = {}
    share = [i for i, c in enumerate(shard) if c["kind"] == "seq" and not any(k == "y" for k, _ in c["ops"])]
    if share:
        with fakesnow.patch():
            k = snowflake.connector.connect(database="db1", schema="s1").cursor()
            for s in FIXTURE:
                k.execute(s)
            for i in share:
                out[i] = _real_seq(shard[i], shared=True)
    share = [i for i, c in enumerate(shard) if c["kind"] == "scen" and c["pos"] not in FINDING_POS]
    if share:
        with fakesnow.patch():
            c0 = snowflake.connector.connect(database="db1", schema="s1")
            for s in FIXTURE:
                c0.cursor().execute(s)
            for i in share:
                out[i] = _real_scen(shard[i], shared=c0)
    for i, c in enumerate(shard):
        if i not in out:
            out[i] = (_real_seq if c["kind"] == "seq" else _real_scen)(c)
    return [out[i] for i in range(len(shard))]


def _lines(cases):
    out = []
    for c in cases:
        if c["kind"] == "scenops":
            a, b, _ = STATES[c["state"]]
            out.append("\t".join(["err", "ops", "1" if a else "0", "1" if b else "0", "V1", c["ops"]]))
        elif c["kind"] == "scen":
            a, b, _ = STATES[c["state"]]
            out.append("\t".join(["err", "scen", c["cause"], c["pos"], c["refKind"], str(c["qual"]), "1" if a else "0", "1" if b else "0"]))
        else:
            ops = ";".join("o" if k in ("o", "y") else "c" if k == "c" else DESCR[n][0] if k == "D" else CONN_USES[n] if k == "K" else stmt(n)[1] for k, n in c["ops"])
            a, b, _ = STATES[c.get("state", "TT")]
            out.append("\t".join(["err", "ops", "1" if a else "0", "1" if b else "0", "-", ops]))
    return out


def _check_scen(chk, case, real, reply):
    if case["kind"] == "scenops":
        impl_o, _st, impl_ch, key = reply["impl"].split("|")
        spec_o, spec_ch = case["spec"], "0"
        chk.count("scen:multi-call-or-variable")
    else:
        impl_o, impl_ch = reply["impl"].split("|")
        spec_o, spec_ch = reply["spec"].split("|")
        key = reply["finding"]
        chk.count(f"scen:{case['cause']}:{case['pos']}")
    chk.case(("scen", case["sql"], case["state"], case["tx"]), nontrivial=True)
    chk.count(f"state:{case['state']}{':tx' if case['tx'] else ''}")
    chk.count(f"outcome:{real['outcome']}")
    where = (f"`{case['sql']}`" + (" through cursor.executemany with rows [(1, 2), (3, 4)]" if case.get("variant", "").startswith("executemany") else "")
             + f" (session {case['state']}{', inside BEGIN after an uncommitted INSERT of (7, 7)' if case['tx'] else ''}{', later COMMITted' if case['tx'] == 'commit' else ''})")
    changed = "1" if real["changed"] else "0"
    want_state = spec_o.split(":")[2] if spec_o.startswith("P:") else None
    ok = real["outcome"] == spec_o and changed == spec_ch and real["sqlstate"] == want_state and all(u is True for u in real["usable"])
    if ok:
        if (impl_o, impl_ch) != (spec_o, spec_ch) and key == "-":
            chk.violation(f"model inconsistency (C07_table_partial says predict=spec): {reply['_raw']}", case, broken="C07_table_partial", failing_input=False)
        return
    what = (f"{where}: raised {real['outcome']}, cursor.sqlstate={real['sqlstate']!r}, changed={real['changed']} "
            f"{ {k: (real['before'][k], real['after'][k]) for k in real['changed']} if real['changed'] else ''}, usable-after={real['usable']}; "
            f"required {spec_o} with cursor.sqlstate={want_state!r}, nothing changed, connection usable")
    if key != "-" and real["outcome"] == impl_o and changed == impl_ch:
        chk.finding(key, what, case)
    else:
        chk.violation(what, case, broken="C07_table_partial / C07_unchanged / C07_translated (correspondence with Fs.Err.predict)")


def _check_seq(chk, case, real, reply):
    steps = reply["impl"].split(";")
    names = [n for _, n in case["ops"]]
    state = case.get("state", "TT")
    chk.case(("seq", state, tuple(map(tuple, case["ops"]))), nontrivial=any((k == "x" and stmt(n)[2] not in ("ok", None)) or k == "K" for k, n in case["ops"]))
    closed = False
    for i, ((kind, name), (r_out, r_state), step) in enumerate(zip(case["ops"], real, steps)):
        m_out, m_state, _m_changed, key = step.split("|")
        m_state = None if m_state == "-" else m_state
        chk.count(f"op:{'connection-use' if kind == 'K' else 'execute' if kind == 'x' else 'describe()' if kind == 'B' else 'description (checked)' if kind == 'D' else 'other-cursor' if kind == 'y' else name}")
        if kind == "c":
            closed = True
        if kind in ("x", "B"):
            chk.count(f"stmt:{name}:{'closed' if closed else 'open'}")
            spec_o = "D:250002:08003" if closed else stmt(name)[2]
            if state != "TT" and not closed:
                spec_o = m_out       # which pre-check / engine code applies in a USE-built state is the model's statement (C07_precheck, C07_use_schema_qualified)
            if spec_o is None:  # no demand by the property: the model's prediction is the reference ...
                spec_o = m_out if key == "-" else "P:?:?"   # ... unless Lean places the statement in a finding region
            spec_state = spec_o.split(":")[2] if spec_o.startswith("P:") else None
        elif kind == "D":
            spec_o = "D:250002:08003" if closed else DESCR[name][1]
            spec_state = m_state          # reading description never touches cursor.sqlstate
        elif kind == "K":
            spec_o = "D:250002:08003" if closed else "ok"
            spec_state = m_state          # another cursor's business: this cursor's sqlstate stays
        else:
            spec_o, spec_state = "-", m_state
        if (r_out, r_state) == (spec_o, spec_state):
            if (m_out, m_state) != (spec_o, spec_state) and key == "-":
                chk.violation(f"model inconsistency: op #{i} {name}: model {m_out}/{m_state} vs spec {spec_o}/{spec_state}", case, broken="C07_sqlstate_ops", failing_input=False)
                return
            continue
        shown = name if kind == "K" else stmt(name)[0] if kind == "x" else f"cursor.describe({stmt(name)[0]!r})" if kind == "B" else "cursor.description" if kind == "D" else name
        what = (f"session {state}, ops {names}: op #{i} `{shown}`{' on the closed connection' if closed else ''} gave {r_out} with cursor.sqlstate={r_state!r}; "
                f"required {spec_o} with cursor.sqlstate={spec_state!r}")
        if key != "-" and (r_out, r_state) == (m_out, m_state):
            chk.finding(key, what, case)
        else:
            chk.violation(what, case, broken="C07_sqlstate / C07_sqlstate_ops / C07_closed / C07_description_translated / C07_use_schema_qualified (correspondence with Fs.Err.execute)")
            return


def _evaluate(chk, cases, reals, replies):
    for c, r, m in zip(cases, reals, replies):
        if "impl" not in m:
            raise common.Infra(f"driver could not parse: {m.get('_raw')} for {c}")
        (_check_seq if c["kind"] == "seq" else _check_scen)(chk, c, r, m)


def _corpus():
    import json
    d = common.CORPUS / "C07"
    return [json.loads(f.read_text())["case"] for f in sorted(d.glob("*.json"))] if d.is_dir() else []


def run(chk) -> None:
    cases = _corpus()
    chk.extra["corpus_cases"] = len(cases)
    scen = scen_cases()
    cases += scen + MULTI + CTE_CASES + seq_cases(chk)
    chk.rule = ("A: every template of the cause x position table (13 causes, 10 positions, FROM/JOIN/subquery/CTE/IN, DML targets and sources, DDL targets "
                "and sources, USE, DESCRIBE, COMMENT, SHOW, DROP DATABASE) x every qualification level x 3 session states x outside/inside a transaction, "
                "fresh instance each, full before/after state snapshot + usability afterwards; B: all ordered pairs of 17 statement kinds with fetch/description "
                "between, checked description / describe() after close and after the described object was dropped through another cursor, sessions built from "
                "'no database' by USE DATABASE / USE SCHEMA / qualified USE SCHEMA, "
                "between, close variants, random op sequences of 3-12 ops.  non-trivial = every scenario; a sequence containing a failing in-scope statement")
    shards = common.chunks(cases, 16)
    reals = common.shard_map(_worker, shards)
    replies = [common.batch(_lines(s)) for s in shards]
    for shard, rs, ms in zip(shards, reals, replies):
        _evaluate(chk, shard, rs, ms)
    chk.exhaustive = True
    chk.extra["exhaustive_part"] = f"cause x position x qualification x state x tx table: {len(scen)} scenarios; all {len(STMTS)}^2 statement pairs"
    chk.samples = [{"sql": c["sql"], "state": c["state"], "tx": c["tx"]} for c in scen[100:104]] + [c for c in cases if c["kind"] == "seq"][400:402]
    chk.assumptions = ["a DuckDB statement that raises leaves DuckDB's state (data, catalog, open transaction) unchanged - checked by the snapshots on every scenario",
                       "statements reach DuckDB with at most one offending reference (one cause per statement)"]
    chk.trusted += ["DuckDB exception class per cause (Fs.Err.duckClass / reaction: Binder for missing catalog, missing column, wrong value count, duplicate ATTACH; "
                    "Catalog for tables, views, schemas, functions, existing column, wrong object kind) - exercised exhaustively",
                    "checks.is_unqualified_table_expression looks at the first table expression only (scenarios qualify every name at the same level)"]


def replay(chk, case) -> None:
    reals = _worker([case])
    _evaluate(chk, [case], reals, common.batch(_lines([case])))
