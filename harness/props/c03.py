"""C03 — names resolve against each connection's own current database and schema.

Correspondence: generated histories (CREATE/DROP DATABASE|SCHEMA|TABLE|VIEW, USE DATABASE, USE SCHEMA [db.]s, `USE x`,
INSERT/SELECT/two-table SELECT at the three qualification levels, SELECT CURRENT_DATABASE(), CURRENT_SCHEMA(), connect)
on 1-3 connections of one fresh fakesnow instance.  After EVERY step the harness observes the statement's outcome
(rows / errno+sqlstate / exception), `conn.database`, `conn.schema` and `SELECT CURRENT_DATABASE(), CURRENT_SCHEMA()` of
every connection, and the complete catalog (databases, schemas, tables, views) through an observer connection; at the end
the rows of every object.  The same history is run by `Fs.Names.Impl.step` (code model) and, one step at a time from the
abstraction of the code model's state, by `Fs.Names.Spec.step` (what the property demands).

Verdict per step: real = spec -> held; real != spec, step lies in a finding region of the Lean classifier `region`
and real = impl -> KNOWN-FINDING; anything else -> VIOLATION.  For a connection that a known finding left incoherent
(spec `?`) the real behaviour must equal the code model exactly.
"""
from __future__ import annotations

import random

from lib import common
from lib.common import enc_list, dec_list

MAIN, MEMORY, OBS = 0, 1, 2
DBS = {11: "DB1", 12: "DB2", 13: "DB3", 14: "dbq"}
SCHEMAS = {21: "S1", 22: "S2", 23: "S3", 24: "Sq"}
TABLES = {31: "T1", 32: "T2", 33: "T3"}
QUOTED_ONLY = {14, 24}   # created and referenced only in double quotes, exactly as written (lower / mixed case names)
NAMES = {MAIN: "main", MEMORY: "memory", OBS: "OBS", **DBS, **SCHEMAS, **TABLES}
IDS = {v: k for k, v in NAMES.items()}   # exact: an unquoted name is reported in upper case, a quoted one as written


def sqlname(i: int) -> str:
    return '"' + NAMES[i] + '"' if i in QUOTED_ONLY else NAMES[i]
SQLSTATE = {90105: "22000", 90106: "22000", 2043: "02000", 2003: "42S02"}


# ----------------------------------------------------------------------------------------------
# generation (abstract op + the exact SQL text; all randomness from the seed)
# ----------------------------------------------------------------------------------------------

def _spell(rnd, s: str) -> str:
    k = rnd.random()
    if k < 0.45:
        return s.lower()
    if k < 0.8:
        return s.upper()
    return "".join(c.upper() if rnd.random() < 0.5 else c.lower() for c in s)


def _kw(rnd, s: str) -> str:
    return s if rnd.random() < 0.5 else s.upper()


class Gen:
    def __init__(self, rnd, flags=(1, 1)):
        self.rnd = rnd
        self.flags = flags
        self.history: list = []
        self.val = 0
        # rough shadow of what exists, only used to bias name choice (never for verdicts)
        self.dbs: set = set()
        self.schemas: set = set()
        self.objs: set = set()
        self.nsess = 0

    def name(self, i):
        if i in QUOTED_ONLY:
            return '"' + NAMES[i] + '"'
        if self.rnd.random() < 0.1:
            return '"' + NAMES[i].upper() + '"'   # quoted spelling of the same name
        return _spell(self.rnd, NAMES[i])

    def pick_db(self):
        r = self.rnd
        if self.dbs and r.random() < 0.8:
            return r.choice(sorted(self.dbs))
        return r.choice(list(DBS))

    def pick_schema(self):
        """(db, schema)"""
        r = self.rnd
        if self.schemas and r.random() < 0.75:
            return r.choice(sorted(self.schemas))
        return (self.pick_db(), r.choice(list(SCHEMAS)))

    def pick_obj(self):
        r = self.rnd
        if self.objs and r.random() < 0.7:
            return r.choice(sorted(self.objs))
        d, s = self.pick_schema()
        return (d, s, r.choice(list(TABLES)))

    def sref(self):
        d, s = self.pick_schema()
        if self.rnd.random() < 0.55:
            return f"{s}", self.name(s), (d, s)
        return f"{d}.{s}", f"{self.name(d)}.{self.name(s)}", (d, s)

    def tref(self):
        d, s, n = self.pick_obj()
        k = self.rnd.random()
        if k < 0.45:
            return f"{n}", self.name(n), (d, s, n)
        if k < 0.75:
            return f"{s}.{n}", f"{self.name(s)}.{self.name(n)}", (d, s, n)
        return f"{d}.{s}.{n}", f"{self.name(d)}.{self.name(s)}.{self.name(n)}", (d, s, n)

    def connect(self):
        r = self.rnd
        k = r.random()
        self.nsess += 1
        fl = f"{self.flags[0]},{self.flags[1]}"
        if k < 0.15:
            return {"op": f"c,-,-,{fl}", "connect": [None, None]}
        if k < 0.4:
            d = r.choice([11, 12, 13])
            if self.flags[0]:
                self.dbs.add(d)
            return {"op": f"c,{d},-,{fl}", "connect": [_spell(r, NAMES[d]), None]}
        d, s = r.choice([11, 12, 13]), r.choice([21, 22, 23])
        if self.flags[0]:
            self.dbs.add(d)
        if self.flags[1] and d in self.dbs:
            self.schemas.add((d, s))
        return {"op": f"c,{d},{s},{fl}", "connect": [_spell(r, NAMES[d]), _spell(r, NAMES[s])]}

    def two(self, i):
        """two-table statement: target (often qualified into another schema than the current one, with a same-named object in the
        current schema) and source; INSERT…SELECT and CTAS optionally read the source through a CTE whose name may equal the target's"""
        r = self.rnd
        kw = lambda s: _kw(r, s)  # noqa: E731
        op = r.choices(["is", "cs", "cl", "uf", "du", "mg"], [5, 4, 3, 3, 3, 5])[0]
        ea, ta, oa = self.tref()
        for _ in range(6):
            eb, tb, ob = self.tref()
            if op in ("is", "cs", "cl") or ob[2] != oa[2]:
                break
        if op in ("uf", "du", "mg") and ob[2] == oa[2]:   # DuckDB rejects the duplicate alias: not explored
            n2 = r.choice([n for n in TABLES if n != oa[2]])
            ob = (ob[0], ob[1], n2)
            eb, tb = f"{ob[1]}.{n2}", f"{self.name(ob[1])}.{self.name(n2)}"
        if op == "mg" and r.random() < 0.85:   # MERGE cannot take a qualified source (C03/merge-qualified-source)
            eb, tb = f"{ob[2]}", self.name(ob[2])
        ab, bb = self.name(oa[2]), self.name(ob[2])
        if op in ("cs", "cl"):
            self.objs.add(oa)
        cte = op in ("is", "cs") and r.random() < 0.4
        cname = self.name(oa[2]) if r.random() < 0.6 and oa[2] != ob[2] else _spell(r, "cte1")   # a CTE named like its own source would be circular
        src = f"{kw('with')} {cname} {kw('as')} ({kw('select')} x {kw('from')} {tb}) {kw('select')} x {kw('from')} {cname}" if cte else f"{kw('select')} x {kw('from')} {tb}"
        sql = {"is": f"{kw('insert into')} {ta} (x) {src}",
               "cs": f"{kw('create table')} {ta} {kw('as')} {src}",
               "cl": f"{kw('create table')} {ta} {kw('clone')} {tb}",
               "uf": f"{kw('update')} {ta} {kw('set')} x = {ab}.x + 1000 {kw('from')} {tb} {kw('where')} {ab}.x = {bb}.x",
               "du": f"{kw('delete from')} {ta} {kw('using')} {tb} {kw('where')} {ab}.x = {bb}.x",
               "mg": f"{kw('merge into')} {ta} {kw('using')} {tb} {kw('on')} {ab}.x = {bb}.x {kw('when not matched then insert')} (x) {kw('values')} ({bb}.x)"}[op]
        return {"op": f"s,{i},w,{op},{ea},{eb}", "sql": sql}

    WEIGHTS = [("su", 14), ("ud", 7), ("sc", 8), ("sd", 9), ("cd", 3), ("dd", 1), ("ub", 1), ("tc", 15), ("td", 6),
               ("ti", 12), ("ts", 11), ("j", 4), ("x", 4), ("c", 2), ("w", 20)]

    def stmt(self):
        """a new statement, or — every eighth time — an earlier statement of the history repeated verbatim on its connection (same text,
        possibly under another context by now)"""
        if self.rnd.random() < 0.13 and self.history:
            old = self.rnd.choice(self.history)
            return dict(old)
        o = self._stmt()
        if "sql" in o and "wp" not in o:
            self.history.append(o)
            # context-sensitive statements are the interesting ones to repeat
            if o["op"].split(",")[2] in ("su", "sc", "sd") and "." not in o["op"].split(",")[-1]:
                self.history.append(o)
                self.history.append(o)
        return o

    def _stmt(self):
        r = self.rnd
        weights = [(k, w * 4 if k == "cd" and not self.flags[0] else w * 2 if k in ("sc", "c") and self.flags != (1, 1) else w) for k, w in self.WEIGHTS]
        kind = r.choices([k for k, _ in weights], [w for _, w in weights])[0]
        if kind == "c":
            if self.nsess >= 4:
                kind = "su"
            else:
                return self.connect()
        i = r.randrange(1, self.nsess)  # connection 0 is the observer
        kw = lambda s: _kw(r, s)  # noqa: E731
        if kind in ("cd", "dd", "ud", "ub"):
            d = self.pick_db() if kind != "cd" or r.random() < 0.3 else r.choice(list(DBS))
            ifx = int(kind == "cd" and r.random() < 0.3)
            sql = {"cd": f"{kw('create database if not exists' if ifx else 'create database')} {self.name(d)}", "dd": f"{kw('drop database')} {self.name(d)}",
                   "ud": f"{kw('use database')} {self.name(d)}", "ub": f"{kw('use')} {self.name(d)}"}[kind]
            if kind == "cd":
                self.dbs.add(d)
            return {"op": f"s,{i},{kind},{d}" + (f",{ifx}" if kind == "cd" else ""), "sql": sql}
        if kind in ("sc", "sd", "su"):
            enc, txt, (d, s) = self.sref()
            ifx = int(kind != "su" and r.random() < 0.35)
            sql = {"sc": f"{kw('create schema if not exists' if ifx else 'create schema')} {txt}",
                   "sd": f"{kw('drop schema if exists' if ifx else 'drop schema')} {txt}", "su": f"{kw('use schema')} {txt}"}[kind]
            if kind == "sc":
                self.schemas.add((d, s))
            if kind == "sd" and r.random() < 0.7:
                self.schemas.discard((d, s))
            return {"op": f"s,{i},{kind}," + ("" if kind == "su" else f"{ifx},") + enc, "sql": sql}
        if kind == "tc":
            enc, txt, o = self.tref()
            self.objs.add(o)
            ifx = int(r.random() < 0.25)
            if r.random() < 0.75:
                n = r.randint(2, 60)   # declared VARCHAR length: the text-length bookkeeping must file it under the table's own schema
                return {"op": f"s,{i},tc,t,0,{ifx},{enc}", "vlen": n,
                        "sql": f"{kw('create table if not exists' if ifx else 'create table')} {txt} (x {kw('int')}, v {kw('varchar')}({n}))"}
            self.val += 1
            return {"op": f"s,{i},tc,v,{self.val},{ifx},{enc}",
                    "sql": f"{kw('create view if not exists' if ifx else 'create view')} {txt} {kw('as select')} {self.val} {kw('as')} x"}
        if kind == "td":
            enc, txt, o = self.tref()
            k = "t" if r.random() < 0.75 else "v"
            if r.random() < 0.7:
                self.objs.discard(o)
            ifx = int(r.random() < 0.3)
            what = ('drop table' if k == 't' else 'drop view') + (' if exists' if ifx else '')
            return {"op": f"s,{i},td,{k},{ifx},{enc}", "sql": f"{kw(what)} {txt}"}
        if kind == "ti":
            enc, txt, _ = self.tref()
            self.val += 1
            form = r.random()
            if '"' in txt and form < 0.2:
                form = 0.9     # IDENTIFIER('…') with quoted parts is not explored (duckdb ParserException on the unchanged tree)
            if form < 0.2:     # the table named through IDENTIFIER('<name>') or IDENTIFIER($var)
                if r.random() < 0.5:
                    return {"op": f"s,{i},ii,{self.val},{enc}", "sql": f"{kw('insert into identifier')}('{txt}') (x) {kw('values')} ({self.val})"}
                return {"op": f"s,{i},ii,{self.val},{enc}", "pre": f"{kw('set')} tbl = '{txt}'", "sql": f"{kw('insert into identifier')}($tbl) (x) {kw('values')} ({self.val})"}
            if form < 0.35:    # write_pandas(conn, df, table, database=?, schema=?): the three meaningful combinations
                parts = txt.split(".")
                args = {"table_name": parts[-1]}
                if len(parts) >= 2:
                    args["schema"] = parts[-2]
                if len(parts) == 3:
                    args["database"] = parts[0]
                return {"op": f"s,{i},wp,{self.val},{enc}", "wp": args, "sql": f"write_pandas(conn, DataFrame(X=[{self.val}]), {', '.join(f'{k_}={v_!r}' for k_, v_ in args.items())})"}
            return {"op": f"s,{i},ti,{self.val},{enc}", "sql": f"{kw('insert into')} {txt} (x) {kw('values')} ({self.val})"}
        if kind == "ts":
            enc, txt, _ = self.tref()
            form = 0.9 if '"' in txt else r.random()
            if form < 0.15:
                return {"op": f"s,{i},is,{enc}", "sql": f"{kw('select')} x {kw('from identifier')}('{txt}') {kw('order by')} x"}
            if form < 0.25:
                return {"op": f"s,{i},is,{enc}", "pre": f"{kw('set')} tbl = '{txt}'", "sql": f"{kw('select')} x {kw('from identifier')}($tbl) {kw('order by')} x"}
            return {"op": f"s,{i},ts,{enc}", "sql": f"{kw('select')} x {kw('from')} {txt} {kw('order by')} x"}
        if kind == "w":
            return self.two(i)
        if kind == "j":
            e1, t1, _ = self.tref()
            e2, t2, _ = self.tref()
            return {"op": f"s,{i},j,{e1},{e2}", "sql": f"{kw('select count')}(*) {kw('from')} {t1} a, {t2} b"}
        return {"op": f"s,{i},x", "sql": f"{kw('select current_database')}(), {kw('current_schema')}()"}


def prefix(flags) -> list[dict]:
    """the observer: connects without context, creates and enters its own database (works under every flag pair)"""
    fl = f"{flags[0]},{flags[1]}"
    return [{"op": f"c,-,-,{fl}", "connect": [None, None]}, {"op": f"s,0,cd,{OBS},0", "sql": "create database obs"},
            {"op": f"s,0,ud,{OBS}", "sql": "use database obs"}]


def suffix() -> list[dict]:
    """the observer enters every database in turn; after each successful USE DATABASE it reads the declared VARCHAR lengths of that
    database's tables (information_schema.columns must be read from a connection of that database)"""
    return [{"op": f"s,0,ud,{d}", "sql": f"use database {sqlname(d)}", "lens": d} for d in DBS]


def gen_history(rnd, length: int) -> dict:
    flags = rnd.choices([(1, 1), (0, 1), (1, 0), (0, 0)], [60, 16, 10, 14])[0]
    g = Gen(rnd, flags)
    ops = prefix(flags)
    g.nsess = 1
    for _ in range(rnd.choice([1, 1, 2, 2, 3])):
        ops.append(g.connect())
    for _ in range(length):
        ops.append(g.stmt())
    return {"flags": list(flags), "ops": ops + suffix()}


def _upgrade(op: str, flags) -> str:
    """old corpus token format -> current (IF EXISTS flags = 0, connect flags of the history)"""
    t = op.split(",")
    if t[0] == "c":
        return ",".join(t + [str(flags[0]), str(flags[1])])
    k = t[2]
    if k == "cd":
        return ",".join(t + ["0"])
    if k in ("sc", "sd"):
        return ",".join(t[:3] + ["0"] + t[3:])
    if k == "tc":
        return ",".join(t[:5] + ["0"] + t[5:])
    if k == "td":
        return ",".join(t[:4] + ["0"] + t[4:])
    return op


# hand-written histories that always run first: one per finding region / repaired defect / adversarial shape
def corpus() -> list[dict]:
    def H(*steps, flags=(1, 1), raw=False):
        ops = prefix(flags)
        for st in steps:
            op = st[0] if raw else _upgrade(st[0], flags)
            ops.append({"op": op, "connect": list(st[1])} if op.startswith("c,") else {"op": op, "sql": st[1]})
        return {"flags": list(flags), "ops": ops + suffix()}
    c11 = ("c,11,21", ("db1", "s1"))
    c22 = ("c,12,22", ("db2", "s2"))
    c0 = ("c,-,-", (None, None))
    return [
        # repaired: qualified USE SCHEMA switches the database too; probe rows land in db2.s2
        H(c11, c22, ("s,1,su,12.22", "use schema db2.s2"), ("s,1,tc,t,0,31", "create table t1 (x int)"), ("s,1,ti,1,31", "insert into t1 (x) values (1)"),
          ("s,2,ts,31", "select x from t1 order by x"), ("s,1,ts,12.22.31", "select x from db2.s2.t1 order by x"), ("s,1,x", "select current_database(), current_schema()")),
        # repaired: DROP SCHEMA otherdb.S1 must not reset DB1.S1; dropping the own current schema gives 90106 afterwards
        H(c11, ("c,12,21", ("db2", "s1")), ("s,1,sd,12.21", "drop schema db2.s1"), ("s,1,tc,t,0,31", "create table t1 (x int)"),
          ("s,1,sd,21", "drop schema s1"), ("s,1,tc,t,0,32", "create table t2 (x int)"), ("s,1,x", "select current_database(), current_schema()"),
          ("s,1,sc,21", "create schema s1"), ("s,1,su,11.21", "use schema db1.s1"), ("s,1,sd,11.21", "drop schema db1.s1"), ("s,1,ts,31", "select x from t1 order by x")),
        # known: USE DATABASE keeps a stale schema, unqualified names land in main, later fall back to main
        H(c11, ("s,1,ud,11", "use database db1"), ("s,1,tc,t,0,32", "create table t2 (x int)"), ("s,1,ti,4,32", "insert into t2 (x) values (4)"),
          ("s,1,su,21", "use schema s1"), ("s,1,ts,32", "select x from t2 order by x"), ("s,1,ti,5,32", "insert into t2 (x) values (5)"), ("s,1,td,t,32", "drop table t2")),
        # known: another connection drops my current schema
        H(c11, c11, ("s,2,sd,11.21", "drop schema db1.s1"), ("s,1,tc,t,0,31", "create table t1 (x int)"), ("s,1,x", "select current_database(), current_schema()"),
          ("s,1,sc,22", "create schema s2"), ("s,1,su,22", "use schema s2"), ("s,1,tc,t,0,31", "create table t1 (x int)")),
        # known: DROP DATABASE, USE without kind, non-first table, CURRENT_SCHEMA() = main
        H(c11, c0, ("s,1,tc,t,0,31", "create table t1 (x int)"), ("s,2,j,11.21.31,31", "select count(*) from db1.s1.t1 a, t1 b"),
          ("s,2,j,31,11.21.31", "select count(*) from t1 a, db1.s1.t1 b"), ("s,2,x", "select current_database(), current_schema()"),
          ("s,1,dd,11", "drop database db1"), ("s,1,ub,11", "use db1"), ("s,1,tc,t,0,32", "create table t2 (x int)"), ("s,2,ub,11", "use db1")),
        # 90105 / 90106 at every level, then qualified names work without any context
        H(c0, ("c,11,-", ("db1", None)), ("s,1,tc,t,0,31", "create table t1 (x int)"), ("s,1,tc,t,0,21.31", "create table s1.t1 (x int)"), ("s,1,sc,21", "create schema s1"),
          ("s,1,su,21", "use schema s1"), ("s,1,sc,11.21", "create schema db1.s1"), ("s,1,tc,t,0,11.21.31", "create table db1.s1.t1 (x int)"),
          ("s,2,tc,t,0,31", "create table t1 (x int)"), ("s,2,tc,t,0,21.31", "create table s1.t1 (x int)"), ("s,2,ti,1,21.31", "insert into s1.t1 (x) values (1)"),
          ("s,1,su,11.21", "use schema db1.s1"), ("s,1,ts,31", "select x from t1 order by x"), ("s,2,sd,21", "drop schema s1"), ("s,1,ts,31", "select x from t1 order by x")),
        # IF EXISTS / IF NOT EXISTS and quoted spellings: dropping the own current schema in every spelling gives 90106 afterwards
        H(("c,11,21,1,1", ("db1", "s1")), ("s,1,sd,1,21", "drop schema if exists s1"), ("s,1,tc,t,0,1,31", "create table if not exists t1 (x int)"),
          ("s,1,sc,1,21", "create schema if not exists s1"), ("s,1,sc,1,21", 'create schema if not exists "S1"'), ("s,1,su,21", "use schema s1"),
          ("s,1,sd,1,11.21", 'drop schema if exists db1."S1"'), ("s,1,ts,31", "select x from t1 order by x"), ("s,1,sd,1,22", "drop schema if exists s2"),
          ("s,1,sc,0,11.22", "create schema db1.s2"), ("s,1,su,22", 'use schema "S2"'), ("s,1,tc,t,0,1,31", "create table if not exists t1 (x int)"),
          ("s,1,tc,t,0,1,31", "create table if not exists t1 (x int)"), ("s,1,tc,v,3,1,31", "create view if not exists t1 as select 3 as x"),
          ("s,1,tc,v,4,0,32", "create view t2 as select 4 as x"), ("s,1,tc,t,0,1,32", "create table if not exists t2 (x int)"), ("s,1,td,t,1,32", "drop table if exists t2"),
          ("s,1,td,v,1,33", "drop view if exists t3"), ("s,1,td,t,1,23.31", "drop table if exists s3.t1"), ("s,1,sd,1,22", 'drop schema if exists "S2"'),
          ("s,1,ti,1,31", "insert into t1 (x) values (1)"), ("s,1,cd,11,1", "create database if not exists db1"), raw=True),
        # create_*_on_connect = False: a connection names a database / schema that does not exist yet; another connection creates
        # them; the first connection's own qualified USE SCHEMA then gives it the full context
        H(("c,11,21,0,0", ("db1", "s1")), ("c,-,-,0,0", (None, None)), ("s,1,ts,31", "select x from t1 order by x"), ("s,2,cd,11,0", "create database db1"),
          ("s,2,sc,0,11.21", "create schema db1.s1"), ("s,2,tc,t,0,0,11.21.31", "create table db1.s1.t1 (x int)"), ("s,1,ts,21.31", "select x from s1.t1 order by x"),
          ("s,1,su,11.21", "use schema db1.s1"), ("s,1,ti,1,31", "insert into t1 (x) values (1)"), ("s,1,ts,21.31", "select x from s1.t1 order by x"),
          ("s,1,sc,0,22", "create schema s2"), ("s,1,x", "select current_database(), current_schema()"), flags=(0, 0), raw=True),
        # …the same with the unqualified USE SCHEMA (resolves against the *named* database, database_set stays False) and USE DATABASE;
        # a named schema that is missing while the database exists
        H(("c,11,21,0,0", ("db1", "s1")), ("c,-,-,0,0", (None, None)), ("s,2,cd,11,0", "create database db1"), ("s,2,sc,0,11.21", "create schema db1.s1"),
          ("s,1,su,21", "use schema s1"), ("s,1,tc,t,0,0,31", "create table t1 (x int)"), ("s,1,ud,11", "use database db1"), ("s,1,su,21", "use schema s1"),
          ("s,1,tc,t,0,0,31", "create table t1 (x int)"), ("c,11,22,0,0", ("DB1", "S2")), ("s,3,tc,t,0,0,32", "create table t2 (x int)"),
          ("s,3,sc,0,22", "create schema s2"), ("s,3,su,22", "use schema s2"), ("s,3,tc,t,0,0,32", "create table t2 (x int)"), flags=(0, 0), raw=True),
        # two-table statements whose target lives in another schema than the current one, with a same-named table in the current schema
        H(("c,11,21,1,1", ("db1", "s1")), ("s,1,sc,0,22", "create schema s2"), ("s,1,tc,t,0,0,31", "create table t1 (x int)"), ("s,1,tc,t,0,0,22.31", "create table s2.t1 (x int)"),
          ("s,1,tc,t,0,0,32", "create table t2 (x int)"), ("s,1,ti,1,32", "insert into t2 (x) values (1)"), ("s,1,ti,7,32", "insert into t2 (x) values (7)"), ("s,1,ti,1,22.31", "insert into s2.t1 (x) values (1)"),
          ("s,1,w,mg,22.31,32", "merge into s2.t1 using t2 on t1.x = t2.x when not matched then insert (x) values (t2.x)"), ("s,1,w,is,11.22.31,32", "insert into db1.s2.t1 (x) select x from t2"),
          ("s,1,w,uf,22.31,21.32", "update s2.t1 set x = t1.x + 1000 from s1.t2 where t1.x = t2.x"), ("s,1,w,du,22.31,32", "delete from s2.t1 using t2 where t1.x = t2.x"),
          ("s,1,w,cs,22.33,31", "create table s2.t3 as select x from t1"), ("s,1,w,cl,22.32,22.31", "create table s2.t2 clone s2.t1"), ("s,1,w,mg,31,22.31", "merge into t1 using s2.t1 on t1.x = t1.x when not matched then insert (x) values (t1.x)"),
          ("s,1,ts,31", "select x from t1 order by x"), raw=True),
        # CTEs: the CTE's name may equal the target's name; on connections without schema / database the unqualified target still needs one
        H(("c,11,21,1,1", ("db1", "s1")), ("c,11,-,1,1", ("db1", None)), ("c,-,-,1,1", (None, None)), ("s,1,tc,t,0,0,31", "create table t1 (x int)"), ("s,1,ti,1,31", "insert into t1 (x) values (1)"),
          ("s,2,w,cs,32,11.21.31", "create table t2 as with t2 as (select x from db1.s1.t1) select x from t2"), ("s,3,w,cs,32,11.21.31", "create table t2 as with t2 as (select x from db1.s1.t1) select x from t2"),
          ("s,2,w,is,31,11.21.31", "insert into t1 (x) with t1 as (select x from db1.s1.t1) select x from t1"), ("s,3,w,is,31,11.21.31", "insert into t1 (x) with cte1 as (select x from db1.s1.t1) select x from cte1"),
          ("s,1,w,cs,32,11.21.31", "create table t2 as with t2 as (select x from db1.s1.t1) select x from t2"), ("s,1,w,is,32,31", "insert into t2 (x) with t2 as (select x from t1) select x from t2"),
          ("s,2,w,cs,21.33,21.31", "create table s1.t3 as with t3 as (select x from s1.t1) select x from t3"), ("s,3,w,cs,21.33,21.31", "create table s1.t3 as with c as (select x from s1.t1) select x from c"), raw=True),
        # other ways to name a table: IDENTIFIER('<name>') / IDENTIFIER($var) and write_pandas(database=?, schema=?) at every level, with a
        # same-named table in the current schema; sized VARCHARs declared outside the current schema
        {"flags": [1, 1], "ops": prefix((1, 1)) + [
            {"op": "c,11,21,1,1", "connect": ["db1", "s1"]}, {"op": "c,11,-,1,1", "connect": ["db1", None]}, {"op": "s,1,sc,0,22", "sql": "create schema s2"},
            {"op": "s,1,tc,t,0,0,31", "sql": "create table t1 (x int, v varchar(3))", "vlen": 3}, {"op": "s,1,tc,t,0,0,22.31", "sql": "create table s2.t1 (x int, v varchar(10))", "vlen": 10},
            {"op": "s,1,ii,1,22.31", "sql": "insert into identifier('s2.t1') (x) values (1)"}, {"op": "s,1,ii,2,11.22.31", "pre": "set tbl = 'db1.s2.t1'", "sql": "insert into identifier($tbl) (x) values (2)"},
            {"op": "s,1,ii,3,31", "sql": "insert into identifier('T1') (x) values (3)"}, {"op": "s,1,is,22.31", "pre": "set tbl = 'S2.T1'", "sql": "select x from identifier($tbl) order by x"},
            {"op": "s,1,is,11.21.31", "sql": "select x from identifier('db1.s1.t1') order by x"}, {"op": "s,2,is,11.22.31", "sql": "select x from identifier('db1.s2.t1') order by x"},
            {"op": "s,1,wp,4,31", "wp": {"table_name": "t1"}, "sql": "write_pandas(conn, df, 't1')"}, {"op": "s,1,wp,5,22.31", "wp": {"table_name": "t1", "schema": "s2"}, "sql": "write_pandas(conn, df, 't1', schema='s2')"},
            {"op": "s,1,wp,6,11.22.31", "wp": {"table_name": "T1", "schema": "S2", "database": "DB1"}, "sql": "write_pandas(conn, df, 'T1', database='DB1', schema='S2')"},
            {"op": "s,2,wp,7,22.31", "wp": {"table_name": "t1", "schema": "s2"}, "sql": "write_pandas(conn, df, 't1', schema='s2')"}, {"op": "s,2,wp,8,31", "wp": {"table_name": "t1"}, "sql": "write_pandas(conn, df, 't1')"},
            {"op": "s,1,ts,31", "sql": "select x from t1 order by x"}, {"op": "s,1,ts,22.31", "sql": "select x from s2.t1 order by x"}] + suffix()},
        # the same statement text repeated on one connection (one long-lived cursor) under a different context must be resolved afresh
        H(("c,11,21,1,1", ("db1", "s1")), ("s,1,cd,12,0", "create database db2"), ("s,1,sc,0,11.22", "create schema db1.s2"), ("s,1,sc,0,12.22", "create schema db2.s2"),
          ("s,1,su,22", "use schema s2"), ("s,1,tc,t,0,0,31", "create table t1 (x int)"), ("s,1,ud,12", "use database db2"), ("s,1,su,22", "use schema s2"),
          ("s,1,x", "select current_database(), current_schema()"), ("s,1,tc,t,0,0,31", "create table t1 (x int)"), ("s,1,ti,1,31", "insert into t1 (x) values (1)"),
          ("s,1,su,11.21", "use schema db1.s1"), ("s,1,ti,1,31", "insert into t1 (x) values (1)"), ("s,1,sd,0,22", "drop schema s2"), ("s,1,su,12.22", "use schema db2.s2"),
          ("s,1,sd,0,22", "drop schema s2"), ("s,1,tc,t,0,0,31", "create table t1 (x int)"), raw=True),
        # quoted lower / mixed-case database and schema names: reported exactly as written
        H(("c,11,21,1,1", ("db1", "s1")), ("s,1,cd,14,0", 'create database "dbq"'), ("s,1,ud,14", 'use database "dbq"'), ("s,1,x", "select current_database(), current_schema()"),
          ("s,1,sc,0,24", 'create schema "Sq"'), ("s,1,su,24", 'use schema "Sq"'), ("s,1,tc,t,0,0,31", "create table t1 (x int)"), ("s,1,ti,1,14.24.31", 'insert into "dbq"."Sq".t1 (x) values (1)'),
          ("s,1,ts,31", "select x from t1 order by x"), ("s,1,su,11.21", "use schema db1.s1"), ("s,1,su,14.24", 'use schema "dbq"."Sq"'), ("s,1,x", "select current_database(), current_schema()"),
          ("s,1,sd,1,24", 'drop schema if exists "Sq"'), ("s,1,tc,t,0,0,32", "create table t2 (x int)"), raw=True),
    ]


# ----------------------------------------------------------------------------------------------
# real run (worker processes; public API only)
# ----------------------------------------------------------------------------------------------

def _id(name):
    if name is None:
        return "-"
    return str(IDS.get(str(name), f"?{name}"))


def _real_res(conn, op: str, sql: str, opd: dict | None = None, cur=None) -> str:
    import snowflake.connector.errors as E
    kind = op.split(",")[2]
    opd = opd or {}
    try:
        if "wp" in opd:
            import pandas as pd
            import snowflake.connector.pandas_tools as pt
            pt.write_pandas(conn, pd.DataFrame({"X": [int(op.split(",")[3])]}), **opd["wp"])
            return "ok"
        cur = cur or conn.cursor()   # the connection's long-lived cursor (statements of one client usually share a cursor)
        if "pre" in opd:
            cur.execute(opd["pre"])
        cur.execute(sql)
        rows = cur.fetchall()
    except E.ProgrammingError as e:
        st = SQLSTATE.get(e.errno)
        if st is None or e.sqlstate != st:
            return f"e{e.errno}:{e.sqlstate}"
        return f"e{e.errno}"
    except Exception as e:  # untranslated
        return f"eraw[{type(e).__name__}]"
    if kind in ("ts", "is"):
        return "r" + ".".join(str(r[0]) for r in rows)
    if kind == "j":
        return "r" + ".".join(str(r[0]) for r in rows)
    if kind == "x":
        return f"c{_id(rows[0][0])}/{_id(rows[0][1])}"
    return "ok"


def _catalog(obs) -> str:
    """canonical `dbs|schemas|objs` (sorted) seen through the observer connection; rows are added by _rows"""
    cur = obs.cursor()
    cur.execute("select catalog_name, schema_name from obs.information_schema.schemata")
    dbs, schemas = set(), set()
    for c, s in cur.fetchall():
        if c in ("system", "temp", "_fs_global"):
            continue
        dbs.add(_id(c))
        if s not in ("main", "information_schema", "pg_catalog"):
            schemas.add(f"{_id(c)}.{_id(s)}")
    cur.execute("select table_catalog, table_schema, table_name, table_type from obs.information_schema.tables")
    objs = set()
    for c, s, n, t in cur.fetchall():
        if c in ("system", "temp", "_fs_global") or s in ("information_schema", "pg_catalog"):
            continue
        objs.add(f"{_id(c)}.{_id(s)}.{_id(n)}:{'v' if t == 'VIEW' else 't'}")
    return ",".join(sorted(dbs)) + "|" + ",".join(sorted(schemas)) + "|" + ",".join(sorted(objs))


def _rows(obs, cat: str) -> str:
    out = []
    for o in [x for x in cat.split("|")[2].split(",") if x]:
        fq, k = o.split(":")
        d, s, n = (sqlname(int(p)) if p.isdigit() else p for p in fq.split("."))
        cur = obs.cursor()
        try:
            cur.execute(f"select x from {d}.{s}.{n} order by x")
            out.append(f"{fq}:{k}:" + ".".join(str(r[0]) for r in cur.fetchall()))
        except Exception as e:
            out.append(f"{fq}:{k}:!{type(e).__name__}")
    return ",".join(sorted(out))


def _current(c) -> str:
    try:
        cur = c.cursor()
        cur.execute("select current_database(), current_schema()")
        d, s = cur.fetchall()[0]
        return f"{_id(d)}/{_id(s)}"
    except Exception as e:
        return f"!{type(e).__name__}/!"


CTX_KINDS = {"su", "ud", "ub", "sd", "dd", "cd", "connect"}   # after these CURRENT_* of EVERY connection is re-read
DDL_KINDS = {"tc", "td", "sc", "sd", "cd", "dd", "connect", "w"}   # after these the catalog is re-read
ROW_KINDS = {"w", "wp", "ii"}   # after these the rows of every object are re-read (which table did the rows land in)


def real_history(hist: dict) -> list[str]:
    """one observation string per op: `<res>~<sessions>~<catalog>` (+ `~<rows>` on the last op).
    conn.database/conn.schema of every connection are read after every step; CURRENT_DATABASE()/CURRENT_SCHEMA() of the
    issuing connection after every step and of every connection after every context-changing kind of statement; the
    catalog after every DDL statement (successful or not) and at the end."""
    import fakesnow
    import snowflake.connector
    out = []
    ops = hist["ops"]
    cd, cs = hist["flags"]
    with fakesnow.patch(create_database_on_connect=bool(cd), create_schema_on_connect=bool(cs)):
        conns, paths, cat = [], [], None
        cursors: dict = {}   # one long-lived cursor per connection for the history's statements (observations use fresh cursors)
        for k, op in enumerate(ops):
            last = k == len(ops) - 1
            if "connect" in op:
                d, s = op["connect"]
                kw = {}
                if d is not None:
                    kw["database"] = d
                if s is not None:
                    kw["schema"] = s
                try:
                    conns.append(snowflake.connector.connect(**kw))
                    paths.append("?/?")
                    res, kind, i = "ok", "connect", len(conns) - 1
                except Exception as e:
                    out.append(f"eraw[{type(e).__name__}]~~")
                    break
            else:
                i = int(op["op"].split(",")[1])
                kind = op["op"].split(",")[2]
                if i not in cursors:
                    cursors[i] = conns[i].cursor()
                res = _real_res(conns[i], op["op"], op["sql"], op, cursors[i])
            if kind in CTX_KINDS or last:
                paths = [_current(c) for c in conns]
            else:
                paths[i] = _current(conns[i])
            if k >= 2 and (kind in DDL_KINDS or last or cat is None):   # steps 0-2: the observer connects, creates and enters its database
                cat = _catalog(conns[0])
            sess = "!".join(f"{_id(c.database)}/{_id(c.schema)}/{p}" for c, p in zip(conns, paths))
            obs = f"{res}~{sess}~{cat or ''}"
            if last or (kind in ROW_KINDS and cat):
                obs += "~" + _rows(conns[0], cat)
            if "lens" in op and res == "ok":
                cur = conns[0].cursor()
                cur.execute("select table_schema, table_name, character_maximum_length from information_schema.columns "
                            f"where table_catalog = '{NAMES[op['lens']]}' and column_name = 'V'")
                obs += "~L:" + ",".join(sorted(f"{_id(a)}.{_id(b)}={c}" for a, b, c in cur.fetchall()))
            out.append(obs)
    return out


def _worker(shard):
    import fakesnow
    assert common.REPO in __import__("pathlib").Path(fakesnow.__file__).resolve().parents, fakesnow.__file__
    return [real_history(h) for h in shard]


# ----------------------------------------------------------------------------------------------
# comparison
# ----------------------------------------------------------------------------------------------

def _canon_cat(c: str, with_rows: bool) -> str:
    dbs, schemas, objs = c.split("|")
    os_ = []
    for o in [x for x in objs.split(",") if x]:
        fq, k, rows = (o.split(":") + [""])[:3]
        rows = ".".join(sorted(rows.split("."), key=lambda v: int(v) if v.isdigit() else -1)) if rows else ""
        os_.append(f"{fq}:{k}:{rows}" if with_rows else f"{fq}:{k}")
    return ",".join(sorted(x for x in dbs.split(",") if x)) + "|" + ",".join(sorted(x for x in schemas.split(",") if x)) + "|" + ",".join(sorted(os_))


def _canon_res(res: str) -> str:
    """rows of `select x … order by x`: the model keeps insertion order, the query sorts — compare as sorted multisets"""
    if res.startswith("r") and res[1:] and all(p.isdigit() for p in res[1:].split(".")):
        return "r" + ".".join(str(v) for v in sorted(int(p) for p in res[1:].split(".")))
    return res


def _check_history(chk, hist: dict, real: list[str], reply: dict) -> None:
    ops = hist["ops"]
    case = {"flags": hist["flags"], "ops": ops}
    steps = dec_list(reply.get("steps", ""))
    if len(steps) != len(ops):
        raise common.Infra(f"model answered {len(steps)} steps for {len(ops)} ops: {reply.get('_raw', '')[:300]}")
    fp = tuple(o["op"] for o in ops)
    chk.count(f"history:create_database_on_connect={hist['flags'][0]},create_schema_on_connect={hist['flags'][1]}")
    nontrivial = sum(1 for o in ops if not o["op"].startswith("c,")) >= 3
    lens: dict = {}
    prev_objs: set = set()
    chk.case(fp, nontrivial=nontrivial)
    for k, op in enumerate(ops):
        if k >= len(real):
            break
        impl_res, spec_res, key, sess, impl_cat, spec_cat = steps[k].split("~")
        impl_res, spec_res = _canon_res(impl_res), _canon_res(spec_res)
        if key == "unsupported":   # outcome not modelled (duplicate alias): the history ends
            chk.count("skipped_unsupported:two-table statement with equal bare names")
            return
        any_error = key.endswith("+anyerror")   # target and source both faulty, different classes: any error, nothing may change
        if any_error:
            key = key[:-len("+anyerror")]
            chk.count("steps:double-fault (error class not compared)")
        parts = real[k].split("~")
        lens_part = next((p_[2:] for p_ in parts[3:] if p_.startswith("L:")), None)
        parts = [p_ for p_ in parts if not p_.startswith("L:")]
        r_res, r_sess, r_cat = _canon_res(parts[0]), parts[1], parts[2]
        # declared VARCHAR lengths, keyed by the fully qualified table the model created
        cur_objs = {o.split(":")[0] for o in impl_cat.split("|")[2].split(",") if o and o.split(":")[1] == "t"}
        if "vlen" in op and impl_res == "ok" and len(cur_objs - prev_objs) == 1:
            # only a CREATE issued on a coherent connection outside every finding region has a specified bookkeeping
            lens[next(iter(cur_objs - prev_objs))] = op["vlen"] if (spec_res != "?" and key == "-") else None
            if not (spec_res != "?" and key == "-"):
                # e.g. after C03/use-database-stale-schema the lengths are filed under the stale schema: a same-named table there is clobbered
                for k_ in lens:
                    if k_.split(".")[2] == op["op"].split(",")[-1].split(".")[-1]:
                        lens[k_] = None
        if "vlen" in op and impl_res == "ok" and cur_objs == prev_objs:
            # CREATE TABLE IF NOT EXISTS on an existing table creates nothing but re-records the lengths (C09/create-if-not-exists-overwrites-metadata)
            for k_ in lens:
                if k_.split(".")[2] == op["op"].split(",")[-1].split(".")[-1]:
                    lens[k_] = None
        for gone in [k_ for k_ in lens if k_ not in cur_objs]:
            del lens[gone]
        prev_objs = cur_objs
        if lens_part is not None:
            skip = {f"{k_.split('.')[1]}.{k_.split('.')[2]}" for k_, n_ in lens.items() if n_ is None}
            tracked = {f"{k_.split('.')[1]}.{k_.split('.')[2]}" for k_, n_ in lens.items() if n_ is not None and k_.split(".")[0] == str(op["lens"])}
            # tables that got their V column by CLONE (no CREATE of their own: C09/metadata-lost-on-clone) are not tracked
            lens_part = ",".join(e_ for e_ in lens_part.split(",") if e_ and e_.split("=")[0] in tracked)
            want_l = ",".join(sorted(f"{k_.split('.')[1]}.{k_.split('.')[2]}={n_}" for k_, n_ in lens.items()
                                     if n_ is not None and k_.split(".")[0] == str(op["lens"])))
            chk.count("lens-observations")
            if lens_part != want_l:
                chk.violation(f"declared VARCHAR lengths of the tables of database {NAMES[op['lens']]} (information_schema.columns, column V) are [{lens_part}], "
                              f"the CREATE TABLE statements declared [{want_l}] (schema.table=length, names as numbers)", {**case, "step": k},
                              broken="C03 mechanism 4: text-length bookkeeping files under the statement's own schema (cursor.py:369-376)")
                return
        kind = "connect" if "connect" in op else op["op"].split(",")[2]
        chk.count("op:" + kind)
        chk.count("res:" + (r_res[:6] if r_res.startswith("e") else r_res[:1]))
        text = op.get("sql") or f"connect{tuple(op['connect'])}"
        where = f"step {k} `{text}`" + (f" on connection {op['op'].split(',')[1]}" if "sql" in op else "")
        msess = [s.split("/") for s in sess.split("!")]
        rsess = [s.split("/") for s in r_sess.split("!")] if r_sess else []
        r_res_c = "eraw" if r_res.startswith("eraw") else r_res
        if any_error and r_res_c in ("e2003", "e2043"):
            r_res_c = impl_res
        impl_fields = [m[0:2] for m in msess]
        impl_paths = [m[2:4] for m in msess]
        spec_ctx = [m[4:6] for m in msess]
        real_fields = [r[0:2] for r in rsess]
        real_paths = [r[2:4] for r in rsess]
        if r_cat == "":   # before the observer's database exists the catalog cannot be listed
            r_cat = impl_cat if spec_cat == "?" else spec_cat
        r_cat_c, impl_cat_c = _canon_cat(r_cat, False), _canon_cat(impl_cat, False)
        # the observer connection reports `obs`-relative names like everybody else; compare everything
        eq_impl = (r_res_c == impl_res and real_fields == impl_fields and real_paths == impl_paths and r_cat_c == impl_cat_c)
        rows_spec_ok = True
        if len(parts) > 3:  # last step: rows of every object
            r_rows = _canon_cat("||" + parts[3], True).split("|")[2]
            eq_impl = eq_impl and r_rows == _canon_cat(impl_cat, True).split("|")[2]
            rows_spec_ok = spec_cat == "?" or r_rows == _canon_cat(spec_cat, True).split("|")[2]
            r_cat_c += " rows " + r_rows
        if spec_res == "?":
            chk.count("steps:incoherent-connection(real vs code model only)")
            if not eq_impl:
                chk.violation(f"{where}: real behaviour differs from the code model on a connection left incoherent by a known finding: "
                              f"real result={r_res} model={impl_res}; real (database,schema)={real_fields} model={impl_fields}; "
                              f"real CURRENT_*={real_paths} model={impl_paths}; real catalog={r_cat_c} model={impl_cat_c}",
                              {**case, "step": k}, broken="correspondence Fs.Names.Impl.step")
                return
            continue
        chk.count("steps:compared-with-spec")
        spec_ok = (r_res_c == spec_res and rows_spec_ok and _canon_cat(r_cat, False) == _canon_cat(spec_cat, False)
                   and all(sc == ["?", "?"] or sc == rf for sc, rf in zip(spec_ctx, real_fields)) and len(spec_ctx) == len(real_fields))
        if spec_ok:
            # the DuckDB side must still follow the code model (CURRENT_* of every connection)
            if real_paths != impl_paths:
                chk.violation(f"{where}: CURRENT_DATABASE()/CURRENT_SCHEMA() of the connections are {real_paths}, the code model says {impl_paths} "
                              f"(conn.database/conn.schema = {real_fields})", {**case, "step": k}, broken="C03_reports (correspondence of the DuckDB search path)")
                return
            if not eq_impl:
                chk.notes.append(f"finding {key} not reproduced at `{text}` (real = spec, code model differs)") if len(chk.notes) < 5 else None
                chk.count("steps:real=spec≠impl")
            continue
        what = (f"{where}: result {r_res} (required {spec_res}); conn.(database,schema) per connection {real_fields} (required {spec_ctx}); "
                f"catalog {r_cat_c} (required {_canon_cat(spec_cat, False)})")
        if key != "-" and eq_impl:
            chk.count("finding:" + key)
            chk.finding(key, what, {**case, "step": k})
            if key not in chk.known:
                return
            continue
        chk.violation(what + f"; code model predicted result {impl_res}, fields {impl_fields}, CURRENT_* {impl_paths} (real {real_paths}), catalog {impl_cat_c}"
                      + (f"; step is in finding region {key} but the behaviour is not the recorded one" if key != "-" else ""),
                      {**case, "step": k}, broken="C03_refines / C03_coherent (correspondence with Fs.Names.Spec.step)")
        return


def _histories(chk) -> list[list[dict]]:
    rnd = random.Random(chk.seed)
    n = 150 if chk.tier == "quick" else 1000
    hs = corpus()
    for _ in range(n):
        hs.append(gen_history(rnd, rnd.randint(5, 40)))
    return hs


def run(chk) -> None:
    hs = _histories(chk)
    chk.rule = ("histories of 5-40 statements (35 % of CREATE/DROP with IF [NOT] EXISTS, 10 % of names in quoted upper-case form) on 1-3 connections (+observer) of one "
                "instance (40 % with create_*_on_connect = False) over 3 databases x 3 schemas x 3 object names, "
                "names mostly drawn from what exists; every step observed: outcome, conn.database/schema and CURRENT_* of every connection, "
                "full catalog; rows of every object at the end.  non-trivial = distinct history with >= 3 statements")
    shards = common.chunks(hs, 16)
    reals = common.shard_map(_worker, shards)
    for shard, rs in zip(shards, reals):
        replies = common.batch(["names\thist\t" + enc_list([o["op"] for o in h["ops"]]) for h in shard])
        for h, real, reply in zip(shard, rs, replies):
            _check_history(chk, h, real, reply)
    chk.samples = [[o.get("sql") or f"connect{tuple(o['connect'])}" for o in h["ops"]][:12] for h in hs[len(corpus()):len(corpus()) + 3]]
    chk.assumptions = [
        "identifiers are unquoted ASCII names; database, schema and object name pools are disjoint (DuckDB reads `a.b` as catalog.table when no schema `a` exists)",
        "connects run under all four create_database_on_connect / create_schema_on_connect pairs (the ladder itself: C14); a schema is never named without a database",
        "statement status text / rowcount are not compared here (C04); only success, rows of queries, errno+sqlstate, context and catalog",
    ]
    chk.trusted.append("modelled engine (Fs.Names.Cat.applyS/applyT/read, duckResolve): DuckDB exception class per cause, search-path resolution "
                       "with fall-back to the catalog's main schema, DROP SCHEMA resetting its own search path — exercised on every step")


def replay(chk, case) -> None:
    hist = {"flags": case.get("flags", [1, 1]), "ops": case["ops"]}
    real = _worker([hist])[0]
    reply = common.batch(["names\thist\t" + enc_list([o["op"] for o in hist["ops"]])])[0]
    _check_history(chk, hist, real, reply)
