"""C04 — DML changes exactly the right rows and reports the true affected count.

Correspondence: generated DML histories (INSERT VALUES / INSERT..SELECT with and without column lists, UPDATE,
DELETE, TRUNCATE; NULLs, duplicates, three-valued predicates, empty tables, zero-row statements, rejected
statements) are run on a real fakesnow cursor and on `Fs.Dml.Impl.step` / `Spec.step` (driver model `dml`);
after EVERY statement the status row, its column names, `rowcount` (or the error class/errno/sqlstate) and the
full contents of every table (target and bystanders) are compared.  A sweep forces command kind x affected
count in {0,1,2,n}.  A second part sweeps DDL statements x name spellings and compares the status row with
`Fs.Dml.ddlStatus` / `Spec.ddlStatus`.  The theorems of Fs/Props/C04.lean then cover all tables, predicates
and histories of the model.
"""
from __future__ import annotations

import json
import random

from lib import common
from lib.common import enc_str, dec_opt

OPS = {"eq": "=", "ne": "<>", "lt": "<", "le": "<=", "gt": ">", "ge": ">="}
ERRS = {"catalog": ("ProgrammingError", 2003, "42S02"), "binder": ("ProgrammingError", 2043, "02000")}
MAXT = 5  # table names T0..T4 are dropped before every case


# ------------------------------------------------------------------------------------------------
# abstract syntax -> driver tokens / SQL
# ------------------------------------------------------------------------------------------------
# val: None | int;  opnd: ("C", i) | ("L", val);  expr: opnd | ("A", i, k)
# pred: ("k", "t|f|u") | ("c", opnd, op, opnd) | ("n", opnd) | ("nn", opnd) | ("e", opnd, opnd) | ("&", p, q) | ("or", p, q) | ("!", p)
# stmt: ("I", t, cols|None, src) | ("U", t, [(col, expr)], pred|None) | ("D", t, pred|None) | ("T", t)
# src: ("V", w, rows) | ("S", s, proj|None, pred|None)

def tval(v):
    return ["N"] if v is None else [str(v)]


def texpr(e):
    if e[0] == "A":
        return ["A", str(e[1]), str(e[2])]
    return ["C", str(e[1])] if e[0] == "C" else ["L", *tval(e[1])]


def tpred(p):
    k = p[0]
    if k == "k":
        return ["k", p[1]]
    if k == "c":
        return ["c", *texpr(p[1]), p[2], *texpr(p[3])]
    if k in ("n", "nn"):
        return [k, *texpr(p[1])]
    if k == "e":
        return ["e", *texpr(p[1]), *texpr(p[2])]
    if k in ("&", "or"):
        return [k, *tpred(p[1]), *tpred(p[2])]
    return ["!", *tpred(p[1])]


def topt(p):
    return ["-"] if p is None else ["W", *tpred(p)]


def tstmt(s):
    k = s[0]
    if k == "I":
        _, t, cols, src = s
        out = ["I", str(t)] + (["*"] if cols is None else ["C", str(len(cols)), *map(str, cols)])
        if src[0] == "V":
            out += ["V", str(src[1]), str(len(src[2]))] + [x for r in src[2] for v in r for x in tval(v)]
        else:
            out += ["S", str(src[1])] + (["*"] if src[2] is None else ["P", str(len(src[2]))] + [x for e in src[2] for x in texpr(e)])
            out += topt(src[3])
        return out
    if k == "U":
        return ["U", str(s[1]), str(len(s[2]))] + [x for c, e in s[2] for x in [str(c), *texpr(e)]] + topt(s[3])
    if k == "D":
        return ["D", str(s[1]), *topt(s[2])]
    return ["T", str(s[1])]


def tcase(tables, stmts):
    out = [str(len(tables))]
    for a, rows in tables:
        out += [str(a), str(len(rows))] + [x for r in rows for v in r for x in tval(v)]
    out.append(str(len(stmts)))
    for s in stmts:
        out += tstmt(s)
    return " ".join(out)


def kw(rnd, s):
    m = rnd.randrange(3)
    return s.upper() if m == 0 else s.lower() if m == 1 else s.capitalize()


# string mode: the same abstract histories over VARCHAR columns.  The integers of the model are the RANKS of the strings below in DuckDB's
# default (binary = code point) collation, so =, <>, <, <=, >, >=, IN and EQUAL_NULL on the strings are exactly the integer comparisons of the
# model.  The strings differ only in letter case, a trailing space or an accent.
SPOOL = {-2: "ABC", -1: "Abc", 0: "abc", 1: "abc 'q'", 2: "abc\\tmp", 3: "\u00e1bc", 100: "\u00e1bd"}   # rank 1 has a space and quotes, rank 2 a backslash
assert [SPOOL[k] for k in sorted(SPOOL)] == sorted(SPOOL.values())
SRANK = {v: k for k, v in SPOOL.items()}
_STRINGS = [False]


def sval(v):
    if v is None:
        return "NULL"
    return slit(SPOOL[v]) if _STRINGS[0] else str(v)


def slit(text):
    """a Snowflake string literal: backslash and quote escaped"""
    return "'" + text.replace("\\", "\\\\").replace("'", "''") + "'"


def no_arith(x):
    """string mode has no `C + k`: such an expression becomes the bare column (done before the model sees the statement)"""
    if isinstance(x, (list, tuple)):
        if len(x) == 3 and x[0] == "A":
            return ("C", x[1])
        return type(x)(no_arith(y) for y in x)
    return x


def sexpr(rnd, e):
    if e[0] == "A":
        return f"C{e[1]} + {e[2]}" if e[2] >= 0 else f"C{e[1]} - {-e[2]}"
    if e[0] == "C":
        return rnd.choice(["C", "c"]) + str(e[1])
    return sval(e[1])


def spred(rnd, p):
    k = p[0]
    if k == "k":
        return {"t": "TRUE", "f": "FALSE", "u": "NULL"}[p[1]]
    if k == "c":
        op = OPS[p[2]] if p[2] != "ne" else rnd.choice(["<>", "!="])
        if _STRINGS[0] and p[3][0] == "L" and p[3][1] is not None and p[2] in ("eq", "ne") and rnd.random() < 0.5:
            # equality with a string literal in its other spellings (LIKE only where the literal has no escape character)
            a, lit = sexpr(rnd, p[1]), sexpr(rnd, p[3])
            like_ok = "\\" not in SPOOL[p[3][1]]
            if p[2] == "eq":
                return rnd.choice([f"{a} {kw(rnd, 'in')} ({lit})", f"{a} {kw(rnd, 'in')} ({lit}, {lit})"] + ([f"{a} {kw(rnd, 'like')} {lit}"] if like_ok else []))
            return rnd.choice([f"{a} {kw(rnd, 'not in')} ({lit})"] + ([f"{a} {kw(rnd, 'not like')} {lit}"] if like_ok else []))
        return f"{sexpr(rnd, p[1])} {op} {sexpr(rnd, p[3])}"
    if k == "n":
        return f"{sexpr(rnd, p[1])} {kw(rnd, 'is null')}"
    if k == "nn":
        return f"{sexpr(rnd, p[1])} {kw(rnd, 'is not null')}"
    if k == "e":   # NULL-safe equality in its three spellings
        a, b = sexpr(rnd, p[1]), sexpr(rnd, p[2])
        m = rnd.randrange(3)
        if m == 0:
            return f"{kw(rnd, 'equal_null')}({a}, {b})"
        if m == 1:
            return f"{a} {kw(rnd, 'is not distinct from')} {b}"
        return f"{kw(rnd, 'not')} ({a} {kw(rnd, 'is distinct from')} {b})"
    if k == "&":
        return f"({spred(rnd, p[1])}) {kw(rnd, 'and')} ({spred(rnd, p[2])})"
    if k == "or":
        return f"({spred(rnd, p[1])}) {kw(rnd, 'or')} ({spred(rnd, p[2])})"
    return f"{kw(rnd, 'not')} ({spred(rnd, p[1])})"


def swhere(rnd, p):
    return "" if p is None else f" {kw(rnd, 'where')} {spred(rnd, p)}"


def sstmt(rnd, s):
    k = s[0]
    if k == "I":
        _, t, cols, src = s
        head = f"{kw(rnd, 'insert into')} T{t}" + ("" if cols is None else " (" + ", ".join(f"C{c}" for c in cols) + ")")
        if src[0] == "V":
            return head + f" {kw(rnd, 'values')} " + ", ".join("(" + ", ".join(sval(v) for v in r) + ")" for r in src[2])
        proj = "*" if src[2] is None else ", ".join(sexpr(rnd, e) for e in src[2])
        return head + f" {kw(rnd, 'select')} {proj} {kw(rnd, 'from')} T{src[1]}" + swhere(rnd, src[3])
    if k == "U":
        return f"{kw(rnd, 'update')} T{s[1]} {kw(rnd, 'set')} " + ", ".join(f"C{c} = {sexpr(rnd, e)}" for c, e in s[2]) + swhere(rnd, s[3])
    if k == "D":
        return f"{kw(rnd, 'delete from')} T{s[1]}" + swhere(rnd, s[2])
    return kw(rnd, rnd.choice(["truncate table", "truncate"])) + f" T{s[1]}"


# ------------------------------------------------------------------------------------------------
# generators
# ------------------------------------------------------------------------------------------------

def gval(rnd):
    return None if rnd.random() < 0.25 else rnd.randint(-2, 3)


def gopnd(rnd, arity):
    return ("C", rnd.randrange(arity)) if rnd.random() < 0.7 else ("L", gval(rnd))


def gpred(rnd, arity, depth=0):
    r = rnd.random()
    if depth >= 3 or r < 0.45:
        q = rnd.random()
        if q < 0.08:
            return ("k", rnd.choice("tfu"))
        if q < 0.25:
            return (rnd.choice(["n", "nn"]), gopnd(rnd, arity))
        if q < 0.45:
            return ("e", gopnd(rnd, arity), gopnd(rnd, arity))
        return ("c", gopnd(rnd, arity), rnd.choice(list(OPS)), gopnd(rnd, arity))
    if r < 0.65:
        return ("&", gpred(rnd, arity, depth + 1), gpred(rnd, arity, depth + 1))
    if r < 0.85:
        return ("or", gpred(rnd, arity, depth + 1), gpred(rnd, arity, depth + 1))
    return ("!", gpred(rnd, arity, depth + 1))


def gzero_pred(rnd, arity):
    """a predicate that is TRUE on no row, in one of several disguises"""
    m = rnd.randrange(5)
    if m == 0:
        return ("k", "f")
    if m == 1:
        return ("k", "u")
    if m == 2:
        return ("c", ("C", rnd.randrange(arity)), rnd.choice(list(OPS)), ("L", None))
    if m == 3:
        return ("c", ("C", rnd.randrange(arity)), "gt", ("L", 100))
    return ("!", ("or", ("k", "t"), gpred(rnd, arity, 2)))


def string_sweep():
    """every comparison operator against every pool string, and IN-style disjunctions, over a table holding the whole pool"""
    rows = [[v, i % 6 - 2] for i, v in enumerate([-2, -1, 0, 1, 2, 3, None, 0, -2])]
    out = []
    for v in (-2, -1, 0, 1, 2, 3):
        for op in OPS:
            p = ("c", ("C", 0), op, ("L", v))
            out.append(([(2, rows), (2, [])], [("I", 1, None, ("S", 0, None, p)), ("U", 0, [(1, ("L", 3))], p), ("D", 0, p)]))
        out.append(([(2, rows), (2, [])], [("D", 0, ("or", ("c", ("C", 0), "eq", ("L", v)), ("c", ("L", (v + 3) % 6 - 2), "eq", ("C", 0)))),
                                           ("U", 0, [(0, ("L", v))], ("!", ("e", ("C", 0), ("L", v))))]))
    return out


def _and_chain(p):
    return _and_chain(p[1]) + _and_chain(p[2]) if p[0] == "&" else [p]


def risky(p):
    """DuckDB 1.0.0 mis-evaluates a conjunction whose derived range for a column is empty, e.g.
    `C0 = -1 AND C0 > C1 AND C1 >= 0` returns / deletes the row (2, 0) (known: C04/duckdb-contradictory-range-filter).  The generator keeps out of
    that region: no AND-chain with both a column = constant atom and a column-to-column comparison (plain or under NOT)."""
    if p is None or p[0] in ("k", "n", "nn", "e", "c"):
        return False
    if p[0] == "!":
        return risky(p[1])
    if p[0] == "or":
        return risky(p[1]) or risky(p[2])
    atoms = _and_chain(p)
    cmps = [a[1] if a[0] == "!" else a for a in atoms]
    cmps = [a for a in cmps if a[0] == "c"]
    col_const = any(a[2] == "eq" and {a[1][0], a[3][0]} == {"C", "L"} for a in cmps)
    col_col = any(a[1][0] == "C" and a[3][0] == "C" and a[1] != a[3] for a in cmps)
    return (col_const and col_col) or any(risky(a) for a in atoms if a[0] in ("!", "or"))


def gwhere(rnd, arity):
    for _ in range(20):
        p = _gwhere(rnd, arity)
        if not risky(p):
            return p
    return None


def _gwhere(rnd, arity):
    r = rnd.random()
    if r < 0.06:
        return None
    if r < 0.20:
        return gzero_pred(rnd, arity)
    return gpred(rnd, arity)


def gexpr(rnd, arity):
    r = rnd.random()
    if r < 0.45:
        return ("C", rnd.randrange(arity))
    if r < 0.75:
        return ("L", gval(rnd))
    return ("A", rnd.randrange(arity), rnd.randint(-2, 2))


def gstmt(rnd, arities):
    nt = len(arities)
    t = rnd.randrange(nt)
    a = arities[t]
    k = rnd.choices(["IV", "IS", "U", "D", "T"], weights=[24, 22, 28, 22, 4])[0]
    if k in ("IV", "IS"):
        cols = None
        if rnd.random() < 0.45:
            cols = rnd.sample(range(a), rnd.randint(1, a))
        w = a if cols is None else len(cols)
        if k == "IV":
            s = ("I", t, cols, ("V", w, [[gval(rnd) for _ in range(w)] for _ in range(rnd.randint(1, 3))]))
        else:
            src = rnd.randrange(nt)
            sa = arities[src]
            if cols is None and sa == a and rnd.random() < 0.5:
                proj = None
            else:
                proj = [gexpr(rnd, sa) for _ in range(w)]
            s = ("I", t, cols, ("S", src, proj, gwhere(rnd, sa)))
    elif k == "U":
        cs = rnd.sample(range(a), rnd.randint(1, a))
        s = ("U", t, [(c, gexpr(rnd, a)) for c in cs], gwhere(rnd, a))
    elif k == "D":
        s = ("D", t, gwhere(rnd, a))
    else:
        s = ("T", t)
    if rnd.random() < 0.10:
        s = break_stmt(rnd, s, arities)
    return s


def break_stmt(rnd, s, arities):
    """inject exactly one reason for rejection"""
    nt = len(arities)
    k = s[0]
    m = rnd.randrange(4)
    if m == 0:  # missing target
        return (k, nt + rnd.randrange(MAXT - nt), *s[2:])
    a = arities[s[1]]
    bad = ("c", ("C", a + rnd.randrange(2)), "eq", ("L", 1))
    if k == "D":
        return ("D", s[1], bad)
    if k == "U":
        if m == 1:
            return ("U", s[1], s[2], bad)
        if m == 2:
            return ("U", s[1], [(a, ("L", 1))], s[3])
        return ("U", s[1], s[2] + [(s[2][0][0], ("L", 0))], s[3])  # same column assigned twice
    if k == "I":
        _, t, cols, src = s
        if src[0] == "V":
            if m == 1:  # wrong number of values
                w = src[1] + rnd.choice([-1, 1])
                if w <= 0:
                    w = src[1] + 1
                return ("I", t, cols, ("V", w, [[gval(rnd) for _ in range(w)] for _ in src[2]]))
            if m == 2:
                return ("I", t, [a] + list(range(src[1] - 1)), src) if src[1] <= a else s
            cs = cols if cols is not None else list(range(a))
            return ("I", t, [cs[0]] + cs, ("V", len(cs) + 1, [[0] * (len(cs) + 1) for _ in src[2]]))  # repeated column
        if m == 1:
            return ("I", t, cols, ("S", nt + rnd.randrange(MAXT - nt), None if cols is None else src[2], src[3])) if (cols is None or src[2] is not None) else s
        if m == 2:
            sa = arities[src[1]]
            return ("I", t, cols, ("S", src[1], src[2], ("c", ("C", sa), "eq", ("L", 1))))
        w = a if cols is None else len(cols)
        return ("I", t, cols, ("S", src[1], [("L", 1)] * (w + 1), src[3]))  # wrong number of values
    return s


def ghistory(rnd):
    nt = rnd.randint(2, 3)
    arities = [rnd.randint(1, 3) for _ in range(nt)]
    tables = []
    for a in arities:
        n = rnd.choice([0, 1, 2, 3, 4, 5, 6, 8])
        pool = [[gval(rnd) for _ in range(a)] for _ in range(max(1, n // 2))]
        tables.append((a, [list(rnd.choice(pool)) if rnd.random() < 0.4 else [gval(rnd) for _ in range(a)] for _ in range(n)]))
    stmts = [gstmt(rnd, arities) for _ in range(rnd.randint(3, 8))]
    return tables, stmts


def sweep_cases():
    """command kind x affected count in {0,1,2,6}, on a 6-row table and on an empty one"""
    out = []
    rows = [[i, None if i % 2 else i] for i in range(6)]
    for n in (0, 1, 2, 6):
        p = ("c", ("C", 0), "lt", ("L", n))
        for tables in ([(2, rows), (2, [])], [(2, []), (2, rows)]):
            src = 0 if tables[0][1] else 1
            tgt = 1 - src
            out.append((tables, [("D", src, p), ("D", src, p)]))
            out.append((tables, [("U", src, [(1, ("A", 0, 1))], p), ("U", tgt, [(0, ("L", 1))], None)]))
            out.append((tables, [("I", tgt, None, ("S", src, None, p)), ("I", tgt, [1], ("S", src, [("C", 0)], p)), ("T", tgt), ("T", tgt)]))
            if n:
                out.append((tables, [("I", tgt, None, ("V", 2, [[1, None]] * n)), ("I", src, [1, 0], ("V", 2, [[None, 7]] * n))]))
            # NULL-safe (in)equality against a column with NULLs: C1 is NULL on the odd rows
            out.append((tables, [("U", src, [(0, ("A", 0, 10))], ("!", ("e", ("C", 1), ("L", n)))), ("D", src, ("!", ("e", ("L", n), ("C", 1))))]))
            out.append((tables, [("D", src, ("or", ("e", ("C", 1), ("L", None)), ("&", ("!", ("e", ("C", 1), ("C", 0))), ("k", "u"))))]))
    return out


# ------------------------------------------------------------------------------------------------
# DDL status sweep
# ------------------------------------------------------------------------------------------------
NAMES = [("tbl", False), ("Tbl_1", False), ("TBL", False), ("tbl", True), ("My Tbl", True), ("a'b", True), ("x.y", True), ("ÀB", True)]
NAMES = [n for n in NAMES if all(ord(c) < 128 for c in n[0])]


def ident_sql(name, quoted):
    return '"' + name + '"' if quoted else name


def ddl_cases(chk):
    """(kind, name, quoted, noop, setup statements, statement, qualification)"""
    cases = []
    for name, quoted in NAMES:
        ident = ident_sql(name, quoted)
        for qual in ("", "S1.", "DB1.S1."):
            q = qual + ident
            cases.append(("createTable", name, quoted, False, [], f"create table {q} (a int)"))
            cases.append(("createTable", name, quoted, False, [], f"CREATE OR REPLACE TABLE {q} (a int, b varchar(10)) comment = 'c'"))
            cases.append(("createTable", name, quoted, False, ["create table src0 (a int)"], f"create table {q} as select * from src0"))
            cases.append(("createTable", name, quoted, False, ["create table src0 (a int)"], f"create table {q} clone src0"))
            cases.append(("createTable", name, quoted, True, [f"create table {q} (a int)"], f"create table if not exists {q} (a int)"))
            cases.append(("createTable", name, quoted, False, [], f"create table if not exists {q} (a int)"))
            cases.append(("createView", name, quoted, False, ["create table src0 (a int)"], f"create view {q} as select * from src0"))
            cases.append(("createView", name, quoted, False, ["create table src0 (a int)"], f"create or replace view {q} (x) as select a from src0"))
            cases.append(("drop", name, quoted, False, [f"create table {q} (a int)"], f"drop table {q}"))
            cases.append(("drop", name, quoted, False, [f"create table {q} (a int)"], f"drop table if exists {q}"))
            cases.append(("drop", name, quoted, True, [], f"DROP TABLE IF EXISTS {q}"))
            cases.append(("drop", name, quoted, False, ["create table src0 (a int)", f"create view {q} as select * from src0"], f"drop view {q}"))
            cases.append(("alter", name, quoted, False, [f"create table {q} (a int)"], f"alter table {q} add column b int"))
            cases.append(("alter", name, quoted, False, [f"create table {q} (a int)"], f"alter table {q} rename column a to b"))
            cases.append(("commentOnTable", name, quoted, False, [f"create table {q} (a int)"], f"comment on table {q} is 'hello'"))
            cases.append(("alterSetComment", name, quoted, False, [f"create table {q} (a int)"], f"alter table {q} set comment = 'hello'"))
            cases.append(("truncate", name, quoted, False, [f"create table {q} (a int)", f"insert into {q} values (1), (2)"], f"truncate table {q}"))
            cases.append(("commentOnColumn", name, quoted, False, [f"create table {q} (a int)"], f"comment on column {q}.a is 'hello'"))
        for qual in ("", "DB1."):
            q = qual + ident
            cases.append(("createSchema", name, quoted, False, [], f"create schema {q}"))
            cases.append(("createSchema", name, quoted, True, [f"create schema {q}"], f"create schema if not exists {q}"))
            cases.append(("drop", name, quoted, False, [f"create schema {q}"], f"drop schema {q}"))
            cases.append(("drop", name, quoted, True, [], f"drop schema if exists {q}"))
        if not quoted:
            # quoted database names are not attachable in the fake (a C03 matter), so only unquoted ones here
            cases.append(("createDatabase", name + "_db", quoted, False, [], f"create database {name}_db"))
            cases.append(("createDatabase", name + "_db", quoted, True, [f"create database {name}_db"], f"create database if not exists {name}_db"))
    out = [{"ddlkind": k, "name": n, "quoted": qd, "noop": noop, "setup": setup, "sql": sql} for k, n, qd, noop, setup, sql in cases]
    # IDENTIFIER('<text>') / IDENTIFIER($var) spellings of the object name (the literal's text is the `name`, never quoted)
    for lit in ("orders", "Mixed_1", "UPPER", "s1.qualified", "db1.s1.deep"):
        for form in ("literal", "variable"):
            ident = f"identifier('{lit}')" if form == "literal" else "identifier($tn)"
            pre = [] if form == "literal" else [f"set tn = '{lit}'"]
            mk = lambda kind, setup, sql: out.append({"ddlkind": kind, "name": lit, "quoted": False, "noop": False, "setup": pre + setup, "sql": sql, "identifier": True})
            mk("createTable", [], f"create table {ident} (a int)")
            mk("createTable", [], f"create or replace table {ident} (a int)")
            mk("createView", ["create table src0 (a int)"], f"create view {ident} as select * from src0")
            mk("drop", [f"create table {ident} (a int)"], f"drop table {ident}")
            mk("drop", ["create table src0 (a int)", f"create view {ident} as select * from src0"], f"drop view {ident}")
            mk("alter", [f"create table {ident} (a int)"], f"alter table {ident} add column b int")
            mk("truncate", [f"create table {ident} (a int)"], f"truncate table {ident}")
        out.append({"ddlkind": "createSchema", "name": lit.split(".")[-1], "quoted": False, "noop": False, "setup": [], "sql": f"create schema identifier('{lit.split('.')[-1]}')", "identifier": True})
    return out


# ------------------------------------------------------------------------------------------------
# DML with bound values: values are data, whatever they contain (session variable references, %, quotes ...)
# ------------------------------------------------------------------------------------------------
TRICKY = ["charged at $rate per unit", "$rate", "$RATE", "$rate$rate", "100% sure", "%s literally", "%(x)s", "it's", "a 'quoted' b", "back\\slash",
          "semi;colon", "dollar $ alone", "$nope here", "line\nbreak", "-- comment", "/* c */", "$$", "plain", "", "select 1", "grant call"]
PH = {"pyformat": "%s", "format": "%s", "qmark": "?", "named": None}


def bound_cases(chk):
    rnd = random.Random(chk.seed + 11)
    out = []
    for style in ("pyformat", "format", "qmark", "named"):
        for var_set in (True, False):
            vals = list(TRICKY)
            rnd.shuffle(vals)
            for chunk in (vals[:7], vals[7:14], vals[14:]):
                ops = [["I", i, v] for i, v in enumerate(chunk)]
                ops.append(["IM", [[100 + i, v] for i, v in enumerate(chunk[:3])]])
                ops.append(["U", 0, chunk[1]])
                ops.append(["D", chunk[2]])
                ops.append(["U", 1, chunk[0]])
                out.append({"style": style, "var_set": var_set, "ops": ops})
    return out


def _real_bound(case):
    import fakesnow
    import snowflake.connector
    style = case["style"]
    old = snowflake.connector.paramstyle
    snowflake.connector.paramstyle = "pyformat" if style == "named" else style
    try:
        with fakesnow.patch():
            conn = snowflake.connector.connect(database="db1", schema="s1")
            cur = conn.cursor()
            cur.execute("create table bt (id int, s varchar)")
            if case["var_set"]:
                cur.execute("set rate = 5")
            ph = PH[style]
            steps = []
            for op in case["ops"]:
                try:
                    if op[0] == "I":
                        if style == "named":
                            cur.execute("insert into bt (id, s) values (%(i)s, %(s)s)", {"i": op[1], "s": op[2]})
                        else:
                            cur.execute(f"insert into bt (id, s) values ({ph}, {ph})", (op[1], op[2]))
                    elif op[0] == "IM":
                        if style == "named":
                            for i, v in op[1]:
                                cur.execute("insert into bt values (%(i)s, %(s)s)", {"i": i, "s": v})
                        else:
                            cur.executemany(f"insert into bt values ({ph}, {ph})", [tuple(r) for r in op[1]])
                    elif op[0] == "U":
                        if style == "named":
                            cur.execute("update bt set s = %(s)s where id = %(i)s", {"i": op[1], "s": op[2]})
                        else:
                            cur.execute(f"update bt set s = {ph} where id = {ph}", (op[2], op[1]))
                    else:
                        if style == "named":
                            cur.execute("delete from bt where s = %(s)s", {"s": op[1]})
                        else:
                            cur.execute(f"delete from bt where s = {ph}", (op[1],))
                    st = {"rows": [list(r) for r in cur.fetchall()], "rc": cur.rowcount}
                except Exception as e:
                    st = {"err": f"{type(e).__name__}: {str(e)[:120]}"}
                k = conn.cursor()
                k.execute("select id, s from bt order by id, s")
                st["table"] = [list(r) for r in k.fetchall()]
                steps.append(st)
            return steps
    finally:
        snowflake.connector.paramstyle = old


def _check_bound(chk, case, real, reply):
    chk.case(("bound", case["style"], case["var_set"], json.dumps(case["ops"])), nontrivial=True)
    chk.count(f"bound:{case['style']}:{'rate-set' if case['var_set'] else 'rate-unset'}")
    rcase = {"kind": "bound", **case}
    table = []          # the oracle: bound values are data
    for i, (op, st) in enumerate(zip(case["ops"], real)):
        if op[0] == "I":
            table.append([op[1], op[2]])
            want = {"rows": [[1]], "rc": 1}
        elif op[0] == "IM":
            table += [list(r) for r in op[1]]
            want = {"rows": [[1]], "rc": 1}      # executemany runs the statement once per row: the cursor shows the last one
        elif op[0] == "U":
            n = sum(1 for r in table if r[0] == op[1])
            table = [[r[0], op[2]] if r[0] == op[1] else r for r in table]
            want = {"rows": [[n, 0]], "rc": n}
        else:
            n = sum(1 for r in table if r[1] == op[1])
            table = [r for r in table if r[1] != op[1]]
            want = {"rows": [[n]], "rc": n}
        want["table"] = sorted(table)
        if st != want:
            how = f"paramstyle {case['style']}" + (", after `set rate = 5`" if case["var_set"] else "")
            chk.violation(f"bound-value DML ({how}) ops {case['ops'][:i + 1]}: after op #{i} the cursor/table show {st} but SQL semantics with the bound values as data require {want}",
                          rcase, broken="C04_bound_values_untouched / C04_count (correspondence)")
            return


# ------------------------------------------------------------------------------------------------
# real runs (workers)
# ------------------------------------------------------------------------------------------------

def _observe(cur, sql):
    import snowflake.connector.errors as sferr
    try:
        cur.execute(sql)
    except sferr.ProgrammingError as e:
        out = {"err": [type(e).__name__, e.errno, e.sqlstate], "sqlstate_attr": cur.sqlstate, "rc_after": cur.rowcount}
        try:   # the cursor must not go on showing an earlier statement's result
            out["fetch_after"] = [list(r) for r in cur.fetchall()]
        except TypeError as e2:
            out["fetch_after"] = "no result set" if "No open result set" in str(e2) else f"TypeError {e2}"
        except Exception as e2:
            out["fetch_after"] = f"{type(e2).__name__}"
        return out
    except Exception as e:  # engine-specific exception escaping
        return {"err": [type(e).__module__ + "." + type(e).__name__, getattr(e, "errno", None), getattr(e, "sqlstate", None)]}
    out = {"rows": [list(r) for r in cur.fetchall()], "rc": cur.rowcount}
    try:
        out["names"] = [d.name for d in cur.description]
    except Exception as e:
        out["names"] = f"description raised {type(e).__name__}"
    return out


NOP_REGEXES = ["GRANT", "CALL"]   # un-anchored on purpose: they must only act on statements that START with the word


def _names(case):
    """table / column spelling: in `nop` mode every identifier CONTAINS a word of NOP_REGEXES (never at the start of a statement)"""
    if case.get("nop"):
        return (lambda i: f"GRANTED{i}"), (lambda j: f"CALL{j}")
    return (lambda i: f"T{i}"), (lambda j: f"C{j}")


def _rename(case, sql):
    import re
    tn, cn = _names(case)
    sql = re.sub(r"\bT(\d)\b", lambda m: tn(int(m.group(1))), sql)
    return re.sub(r"\b[Cc](\d)\b", lambda m: cn(int(m.group(1))), sql)


def _snapshot(cur, case):
    """contents of the session's own tables (DB1.S1) and of the same-named tables of the other session (DB1.S2)"""
    tn, _ = _names(case)
    snap = {}
    for sch in ("S1", "S2"):
        dbs = []
        _, cn = _names(case)
        for i in range(len(case["tables"])):
            cur.execute(f"select {', '.join(cn(j) for j in range(case['tables'][i][0]))} from DB1.{sch}.{tn(i)}")
            dbs.append([[SRANK.get(v, v) if isinstance(v, str) else v for v in r] for r in cur.fetchall()])
        snap[sch] = dbs
    return snap


def _read_cursor(cur):
    out = {"rc": cur.rowcount}
    out["rows"] = [list(r) for r in cur.fetchall()]
    try:
        out["names"] = [d.name for d in cur.description]
    except Exception as e:
        out["names"] = f"description raised {type(e).__name__}"
    return out


def _real_history(conn, conn_b, case):
    """`conn` (current schema DB1.S1) runs the history with UNQUALIFIED names; `conn_b` (current schema DB1.S2, connected later)
    owns same-named tables with the same initial rows and keeps working between the statements.  mode `cursor`: one
    cursor.execute per statement; mode `script`: maximal runs of accepted statements go through conn.execute_string and every
    returned cursor is read only after the whole script ran."""
    tables, sqls = case["tables"], [_rename(case, q) for q in case["sqls"]]
    tn, cn = _names(case)
    strings = bool(case.get("strings"))
    ctype = "varchar" if strings else "int"
    lit = (lambda v: "NULL" if v is None else slit(SPOOL[v])) if strings else sval
    cur = conn.cursor()
    for sch in ("S1", "S2"):
        for i in range(MAXT):
            cur.execute(f"drop table if exists DB1.{sch}.{tn(i)}")
        for i, (a, rows) in enumerate(tables):
            cur.execute(f"create table DB1.{sch}.{tn(i)} (" + ", ".join(f"{cn(j)} {ctype}" for j in range(a)) + ")")
            if rows:
                cur.execute(f"insert into DB1.{sch}.{tn(i)} values " + ", ".join("(" + ", ".join(lit(v) for v in r) + ")" for r in rows))
    bcur = conn_b.cursor()
    bcur.execute("use schema s2")
    n = len(sqls)
    obs, dbs = [None] * n, [None] * n
    if case.get("mode", "cursor") in ("cursor", "tx"):
        tx = case.get("mode") == "tx"
        if tx:
            cur.execute("begin")
        for i, sql in enumerate(sqls):
            bcur.execute(f"select count(*) from {tn(0)}")
            obs[i] = _observe(cur, sql)
            dbs[i] = _snapshot(conn.cursor(), case)       # through the session's own connection: sees its uncommitted rows
        res = {"obs": obs, "dbs": dbs}
        if tx:
            # the session's transaction: whatever COMMIT answers must be what another session sees afterwards
            if case.get("conflict") is not None:
                try:   # the other session changes the shape of a table the transaction may have written to (DuckDB notices at commit)
                    bcur.execute(f"alter table DB1.S1.{tn(case['conflict'])} add column zz int")
                except Exception as e:
                    res["alter_error"] = f"{type(e).__name__}: {str(e)[:80]}"
            try:
                cur.execute("commit")
                rows = cur.fetchall()
                res["commit"] = "ok" if rows == [("Statement executed successfully.",)] else f"odd result {rows}"
            except Exception as e:
                res["commit"] = f"raised {type(e).__module__}.{type(e).__name__}"
                try:
                    cur.execute("rollback")
                except Exception:
                    pass
            res["final"] = _snapshot(conn_b.cursor(), case)
        return res
    rejected = case["rejected"]
    i = 0
    while i < n:
        bcur.execute(f"select count(*) from {tn(0)}")
        if rejected[i]:
            obs[i] = _observe(cur, sqls[i])
            dbs[i] = _snapshot(conn.cursor(), case)
            i += 1
            continue
        j = i
        while j < n and not rejected[j]:
            j += 1
        script = ";\n".join(sqls[i:j]) + ";"
        try:
            cursors = list(conn.execute_string(script))
            if len(cursors) != j - i:
                raise RuntimeError(f"execute_string returned {len(cursors)} cursors for {j - i} statements")
            rcs = [c.rowcount for c in cursors]                      # all rowcounts first, then the rows: aliasing shows
            for k, c in enumerate(cursors):
                o = _read_cursor(c)
                o["rc"] = rcs[k] if rcs[k] == o["rc"] else [rcs[k], o["rc"]]
                obs[i + k] = o
        except Exception as e:
            for k in range(i, j):
                obs[k] = {"err": [type(e).__module__ + "." + type(e).__name__, getattr(e, "errno", None), getattr(e, "sqlstate", None)], "script": script}
        dbs[j - 1] = _snapshot(conn.cursor(), case)
        i = j
    return {"obs": obs, "dbs": dbs}


def _real_ddl(case):
    """every DDL case runs on a fresh fake instance (databases and schemas are global to an instance)"""
    import fakesnow
    import snowflake.connector
    with fakesnow.patch():
        conn = snowflake.connector.connect(database="db1", schema="s1")
        cur = conn.cursor()
        for s in case["setup"]:
            try:
                cur.execute(s)
            except Exception as e:
                # the set-up statement itself may hit the quote-in-name finding after having run; carry on
                if "syntax error" not in str(e):
                    return {"setup_failed": f"{s}: {type(e).__name__}: {e}"}
        return _observe(cur, case["sql"])


def _worker(shard):
    import fakesnow
    import snowflake.connector
    res = {}
    for nop in (False, True):
        todo = [(n, case) for n, (kind, case) in enumerate(shard) if kind == "hist" and bool(case.get("nop")) == nop]
        if not todo:
            continue
        with fakesnow.patch(**({"nop_regexes": NOP_REGEXES} if nop else {})):
            conn = snowflake.connector.connect(database="db1", schema="s1")
            conn_b = snowflake.connector.connect(database="db1", schema="s2")   # a second session, connected later, other schema
            for n, case in todo:
                res[n] = _real_history(conn, conn_b, case)
    for n, (kind, case) in enumerate(shard):
        if kind == "bound":
            res[n] = _real_bound(case)
        elif kind != "hist":
            res[n] = _real_ddl(case)
    return [res[n] for n in range(len(shard))]


# ------------------------------------------------------------------------------------------------
# comparison
# ------------------------------------------------------------------------------------------------

def _canon_rows(rows):
    # a string that is not in the pool (a mangled literal) stays as it is and sorts after the ranks
    return sorted(rows, key=lambda r: [(v is None, isinstance(v, str), 0 if v is None or isinstance(v, str) else v, v if isinstance(v, str) else "") for v in r])


def _canon_obs_model(o):
    if isinstance(o, str):
        return {"err": list(ERRS[o]), "rc_after": None, "fetch_after": "no result set"}
    return {"rows": o["rows"], "rc": o["rc"], "names": o["names"]}


def _canon_obs_real(o):
    if "err" in o:
        return {"err": o["err"], "rc_after": o.get("rc_after"), "fetch_after": o.get("fetch_after", "no result set")}
    return {"rows": o["rows"], "rc": o["rc"], "names": o["names"]}


def _bucket(n):
    return str(n) if n < 3 else "3+"


def _check_history(chk, case, real, reply):
    spec, impl = json.loads(reply["spec"]), json.loads(reply["impl"])
    mode, nop = case.get("mode", "cursor"), bool(case.get("nop"))
    sqls = [_rename(case, q) for q in case["sqls"]]
    rcase = {"kind": "hist", "tables": case["tables"], "stmts": case["stmts"], "sqls": case["sqls"], "mode": mode, "nop": nop, "strings": bool(case.get("strings")), "conflict": case.get("conflict")}
    rcase.update({k: case[k] for k in ("known_key", "known_obs") if k in case})
    how = ("VARCHAR columns, values shown as ranks of " + str([SPOOL[k] for k in sorted(SPOOL)]) + "; " if case.get("strings") else "") + ("conn.execute_string" if mode == "script" else "cursor.execute") + (f", instance with nop_regexes={NOP_REGEXES}" if nop else "")
    init = [_canon_rows(rows) for _, rows in case["tables"]]
    chk.count(f"mode:{mode}{':nop_regexes' if nop else ''}{':varchar' if case.get('strings') else ''}")
    nontrivial = False
    for i, (s, sql) in enumerate(zip(case["stmts"], sqls)):
        so, io, ro = _canon_obs_model(spec["obs"][i]), _canon_obs_model(impl["obs"][i]), _canon_obs_real(real["obs"][i])
        sdb = [_canon_rows(t) for t in spec["dbs"][i]]
        idb = [_canon_rows(t) for t in impl["dbs"][i]]
        kind = s[0] + (s[3][0] if s[0] == "I" else "")
        if "err" in so:
            chk.count(f"stmt:{kind}:rejected")
        else:
            n = so["rc"] if s[0] != "T" else 0
            chk.count(f"stmt:{kind}:affected={_bucket(n)}")
            nontrivial = nontrivial or n > 0
        if (io, idb) != (so, sdb):
            chk.violation(f"model inconsistency (C04_refines says impl=spec) at statement #{i} `{sql}`: impl={io} spec={so}", rcase,
                          broken="C04_refines", failing_input=False)
            break
        if "err" in ro and "sqlstate_attr" in real["obs"][i] and real["obs"][i]["sqlstate_attr"] != ro["err"][2]:
            chk.violation(f"`{sql}`: cursor.sqlstate {real['obs'][i]['sqlstate_attr']!r} after error {ro['err']}", rcase, broken="C04 correspondence (error path)")
            break
        if ro != so and case.get("known_key") and ro == case.get("known_obs"):
            chk.finding(case["known_key"], f"`{sql}` on {case['tables']}: the cursor shows {ro}, SQL semantics require {so}", rcase)
            break
        if ro != so:
            what = (f"statement #{i} `{sql}` of {sqls} ({how}) on tables {['T%d=%s' % (j, t) for j, (_, t) in enumerate(case['tables'])]}: "
                    f"its cursor shows {ro} but SQL semantics/Snowflake status require {so}")
            chk.violation(what, rcase, broken="C04_count / C04_refines / C04_execute_string (status row, names, rowcount; correspondence with Fs.Dml.Impl.step)")
            break
        if real["dbs"][i] is None:
            continue
        rdb = [_canon_rows(t) for t in real["dbs"][i]["S1"]]
        odb = [_canon_rows(t) for t in real["dbs"][i]["S2"]]
        if rdb != sdb:
            j = next(j for j in range(len(sdb)) if rdb[j] != sdb[j])
            role = "target" if j == s[1] else "bystander"
            chk.violation(f"after statement #{i} `{sql}` of {sqls} ({how}): {role} table DB1.S1.T{j} holds {rdb[j]} but SQL semantics require {sdb[j]}", rcase,
                          broken="C04_delete_rows/C04_update_rows/C04_insert_rows/C04_frame (correspondence with Fs.Dml.engine)")
            break
        if odb != init:
            j = next(j for j in range(len(init)) if odb[j] != init[j])
            chk.violation(f"after statement #{i} `{sql}` of {sqls} ({how}) in the session whose schema is DB1.S1: the other session's table DB1.S2.T{j} changed "
                          f"from {init[j]} to {odb[j]}", rcase, broken="C04_frame / C04_history_frame (touch nothing else; correspondence)")
            break
    else:
        if mode == "tx" and "commit" in real:
            final = [_canon_rows(t) for t in real["final"]["S1"]]
            committed = [_canon_rows(t) for t in (spec["dbs"][-1] if spec["dbs"] else [r for _, r in case["tables"]])]
            chk.count("tx-commit:" + ("ok" if real["commit"] == "ok" else "refused") + (":other-session-altered-a-table" if case.get("conflict") is not None else ""))
            want = committed if real["commit"] == "ok" else init
            if real["commit"].startswith("odd") or final != want:
                chk.violation(f"transaction BEGIN; {sqls}; " + (f"[other session: alter table T{case['conflict']} add column zz int]; " if case.get("conflict") is not None else "")
                              + f"COMMIT -> {real['commit']}: another session then sees {final}, but " +
                              ("a COMMIT answered with success must leave what the statements reported: " if real["commit"] == "ok" else "a refused COMMIT must leave the tables as they were: ") + f"{want}",
                              rcase, broken="C04_history (what the status rows reported is what is stored once COMMIT succeeded; correspondence)")
    chk.case(("hist", case["tok"], mode, nop, case.get("conflict")), nontrivial=nontrivial)


def _check_ddl(chk, case, real, reply):
    rcase = {"kind": "ddl", **case}
    spec, impl, key = dec_opt(reply["spec"]), reply["impl"], reply["finding"]
    chk.case(("ddl", case["sql"]), nontrivial=True)
    chk.count(f"ddl:{case['ddlkind']}" + (":noop" if case["noop"] else "") + (":identifier()" if case.get("identifier") else ""))
    if "setup_failed" in real:
        raise common.Infra(f"DDL set-up failed for {case['sql']}: {real['setup_failed']}")

    def shape(text):
        return "no status row" if text is None else {"rows": [[text]], "rc": 1, "names": ["status"]}

    want = shape(spec)
    if "err" in real:
        got, got_impl = f"raises {real['err'][0]}", "raise"
    elif real["rows"] == [] and real["rc"] == 0:
        got, got_impl = "no status row", "-"
    else:
        got = _canon_obs_real(real)
        one_text = len(real["rows"]) == 1 and len(real["rows"][0]) == 1 and isinstance(real["rows"][0][0], str)
        got_impl = enc_str(real["rows"][0][0]) if one_text and got == shape(real["rows"][0][0]) else "?"
    if got == want:
        return
    what = f"`{case['sql']}`" + (f" (after {case['setup']})" if case["setup"] else "") + f": cursor shows {got} but Snowflake's status is {want}"
    if key != "-" and got_impl == impl:   # incl. C04/ddl-status-identifier-qualified
        chk.finding(key, what, rcase)
    else:
        chk.violation(what, rcase, broken="C04_ddl_status / C04_ddl_status_partial (correspondence with Fs.Dml.ddlStatus)")


def _lines(items):
    out = []
    for kind, case in items:
        if kind == "hist":
            out.append("dml\trun\t" + case["tok"])
        elif kind == "bound":
            out.append("dml\tddlident\talter\t" + enc_str("x"))   # placeholder line: bound-value cases have a Python-side oracle (values are data)
        elif case.get("identifier"):
            out.append("\t".join(["dml", "ddlident", case["ddlkind"], enc_str(case["name"])]))
        else:
            out.append("\t".join(["dml", "ddl", case["ddlkind"], "1" if case["quoted"] else "0", enc_str(case["name"]), "1" if case["noop"] else "0"]))
    return out


def _mk_hist(rnd, tables, stmts, mode="cursor", nop=False, strings=False, conflict=None):
    if strings:
        stmts = no_arith(stmts)
    _STRINGS[0] = strings
    try:
        sqls = [sstmt(rnd, s) for s in stmts]
    finally:
        _STRINGS[0] = False
    return {"tables": tables, "stmts": stmts, "sqls": sqls, "tok": tcase(tables, stmts), "mode": mode, "nop": nop, "strings": strings, "conflict": conflict}


def _cases(chk):
    rnd = random.Random(chk.seed)
    items = _corpus()
    chk.extra["corpus_cases"] = len(items)
    for t, s in sweep_cases():
        items.append(("hist", _mk_hist(rnd, t, s, "cursor")))
        items.append(("hist", _mk_hist(rnd, t, s, "script", nop=rnd.random() < 0.5)))
    for t, s in string_sweep():
        items.append(("hist", _mk_hist(rnd, t, s, "cursor", strings=True)))
    nh = 650 if chk.tier == "quick" else 10000
    for _ in range(nh):
        tables, stmts = ghistory(rnd)
        mode = rnd.choice(["cursor", "script", "cursor", "script", "tx"])
        conflict = rnd.randrange(len(tables)) if mode == "tx" and rnd.random() < 0.6 else None
        items.append(("hist", _mk_hist(rnd, tables, stmts, mode=mode, nop=rnd.random() < 0.3, strings=rnd.random() < 0.35, conflict=conflict)))
    items += [("ddl", c) for c in ddl_cases(chk)]
    items += [("bound", c) for c in bound_cases(chk)]
    return items


def _from_replay(case):
    kind = case["kind"]
    if kind == "hist":
        c = {"tables": case["tables"], "stmts": case["stmts"], "sqls": case["sqls"], "mode": case.get("mode", "cursor"), "nop": bool(case.get("nop")), "strings": bool(case.get("strings")), "conflict": case.get("conflict")}
        c.update({k: case[k] for k in ("known_key", "known_obs") if k in case})
        c["tok"] = tcase(c["tables"], c["stmts"])
    else:
        c = {k: v for k, v in case.items() if k != "kind"}
    return (kind, c)   # kinds: hist, ddl, bound


def _corpus():
    d = common.CORPUS / "C04"
    return [_from_replay(json.loads(f.read_text())["case"]) for f in sorted(d.glob("*.json"))] if d.is_dir() else []


def _model(items):
    replies = common.batch(_lines(items))
    for (kind, case), reply in zip(items, replies):
        if kind == "hist" and "spec" in reply:
            case["rejected"] = [isinstance(o, str) for o in json.loads(reply["spec"])["obs"]]
    return replies


def _evaluate(chk, items, reals, replies):
    for (kind, case), real, reply in zip(items, reals, replies):
        if "impl" not in reply:
            raise common.Infra(f"driver could not parse case: {reply.get('_raw')}: {case.get('tok', case.get('sql'))}")
        {"hist": _check_history, "bound": _check_bound}.get(kind, _check_ddl)(chk, case, real, reply)


def run(chk) -> None:
    items = _cases(chk)
    chk.rule = ("histories of 3-8 generated DML statements over 2-3 tables (arity 1-3, 0-8 rows of NULL/-2..3 with duplicates), random 3VL predicates "
                "(depth<=3, 14% forced to select nothing), 10% statements with one injected rejection cause; every statement's status row, names, "
                "rowcount/error and all table contents compared; half of the histories go through conn.execute_string (every returned cursor read after the script), "
                "30% run on an instance with un-anchored nop_regexes and identifiers containing those words, always with a second session (other current schema, "
                "same-named tables) working in between and its tables compared too; sweep kind x affected count {0,1,2,6} x empty/non-empty; DDL kinds x 7 name "
                "spellings x 3 qualification levels x IF [NOT] EXISTS no-op.  non-trivial = distinct history with a statement affecting >=1 row, or a DDL case")
    shards = common.chunks(items, 16)
    replies = [_model(s) for s in shards]      # the model first: script mode needs to know which statements are rejected
    reals = common.shard_map(_worker, shards)
    for shard, rs, ms in zip(shards, reals, replies):
        _evaluate(chk, shard, rs, ms)
    hs = [c for k, c in items if k == "hist"]
    chk.samples = [{"sqls": h["sqls"]} for h in hs[40:43]] + [{"ddl": c["sql"]} for k, c in items if k == "ddl"][5:8]
    chk.exhaustive = False
    chk.extra["statements"] = sum(len(h["stmts"]) for h in hs)
    chk.assumptions = ["values stay far from the BIGINT range (|v| <= 3 + 2 per update, histories <= 8 statements)",
                       "unquoted identifiers are ASCII (Python's str.upper is modelled by ASCII upper-casing)",
                       "at most one rejection cause per statement (DuckDB's order of binder checks is not modelled)",
                       "generated WHERE clauses avoid AND-chains that combine `col = const` with a column-to-column comparison: DuckDB 1.0.0 mis-evaluates conjunctions "
                       "whose derived range is empty (known finding C04/duckdb-contradictory-range-filter, witness in the corpus)"]
    chk.trusted += ["DuckDB DML semantics and returned count (modelled by Fs.Dml.engine: scans over lists of optional ints, 3VL)",
                    "DuckDB exception class for missing table (Catalog) / unknown or repeated column, wrong number of values (Binder)",
                    "sqlglot: depth-first first identifier of CREATE/DROP is the object's own name",
                    "Snowflake's status sentences incl. the IF [NOT] EXISTS no-op wording (transcribed; no Snowflake in the sandbox)"]


def replay(chk, case) -> None:
    items = [_from_replay(case)]
    replies = _model(items)
    _evaluate(chk, items, _worker(items), replies)
