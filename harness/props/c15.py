"""C15 — session variables substitute exactly, per connection.

Correspondence (design/C15.md): generated histories of SET / UNSET / statements over name sets with prefix pairs and
case variants, two connections × two cursors.  Every statement is executed (a) on the real connection, (b) as the
text `Fs.Vars.Impl.inline` predicts, on a twin connection that has no variables; and the rows are compared with the
values the harness knows the variables stand for (an oracle that needs no model).  The Snowflake literal generator
model `Fs.Gen.sfLit` (used for the stored value of a string) is compared with sqlglot's on every run.
"""
from __future__ import annotations

import decimal
import random
import re

from lib import common
from lib.common import dec_list, dec_str, enc_list, enc_str
from props.c08 import ATOMS, canon, gen_str

NAMES = ["v", "v1", "v10", "v1_", "v_1", "var", "var1", "var10", "x", "x_9", "_u", "ab", "abc", "a", "a1", "A1B"]
# names that are keywords / reserved words of the Snowflake or the DuckDB dialect (all of them are accepted by SET on the unchanged tree)
KEYWORD_NAMES = ["offset", "user", "window", "default", "order", "table", "primary", "group", "end", "desc", "row", "rows", "current_date", "key", "value", "type",
                 "date", "timestamp", "comment", "schema", "database"]
UNDEF = ["nope", "zz9", "v100", "va", "5", "1v", "_"]
MSG = "Session variable '${}' does not exist"


class Ex(str):
    """the value of a variable that was SET to a Snowflake expression: the expression text, with the canonical cell it evaluates to"""
    cell: tuple = ()


def cv(v):
    return v.cell if isinstance(v, Ex) else canon(v)


# Snowflake-specific expressions (rewritten for DuckDB by fakesnow's transforms, several of them NOT idempotently) and what they evaluate to
EXPRS = [("REGEXP_REPLACE('abc123', '[0-9]+', 'X')", ("str", "abcX")), ("REGEXP_SUBSTR('abc123def', '[0-9]+')", ("str", "123")),
         ("parse_json('{\"a\":{\"b\":7}}'):a.b", ("str", "7")), ("parse_json('{\"k\":[1,{\"z\":2}]}'):k[1].z", ("str", "2")),
         ("TO_DECIMAL('12.50', 10, 2)", ("flt", 12.5)), ("DATEADD('DAY', 3, '2024-01-01')", ("str", "2024-01-04 00:00:00")),
         ("[1, 2, 3]", ("other", "list", "[1, 2, 3]")), ("UPPER('x') || 'y'", ("str", "Xy")), ("IFF(1=1,'a','b')", ("str", "a")), ("NVL(NULL,'z')", ("str", "z")),
         ("ARRAY_SIZE(parse_json('[1,2]'))", ("int", 2)), ("TO_VARCHAR(12)", ("str", "12")), ("'2020-01-02'::date", ("str", "2020-01-02")),
         ("DATEDIFF('day', '2024-01-01', '2024-01-05')", ("int", 4)), ("OBJECT_CONSTRUCT('a', 1)", ("str", '{"a":1}')),
         ("to_date('2020-01-02') + 1", ("str", "2020-01-03")), ("regexp_like('abc', 'a.c')", ("bool", True)), ("split('a,b', ',')[1]", ("str", '"b"'))]


def stored_text(expr: str) -> str:
    """what the (repaired) SET stores for a value expression: sqlglot's Snowflake rendering, compound expressions parenthesised
    (sqlglot is trusted base here; the model keeps the text as given)"""
    import sqlglot
    from sqlglot import exp
    e = sqlglot.parse_one(f"select {expr}", read="snowflake").expressions[0]
    if isinstance(e, (exp.Binary, exp.Unary, exp.Predicate)) and not isinstance(e, exp.Paren):
        e = exp.paren(e)
    return e.sql(dialect="snowflake")


NOP15 = ["^call ", r"^select 'skip"]      # nop_regexes of the histories flagged `nop`


def flat(ops):
    """the statements of a history in execution order (an execute_string script contributes its statements)"""
    for o in ops:
        if o["op"] == "e":
            yield from o["subs"]
        else:
            yield o


def spell(name: str, rnd: random.Random) -> str:
    k = rnd.random()
    if k < 0.3:
        return name
    if k < 0.5:
        return name.upper()
    return "".join(c.upper() if rnd.random() < 0.5 else c.lower() for c in name)


def sql_str(s: str, rnd: random.Random) -> str:
    """a Snowflake string literal for s, spelled one of the ways a user may write it"""
    out = []
    for c in s:
        if c == "\\":
            out.append("\\\\")
        elif c == "'":
            out.append(rnd.choice(["\\'", "''"]))
        elif c == "\n":
            out.append(rnd.choice(["\\n", "\n"]))
        elif c == "\r":
            out.append("\\r")
        elif c == "\t":
            out.append(rnd.choice(["\\t", "\t"]))
        else:
            out.append(c)
    return "'" + "".join(out) + "'"


def clean_str(rnd: random.Random) -> str:
    """string value without NUL (C08/nul) and without `$word` (the SET text itself passes the variable phase)"""
    while True:
        s = gen_str(rnd)
        if "\x00" not in s and not re.search(r"\$\w", s) and not s.endswith("$"):
            return s


def gen_history(rnd: random.Random, hid: int, nop: bool = False) -> dict:
    nconn = 2
    spec = [dict() for _ in range(nconn)]          # NAME -> python value
    ops = []
    pool = rnd.sample(NAMES, rnd.randint(3, 6)) + rnd.sample(KEYWORD_NAMES, rnd.randint(0, 2))
    # force prefix pairs / case variants into most pools
    if rnd.random() < 0.7:
        pool += rnd.choice([["v1", "v10"], ["var", "var1", "var10"], ["a", "ab", "abc"], ["v", "v1_"]])
    pool = list(dict.fromkeys(pool))
    for step in range(rnd.randint(6, 14)):
        i = rnd.randrange(nconn)
        cur = rnd.randrange(2)
        r = rnd.random()
        defined = list(spec[i])
        if r < 0.4 or not defined:
            name = rnd.choice(pool)
            k = rnd.random()
            if k < 0.06:
                # lengths around 255/256/257 (characters and bytes), plain and escape-heavy: there is no size limit in the property
                n_ = rnd.choice([250, 254, 255, 256, 257, 300])
                s = rnd.choice(["a" * n_, "é" * (n_ // 2), "'" * (n_ // 2), "\\" * (n_ // 2), ("x'" * n_)[:n_], "ab\n" * (n_ // 3)])
                written, kind, val = sql_str(s, rnd), "S:" + enc_str(s), s
            elif k < 0.5:
                s = clean_str(rnd)
                written, kind, val = sql_str(s, rnd), "S:" + enc_str(s), s
            elif k < 0.62:
                n = rnd.choice([0, 7, 42, 10**12, rnd.randint(0, 999)])
                written, kind, val = str(n), "N:" + enc_str(str(n)), n
            elif k < 0.7:
                d = rnd.choice(["1.50", "0.001", "12345.678"])
                written, kind, val = d, "N:" + enc_str(d), decimal.Decimal(d)
            elif k < 0.78:
                n = rnd.randint(1, 99)
                written, kind, val = f"-{n}", "P:" + enc_str(f"-{n}"), -n
            elif k < 0.84:
                # a Snowflake-specific expression: `$name` must stand for what the expression evaluates to
                ex, cell = rnd.choice(EXPRS)
                val = Ex(ex)
                val.cell = cell
                written, kind = ex, "N:" + enc_str(stored_text(ex))
            elif k < 0.92:
                a, b, o = rnd.randint(1, 9), rnd.randint(1, 9), rnd.choice(["+", "-", "*"])
                written, kind, val = f"{a} {o} {b}", "P:" + enc_str(f"{a} {o} {b}"), eval(f"{a}{o}{b}")  # noqa: S307
            elif defined:
                other = rnd.choice(defined)
                written, kind, val = "$" + spell(other.lower(), rnd), "R:" + enc_str(other), spec[i][other]
            else:
                written, kind, val = "1", "N:" + enc_str("1"), 1
            stmt = f"{rnd.choice(['set', 'SET', 'Set'])} {spell(name, rnd)} = {written}"
            ops.append({"op": "s", "conn": i, "cur": cur, "name": name.upper(), "kind": kind, "sql": stmt})
            spec[i][name.upper()] = val
        elif r < 0.47:
            name = rnd.choice(defined)
            ops.append({"op": "u", "conn": i, "cur": cur, "name": name, "sql": f"{rnd.choice(['unset', 'UNSET'])} {spell(name.lower(), rnd)}"})
            del spec[i][name]
        elif r < 0.5 and rnd.random() < 0.6:
            # an execute_string script that SETs / UNSETs a variable and then references it: every statement of the script sees the
            # SETs and UNSETs of the statements before it
            subs = []
            name = rnd.choice(pool).upper()
            for part in range(rnd.randint(1, 2)):
                if name in spec[i] and rnd.random() < 0.3:
                    subs.append({"op": "u", "conn": i, "cur": cur, "name": name, "sql": f"unset {spell(name.lower(), rnd)}"})
                    del spec[i][name]
                else:
                    if rnd.random() < 0.5:
                        val = rnd.randint(0, 99)
                        written, kind = str(val), "N:" + enc_str(str(val))
                    else:
                        val = clean_str(rnd)
                        written, kind = sql_str(val, rnd), "S:" + enc_str(val)
                    subs.append({"op": "s", "conn": i, "cur": cur, "name": name, "kind": kind, "sql": f"SET {spell(name.lower(), rnd)} = {written}"})
                    spec[i][name] = val
                ref = "$" + spell(name.lower(), rnd)
                others = [n for n in spec[i] if n != name]
                extra = rnd.choice(others) if others and rnd.random() < 0.5 else None
                items = [ref] + (["$" + spell(extra.lower(), rnd)] if extra else [])
                if name in spec[i]:
                    subs.append({"op": "q", "conn": i, "cur": cur, "sql": "select " + ", ".join(items), "expect": [[cv(spec[i][n]) for n in [name] + ([extra] if extra else [])]],
                                 "err": None, "lit": False, "undef_item": None, "recipe": None})
                else:
                    subs.append({"op": "q", "conn": i, "cur": cur, "sql": "select " + ", ".join(items), "expect": None, "err": name, "lit": False, "undef_item": ref, "recipe": None})
                    break
            ops.append({"op": "e", "conn": i, "cur": cur, "subs": subs, "sql": ";\n".join(x["sql"] for x in subs) + rnd.choice(["", ";", " ;\n"])})
        elif nop and r < 0.56:
            # nop-matched statements that reference variables: the reference is resolved FIRST (an undefined one raises), and the
            # patterns see the substituted text (a statement may match only after substitution)
            k = rnd.random()
            if k < 0.6:
                n2 = rnd.choice(list(spec[i]) + UNDEF + [p for p in pool])
                ref = "$" + spell(n2.lower(), rnd)
                sql = f"{rnd.choice(['call', 'CALL', 'Call'])} proc({ref}, 1)"
                if n2.upper() in spec[i]:
                    ops.append({"op": "q", "conn": i, "cur": cur, "sql": sql, "expect": [[("str", "Statement executed successfully.")]], "err": None, "lit": False,
                                "undef_item": None, "recipe": None})
                else:
                    ops.append({"op": "q", "conn": i, "cur": cur, "sql": sql, "expect": None, "err": n2.upper(), "lit": False, "undef_item": ref, "recipe": None})
            else:
                name = rnd.choice(pool).upper()
                val = "skip " + rnd.choice(["me", "this one", "x'y", "a;b"])
                ops.append({"op": "s", "conn": i, "cur": cur, "name": name, "kind": "S:" + enc_str(val), "sql": f"set {spell(name.lower(), rnd)} = {sql_str(val, rnd)}"})
                spec[i][name] = val
                ops.append({"op": "q", "conn": i, "cur": cur, "sql": f"select ${spell(name.lower(), rnd)}", "expect": [[("str", val)]], "err": None, "lit": False,
                            "undef_item": None, "recipe": [("ref", name, None, "$" + name.lower())]})
        elif r < 0.53:
            # SET through a bound parameter: the only way a value can legally contain `$word` text — it must be kept verbatim
            name = rnd.choice(pool)
            n2 = rnd.choice(list(spec[i]) + [n for e in spec for n in e] + UNDEF)
            val = rnd.choice(["price in ${}", "${}", "a ${} b", "${}10", "100 ${}s"]).format(spell(n2.lower(), rnd))
            ops.append({"op": "s", "conn": i, "cur": cur, "name": name.upper(), "kind": "S:" + enc_str(val), "sql": f"set {spell(name, rnd)} = %s", "params": [val]})
            spec[i][name.upper()] = val
        elif r < 0.6:
            nums = [n for n, v in spec[i].items() if isinstance(v, (int, decimal.Decimal)) and not isinstance(v, bool)]
            if nums and rnd.random() < 0.5:
                # executemany of a command that SETs the variable it references: every row sees the SET of the row before
                name = rnd.choice(nums)
                rows = [rnd.randint(1, 9) for _ in range(rnd.randint(2, 3))]
                o = rnd.choice(["+", "*"])
                ref = "$" + spell(name.lower(), rnd)
                sql = f"SET {name} = {ref} {o} %s"
                models = []
                for k in rows:
                    models.append(",".join(["s", str(i), enc_str(name), "X:" + enc_str(f"{ref} {o} {k}"), enc_str(sql)]))
                    spec[i][name] = spec[i][name] + k if o == "+" else spec[i][name] * k
                ops.append({"op": "m", "conn": i, "cur": cur, "sql": sql, "rows": [[k] for k in rows], "models": models, "want": "status"})
                ops.append({"op": "q", "conn": i, "cur": cur, "sql": f"select ${name.lower()}", "expect": [[cv(spec[i][name])]], "err": None, "lit": False,
                            "undef_item": None, "recipe": [("ref", name, None, f"${name.lower()}")]})
            else:
                # executemany of an INSERT that references a variable, with bound values containing `$name`
                cand = [n for n, v in spec[i].items() if (isinstance(v, int) and not isinstance(v, bool)) or (isinstance(v, str) and not isinstance(v, Ex) and "%" not in v and "\x00" not in v)]
                if cand:
                    var = rnd.choice(cand)
                    wexpr, wval = "$" + spell(var.lower(), rnd), (spec[i][var] if isinstance(spec[i][var], str) else str(spec[i][var]))
                else:
                    wexpr, wval = "'k'", "k"
                ids = [(hid % 100000) * 100 + len(ops) * 4 + k for k in range(rnd.randint(2, 3))]
                vals = []
                for _ in ids:
                    n2 = rnd.choice(list(spec[i]) + [n for e in spec for n in e] + UNDEF)
                    vals.append(rnd.choice(["costs ${}", "${}", "plain", "'${}'", "${}10"]).format(spell(n2.lower(), rnd)))
                sql = f"insert into tm (id, v, w) values (%s, %s, {wexpr})"
                models = [",".join(["b", str(i), enc_str(sql), "N:" + enc_str(str(k)) + "+S:" + enc_str(v)]) for k, v in zip(ids, vals)]
                ops.append({"op": "m", "conn": i, "cur": cur, "sql": sql, "rows": [[k, v] for k, v in zip(ids, vals)], "models": models, "want": "insert"})
                ops.append({"op": "q", "conn": i, "cur": cur, "sql": f"select id, v, w from tm where id >= {ids[0]} and id <= {ids[-1]} order by id",
                            "expect": [[("int", k), ("str", v), ("str", wval)] for k, v in zip(ids, vals)], "err": None, "lit": False, "undef_item": None, "recipe": []})
        else:
            ops.append(gen_query(rnd, i, cur, spec[i], pool, all_names=[n for e in spec for n in e]))
            if ops[-1]["op"] == "q" and not ops[-1]["lit"] and not nop and rnd.random() < 0.25:
                # cursor.describe is a use-site of variables too: same columns as executing, or the undefined-variable error
                d = dict(ops[-1])
                d["op"] = "d"
                ops.append(d)
            if ops[-1]["op"] != "d" and rnd.random() < 0.5:
                # the same text, byte for byte, on the other connection right away (no SET/UNSET in between): each connection
                # must see its own variables — or the undefined-variable error
                j = (i + 1) % nconn
                m = mirror(ops[-1], j, rnd.randrange(2), spec[j])
                if m is not None:
                    ops.append(m)
                    if rnd.random() < 0.3:
                        back = mirror(ops[-2], i, rnd.randrange(2), spec[i])
                        if back is not None:
                            ops.append(back)
    if hid % 3 == 0:
        for o in ops:
            if o["op"] in ("s", "u", "q", "b") and rnd.random() < 0.3:
                o["thread"] = True
    return {"id": hid, "nconn": nconn, "ops": ops, "nop": nop}


def gen_query(rnd, i, cur, env: dict, pool, all_names=()) -> dict:
    items, expect, err, lit, undef_item = [], [], None, False, None
    bound = rnd.random() < 0.3          # a statement with pyformat-bound parameters
    params, wires = [], []
    recipe = []                         # how to recompute the expectation for another connection's variables (mirror ops)
    # mostly 1-3 select items; one statement in ten has 9-14 of them (a statement may reference variables any number of times)
    for _ in range(rnd.randint(9, 14) if rnd.random() < 0.1 else rnd.randint(1, 3)):
        k = rnd.random()
        if bound and k < 0.45:
            # a bound value: data, whatever `$name` it contains (defined here, defined elsewhere, undefined)
            pct_ref = any(isinstance(v, str) and "%" in v for v in env.values())
            if rnd.random() < 0.8 and not pct_ref:
                n = rnd.choice(list(env) + list(all_names) + UNDEF)
                val = rnd.choice(["costs ${}", "${}", "a ${} b", "${}$", "'${}'", "${}10"]).format(spell(n.lower(), rnd))
            else:
                val = rnd.choice(["plain", "it's", "$", "$$", "a$ b", 7, 0])
            items.append("%s")
            params.append(val)
            wires.append(("S:" + enc_str(val)) if isinstance(val, str) else ("N:" + enc_str(repr(val))))
            expect.append(canon(val))
            recipe.append(("const", canon(val)))
            continue
        defined = list(env)
        if k < 0.5 and defined:
            n = rnd.choice(defined)
            v = env[n]
            ref = "$" + spell(n.lower(), rnd)
            if isinstance(v, str) or rnd.random() < 0.4:
                items.append(rnd.choice([ref, f"({ref})", f" {ref} "]))
                expect.append(cv(v))
                recipe.append(("ref", n, None, items[-1]))
            else:
                form = rnd.choice(["{} * 2", "3-{}", "10 - {} - 1", "{}+1"])
                items.append(form.format(ref))
                expect.append(canon(eval(form.format(f"({v!r})"), {"Decimal": decimal.Decimal})))  # noqa: S307
                recipe.append(("ref", n, form, items[-1]))
        elif k < 0.6:
            # an undefined name, or a defined one of another connection / a longer or shorter neighbour
            cand = [u for u in UNDEF + [p + "0" for p in pool] + [p[:-1] for p in pool if len(p) > 1] + pool if u.upper() not in env]
            n = rnd.choice(cand)
            items.append("$" + spell(n, rnd))
            expect.append(None)
            recipe.append(("ref", n.upper(), None, items[-1]))
            if err is None:
                err, undef_item = n.upper(), items[-1]
        elif k < 0.7:
            n = rnd.choice(pool)
            if rnd.random() < 0.5:
                items.append(f"$${n}$$")          # a `$$` string, not a reference
                body = n
            else:
                # `$$$name …$$`: every `$` of `$$$` is preceded or followed by `$` — still no reference
                body = "$" + n + rnd.choice([" per unit", "", "$"])
                items.append(f"$${body}$$" if not body.endswith("$") else f"$${body} $$")
                body = body if not body.endswith("$") else body + " "
            expect.append(("str", body))
            recipe.append(("const", ("str", body)))
        elif k < 0.8:
            s = rnd.choice(["a$", "$ b", "$$", "$", "a$ $", "$-1", "x$$"] + ([] if bound else ["100%"]))
            items.append(f"'{s}'")
            expect.append(("str", s))
            recipe.append(("const", ("str", s)))
        elif k < 0.9:
            # `$word` inside a literal: not a reference (finding region)
            n = rnd.choice(list(env) + ["5", "nope"])
            s = rnd.choice(["costs ${}", "${}", "a ${} b"]).format(spell(n.lower(), rnd))
            items.append(f"'{s}'")
            expect.append(("str", s))
            recipe.append(("const", ("str", s)))
            lit = True
        else:
            items.append(rnd.choice(["1", "'x'", "null", "1.5"]))
            expect.append({"1": ("int", 1), "'x'": ("str", "x"), "null": ("null",), "1.5": ("flt", 1.5)}[items[-1]])
            recipe.append(("const", expect[-1]))
    sql = "select " + ", ".join(items)
    k = rnd.random()
    if k < 0.1:
        n = rnd.choice(list(env) + ["5"])
        sql += rnd.choice([" -- ${}", " /* ${} */"]).format(n.lower())
        lit = True
    elif k < 0.3:
        sql += rnd.choice([";", " ;", "\n", " -- tail", " /* c */"])
    if bound and params:
        return {"op": "b", "conn": i, "cur": cur, "sql": sql, "expect": None if err else [expect], "err": err, "lit": lit, "undef_item": undef_item,
                "params": params, "wires": wires, "recipe": recipe}
    return {"op": "q", "conn": i, "cur": cur, "sql": sql, "expect": None if err else [expect], "err": err, "lit": lit, "undef_item": undef_item,
            "recipe": recipe}


def mirror(op: dict, j: int, cur: int, env: dict) -> dict | None:
    """the byte-identical statement on another connection: what it must give there (that connection's variables)"""
    if op.get("recipe") is None:
        return None
    expect, err, undef_item = [], None, None
    for r in op["recipe"]:
        if r[0] == "const":
            expect.append(r[1])
            continue
        _, name, form, item = r
        if name not in env:
            expect.append(None)
            if err is None:
                err, undef_item = name, item.strip().strip("()")
            continue
        v = env[name]
        if form is None:
            expect.append(cv(v))
        elif isinstance(v, str):
            return None          # arithmetic on a string-valued variable: not a case of this property
        else:
            expect.append(canon(eval(form.format(f"({v!r})"), {"Decimal": decimal.Decimal})))  # noqa: S307
    m = dict(op)
    m.update({"conn": j, "cur": cur, "expect": None if err else [expect], "err": err, "undef_item": undef_item, "mirror": True})
    return m


# ------------------------------------------------------------------------------------------------
def _lines(hists):
    lines = []
    for h in hists:
        ops = []
        for o in flat(h["ops"]):
            if o["op"] == "m":
                ops.extend(o["models"])
            elif o["op"] == "s":
                ops.append(",".join(["s", str(o["conn"]), enc_str(o["name"]), o["kind"], enc_str(o["sql"])]))
            elif o["op"] == "u":
                ops.append(",".join(["u", str(o["conn"]), enc_str(o["name"])]))
            elif o["op"] == "b":
                ops.append(",".join(["b", str(o["conn"]), enc_str(o["sql"]), "+".join(o["wires"])]))
            elif o["op"] == "d":
                ops.append(",".join(["q", str(o["conn"]), enc_str("DESCRIBE " + o["sql"])]))
            else:
                ops.append(",".join(["q", str(o["conn"]), enc_str(o["sql"])]))
        lines.append(f"vars\thist\t{h['nconn']}\t" + enc_list(ops))
    return lines


def _attach(hists, replies):
    for h, rep in zip(hists, replies):
        obs = dec_list(rep["obs"])
        if len(obs) != sum(len(o["models"]) if o["op"] == "m" else 1 for o in flat(h["ops"])) or "bad" in obs:
            raise common.Infra(f"model rejected history {h['id']}: {rep['_raw'][:300]}")
        it = iter(obs)
        pairs = []
        for o in flat(h["ops"]):
            if o["op"] == "m":
                o["m_obs"] = [next(it) for _ in o["models"]]
            else:
                pairs.append((o, next(it)))
        for o, ob in pairs:
            parts = ob.split("|")
            body, lit = parts[0], parts[1] if len(parts) > 1 else "0"
            o["m_lit"] = lit == "1"
            o["m_pct"] = len(parts) > 2 and parts[2] == "1"
            fin = parts[3] if len(parts) > 3 else "-"
            o["m_final"] = ("ok", dec_str(fin[3:])) if fin.startswith("ok:") else (fin, None)
            o["m_bad"] = "!impl" in body
            body = body.split("!")[0]
            if body.startswith("ok:"):
                o["model"] = ("ok", dec_str(body[3:]))
            elif body.startswith("undef:"):
                o["model"] = ("undef", dec_str(body[6:]))
            else:
                o["model"] = (body, None)


def _in_thread(fn):
    """run fn in a worker thread and wait for it (the connection is used strictly sequentially)"""
    import threading
    box = []
    t = threading.Thread(target=lambda: box.append(fn()))
    t.start()
    t.join()
    return box[0]


def _outcome(fn):
    import snowflake.connector.errors as se
    try:
        return fn()
    except se.ProgrammingError as e:
        return ("err", "ProgrammingError", e.errno, e.sqlstate, (e.raw_msg if hasattr(e, "raw_msg") else e.msg))
    except se.Error as e:
        return ("err", type(e).__name__, e.errno, e.sqlstate, None)
    except Exception as e:
        return ("err", type(e).__name__, None, None, None)


def _select(cur, sql, params=None):
    cur.execute(sql, params)
    return ("rows", [[canon(c) for c in r] for r in cur.fetchall()])


def _run_q(o, cur, twin, real):
    """a query op: the real outcome (given), the model's text on the twin, the no-execution probe for undefined references"""
    params = tuple(o["params"]) if o["op"] == "b" else None
    r = {"real": real}
    if o["model"][0] == "ok" and not re.search(r"(?<!\$)\$\w", o["model"][1]):
        # the model's inlined command on a connection without variables (the same values bound, if any); not possible
        # when an inlined VALUE contains `$word` text (set through a bound parameter): the twin would scan it
        r["twin"] = _outcome(lambda: _select(twin.cursor(), o["model"][1], params))
    if o["op"] == "b" and o["m_pct"] and o["m_final"][0] == "ok" and not re.search(r"(?<!\$)\$\w", o["m_final"][1]):
        r["twin_final"] = _outcome(lambda: _select(twin.cursor(), o["m_final"][1]))
    if o.get("err"):
        # nothing may be executed: a DML carrying the same undefined reference leaves the table alone
        dml = f"insert into t select 1 where {o.get('undef_item') or '$' + o['err'].lower()} is null or true"
        r["dml"] = _outcome(lambda: _select(cur, dml))
        r["count"] = _outcome(lambda: _select(twin.cursor(), "select count(*) from t"))
    return r


def _worker(hists):
    import fakesnow
    import snowflake.connector as sc
    out = {}
    for nop in (False, True):
        group = [(k, h) for k, h in enumerate(hists) if bool(h.get("nop")) == nop]
        if not group:
            continue
        with fakesnow.patch(nop_regexes=NOP15 if nop else None):
            for k, h in group:
                conns = [sc.connect(database="d", schema="s") for _ in range(h["nconn"])]
                twin = sc.connect(database="d", schema="s")
                curs = [[c.cursor(), c.cursor()] for c in conns]
                twin.cursor().execute("create or replace table t (id int)")
                twin.cursor().execute("create or replace table tm (id int, v varchar, w varchar)")
                res = []
                for o in h["ops"]:
                    cur = curs[o["conn"]][o["cur"]]
                    if o.get("thread") and o["op"] in ("s", "u", "q", "b"):
                        # the same connection, used from another thread: it sees and changes the same variables
                        if o["op"] in ("s", "u"):
                            res.append({"real": _in_thread(lambda: _outcome(lambda: _select(conns[o["conn"]].cursor(), o["sql"], tuple(o["params"]) if o.get("params") else None)))})
                        else:
                            params = tuple(o["params"]) if o["op"] == "b" else None
                            real = _in_thread(lambda: _outcome(lambda: _select(conns[o["conn"]].cursor(), o["sql"], params)))
                            res.append(_run_q(o, cur, twin, real))
                        continue
                    if o["op"] == "e":
                        # one execute_string call; its cursors belong to the statements in order
                        try:
                            cs = conns[o["conn"]].execute_string(o["sql"])
                            reals = [("rows", [[canon(c) for c in row] for row in c_.fetchall()]) for c_ in cs]
                            if len(reals) != len(o["subs"]):
                                reals = [("err", "wrong-number-of-cursors", len(reals), None, None)] * len(o["subs"])
                        except Exception as e:  # noqa: BLE001  (the cursors of the statements before the failing one are lost)
                            err = _outcome(lambda e=e: (_ for _ in ()).throw(e))
                            reals = [("lost",)] * (len(o["subs"]) - 1) + [err]
                        subs = []
                        for so, real in zip(o["subs"], reals):
                            subs.append(_run_q(so, cur, twin, real) if so["op"] in ("q", "b") else {"real": real})
                        res.append({"subs": subs})
                    elif o["op"] == "m":
                        def many(cur=cur, o=o):
                            cur.executemany(o["sql"], [tuple(r) for r in o["rows"]])
                            return ("rows", [[canon(c) for c in r] for r in cur.fetchall()])
                        res.append({"real": _outcome(many)})
                    elif o["op"] == "d":
                        def desc(c_, sql):
                            # type codes only: the NAME of an un-aliased column is the engine's rendering of the expression text
                            return ("cols", [m.type_code for m in c_.describe(sql)])

                        def ref(c_=cur, sql=o["sql"]):
                            c_.execute(sql)
                            return ("cols", [m.type_code for m in c_.description])
                        r = {"real": _outcome(lambda: desc(cur, o["sql"])), "ref": _outcome(ref)}
                        if o["model"][0] == "ok" and not re.search(r"(?<!\$)\$\w", o["model"][1]):
                            r["twin"] = _outcome(lambda: desc(twin.cursor(), o["model"][1][len("DESCRIBE "):]))
                        res.append(r)
                    elif o["op"] in ("s", "u"):
                        r = _outcome(lambda: _select(cur, o["sql"], tuple(o["params"]) if o.get("params") else None))
                        res.append({"real": r})
                    else:
                        params = tuple(o["params"]) if o["op"] == "b" else None
                        res.append(_run_q(o, cur, twin, _outcome(lambda: _select(cur, o["sql"], params))))
                out[k] = res
    return [out[k] for k in range(len(hists))]


OKROW = ("rows", [[("str", "Statement executed successfully.")]])


def _judge(chk, h, res):
    names = sorted({o["name"] for o in flat(h["ops"]) if o["op"] == "s"})
    prefix_pair = any(a != b and b.startswith(a) for a in names for b in names)
    chk.case(("hist", bool(h.get("nop")), tuple(o["sql"] for o in h["ops"])), nontrivial=any(o["op"] == "q" for o in flat(h["ops"])))
    chk.count("histories" + (":nop-instance" if h.get("nop") else ""))
    if prefix_pair:
        chk.count("histories:with-prefix-pair")
    keep = ("op", "conn", "cur", "name", "kind", "sql", "expect", "err", "lit", "undef_item", "params", "wires", "mirror", "rows", "models", "want", "thread")

    def slim(x):
        d = {k: x[k] for k in keep if k in x}
        if x["op"] == "e":
            d["subs"] = [slim(y) for y in x["subs"]]
        return d
    steps = []          # (index of the history op, statement, its observation, the script it belongs to)
    for idx, (o, r) in enumerate(zip(h["ops"], res)):
        if o["op"] == "e":
            chk.count("op:e")
            steps += [(idx, so, sr, o) for so, sr in zip(o["subs"], r["subs"])]
        else:
            steps.append((idx, o, r, None))
    for idx, o, r, script in steps:
        case = {"kind": "hist", "nconn": h["nconn"], "nop": bool(h.get("nop")), "ops": [slim(x) for x in h["ops"][: idx + 1]], "failing_op": idx}
        real = r["real"]
        if real == ("lost",):
            continue            # cursor of a statement before the failing one of a script: its effect shows in the later statements
        via = f" (statement of execute_string({script['sql']!r}))" if script else ""
        chk.count("op:" + o["op"] + (":in-script" if script else "") + (":from-worker-thread" if o.get("thread") else ""))
        if o.get("mirror"):
            chk.count("q:mirror-identical-text-other-connection")
        if o["op"] == "m":
            want = OKROW if o["want"] == "status" else ("rows", [[("int", 1)]])
            if real == want and all(ob.split("|")[0] == "d" or ob.startswith("ok:") for ob in o["m_obs"]):
                chk.count("held")
                continue
            chk.violation(f"history #{h['id']} op {idx}: executemany(`{o['sql']}`, {o['rows']}) on connection {o['conn']} returned {_short(real)} (expected {want}); "
                          f"model per row: {[ob.split('|')[0][:40] for ob in o['m_obs']]}", case, broken="C15_exact/C15_set (executemany = one execute per row)")
            return
        if o["op"] == "d":
            chk.count("q:describe")
            if o["err"]:
                want = ("err", "ProgrammingError", MSG.format(o["err"]))
                held = real[0] == "err" and (real[1], real[4]) == want[1:]
            else:
                want = r["ref"]
                held = real == want        # the same columns — or the same error, e.g. for a column type `description` cannot map
            pred_ok = (r["twin"] == real) if "twin" in r else (o["model"][0] == "ok" or (real[0] == "err" and real[4] == MSG.format(o["model"][1])))
            if held and pred_ok:
                chk.count("held")
                continue
            chk.violation(f"history #{h['id']} (connection {o['conn']}) after {[x['sql'] for x in h['ops'][:idx]]}: cursor.describe(`{o['sql']}`) gave {_short(real)} but "
                          f"executing the statement gives the columns / error {_short(want)} (model: {o['model'][0]}, twin {_short(r.get('twin'))})", case,
                          broken="C15_exact/C15_undefined (describe is a use-site of variables)", failing_input=held is False)
            return
        if o["op"] in ("s", "u"):
            want = OKROW if o["model"][0] == "d" else None
            if o["model"][0] == "d" and real == OKROW:
                continue
            chk.violation(f"history #{h['id']} op {idx} `{o['sql']}`{via} on connection {o['conn']}: returned {_short(real)}, the model of SET/UNSET says {o['model']}", case,
                          broken="C15_set/C15_unset (correspondence Fs.Vars.wstep)")
            return
        if o["m_bad"]:
            chk.violation(f"model inconsistency on `{o['sql']}`: Impl.inline ≠ Spec.inline", case, broken="C15_exact", failing_input=False)
        # specification: the rows the variables stand for, or the undefined-variable error
        if o["err"]:
            want = ("err", "ProgrammingError", MSG.format(o["err"]))
            got = (real[0], real[1], real[4]) if real[0] == "err" else real
            held = got == want and r.get("dml", ("x",))[0] == "err" and r.get("count") == ("rows", [[("int", 0)]])
            chk.count("q:undefined")
        else:
            want = ("rows", [list(x) for x in o["expect"]])
            if h.get("nop") and o["model"][0] == "ok":
                # nop_regexes see the command after variable inlining and parameter binding
                text = o["m_final"][1] if o["op"] == "b" and o["m_final"][0] == "ok" else o["model"][1]
                if any(re.match(p_, text, re.IGNORECASE) for p_ in NOP15):
                    want = OKROW
                    chk.count("q:nop-matched-after-substitution")
            held = real == want
            chk.count("q:defined" + (":lit" if o["lit"] else ""))
        # model prediction
        if o["op"] == "b":
            chk.count("q:bound")
        if o["model"][0] == "ok" and "twin" not in r and not (o["op"] == "b" and o["m_pct"]):
            pred_ok = True          # an inlined value carries `$word` text: only the model-free oracle applies
            chk.count("q:twin-skipped-dollar-in-value")
        elif o["op"] == "b" and o["m_pct"] and o["model"][0] == "ok":
            # a referenced value contains `%`: the model of the code formats it together with the command
            if o["m_final"][0] == "ok" and "twin_final" not in r:
                pred_ok = True      # the final text carries `$word` inside a bound value: the twin would scan it
            elif o["m_final"][0] == "ok":
                pred_ok = r["twin_final"] == real or (r["twin_final"][0] == "err" and real[0] == "err" and r["twin_final"][1:4] == real[1:4])
            else:
                pred_ok = real[0] == "err" and real[1] in ("TypeError", "ValueError", "KeyError")
        elif o["model"][0] == "ok":
            pred = r["twin"]
            pred_ok = (pred == real) or (pred[0] == "err" and real[0] == "err" and pred[1:4] == real[1:4])
        else:
            pred_ok = real[0] == "err" and real[1] == "ProgrammingError" and real[4] == MSG.format(o["model"][1])
        if held:
            if not pred_ok:
                chk.violation(f"history #{h['id']} op {idx} `{o['sql']}`: the property holds but the model predicted {o['model']} → {_short(r.get('twin'))}, real {_short(real)}",
                              case, broken="correspondence Fs.Vars.Impl.inline", failing_input=False)
                return
            chk.count("held")
            continue
        what = (f"history #{h['id']} (connection {o['conn']}, cursor {o['cur']}) after {[x['sql'] for x in h['ops'][:idx]]}: `{o['sql']}`{via}{(' with bound parameters ' + repr(tuple(o['params']))) if o['op'] == 'b' else ''} gave {_short(real)} "
                f"but the variables stand for {_short(want)}" + (f"; dml={r.get('dml')} count={r.get('count')}" if o["err"] else ""))
        if o["m_lit"] and pred_ok:
            chk.finding("C15/dollar-in-literal-or-comment", what, case)
            continue
        if o["op"] == "b" and o.get("m_pct") and pred_ok:
            chk.finding("C15/percent-in-value-with-params", what, case)
            continue
        chk.violation(what, case, broken="C15_exact/C15_reference/C15_undefined/C15_scope (correspondence with Fs.Vars + values read back)")
        return


def _short(x):
    s = repr(x)
    return s if len(s) < 260 else s[:260] + "…"


def gen_ties(chk):
    """Fs.Gen.sfLit against sqlglot's Snowflake generator, and the tokenizer reading it back"""
    from sqlglot import exp
    from sqlglot.dialects.snowflake import Snowflake
    rnd = random.Random(chk.seed + 7)
    strs = list(ATOMS) + [gen_str(rnd, nul=(i % 50 == 0)) for i in range(400 if chk.tier == "quick" else 20000)]
    reps = common.batch(["vars\tsflit\t" + enc_str(s) for s in strs])
    for s, r in zip(strs, reps):
        real = exp.Literal.string(s).sql(dialect="snowflake")
        chk.case(("sflit", s), nontrivial=any(c in s for c in "'\\\n\t"))
        chk.count("tie:sflit")
        try:
            back = [t.text for t in Snowflake().tokenize(real)]
        except Exception as e:  # noqa: BLE001
            back = repr(e)
        if dec_str(r["lit"]) != real or back != [s] or r["lex"] != "ok:" + enc_str(s):
            chk.violation(f"Snowflake literal of {s!r}: sqlglot {real!r} reads back {back!r}; model {dec_str(r['lit'])!r} lex={r['lex']}", {"kind": "sflit", "s": s},
                          broken="correspondence Fs.Gen.sfLit / C16_literal_roundtrip", failing_input=False)


def corpus_histories() -> list[dict]:
    """the shapes of the repaired defects and of the recorded finding, always run first"""
    def q(i, sql, expect=None, err=None, lit=False, cur=0):
        return {"op": "q", "conn": i, "cur": cur, "sql": sql, "expect": expect, "err": err, "lit": lit}

    def s(i, name, kind, written, cur=0):
        return {"op": "s", "conn": i, "cur": cur, "name": name.upper(), "kind": kind, "sql": f"set {name} = {written}"}
    hs = [
        [s(0, "var1", "S:" + enc_str("A"), "'A'"), s(0, "var10", "S:" + enc_str("B"), "'B'"), q(0, "select $var10, $VAR1, $var1", [[("str", "B"), ("str", "A"), ("str", "A")]], cur=1)],
        [s(0, "var10", "S:" + enc_str("B"), "'B'"), s(0, "var1", "S:" + enc_str("A"), "'A'"), q(0, "select $var10", [[("str", "B")]])],
        [s(0, "b", "S:" + enc_str("a\\1b\\g<0>"), "'a\\\\1b\\\\g<0>'"), q(0, "select 1", [[("int", 1)]]), q(0, "select $b", [[("str", "a\\1b\\g<0>")]])],
        [s(0, "b", "S:" + enc_str("x\\b\ny"), "'x\\\\b\\ny'"), q(0, "select $B", [[("str", "x\\b\ny")]])],
        [s(0, "e", "P:" + enc_str("1 + 2"), "1 + 2"), q(0, "select $e * 2", [[("int", 6)]]), s(0, "n", "P:" + enc_str("-5"), "-5"), q(0, "select 3-$n", [[("int", 8)]])],
        [s(0, "v", "N:" + enc_str("1"), "1"), q(1, "select $v", None, err="V"), q(0, "select $v", [[("int", 1)]], cur=1), q(0, "select $$v$$", [[("str", "v")]])],
        [s(0, "s", "S:" + enc_str("x"), "'x'"), q(0, "select 'costs $5'", [[("str", "costs $5")]], lit=True), q(0, "select '$s'", [[("str", "$s")]], lit=True),
         q(0, "select 1 -- $5", [[("int", 1)]], lit=True)],
    ]
    def b(i, sql, params, expect=None, err=None):
        return {"op": "b", "conn": i, "cur": 0, "sql": sql, "expect": expect, "err": err, "lit": False, "undef_item": None, "params": params,
                "wires": [("S:" + enc_str(p)) if isinstance(p, str) else ("N:" + enc_str(repr(p))) for p in params]}
    hs.append([s(0, "usd", "N:" + enc_str("5"), "5"), b(0, "select %s, $usd", ["costs $USD"], [[("str", "costs $USD"), ("int", 5)]]),
               b(0, "select %s", ["refund of $eur"], [[("str", "refund of $eur")]]), b(1, "select %s, %s", ["$usd", "$Usd10"], [[("str", "$usd"), ("str", "$Usd10")]])])
    hs.append([s(0, "p", "S:" + enc_str("50%"), "'50%'"), b(0, "select $p, %s", [1], [[("str", "50%"), ("int", 1)]]), q(0, "select $p", [[("str", "50%")]])])
    return [{"id": -1 - k, "nconn": 2, "ops": ops} for k, ops in enumerate(hs)]


def _execute(chk, hists):
    replies = common.batch(_lines(hists))
    _attach(hists, replies)
    shards = common.chunks(hists, 16)
    results = common.shard_map(_worker, shards)
    for shard, rs in zip(shards, results):
        for h, res in zip(shard, rs):
            _judge(chk, h, res)


def run(chk) -> None:
    rnd = random.Random(chk.seed)
    chk.rule = ("histories of 6-14 SET / UNSET / SELECT steps over pools of 3-9 names with forced prefix pairs (v1/v10, var/var1/var10, a/ab/abc) and random letter case, "
                "statements with pyformat-bound values containing `$name` (defined on this / another connection, undefined); values: adversarial strings (quotes, backslashes, newlines, %, lone $, $$, comment markers, unicode), ints, decimals, negative numbers, a+b/a-b/a*b, "
                "$other; references bare / in arithmetic / before ; ) , and neighbours that are undefined; `$$name$$` strings; `$word` in literals and comments; "
                "2 connections × 2 cursors + a variable-free twin.  non-trivial = distinct history containing a query")
    gen_ties(chk)
    n = 320 if chk.tier == "quick" else 6000
    hists = corpus_histories() + [gen_history(rnd, k, nop=(k % 4 == 3)) for k in range(n)]
    _execute(chk, hists)
    chk.samples = [[o["sql"] for o in h["ops"]] for h in hists[7:10]]
    chk.trusted += ["CPython re: \\w on ASCII, leftmost non-overlapping matches, look-behind (Fs.Vars.tokenize, compared on every run through the twin execution)",
                    "sqlglot Snowflake generator for string literals (Fs.Gen.sfLit, compared on every run) and its rendering of SET values (numbers as written, compound expressions parenthesised)"]
    chk.assumptions = ["variable names and the text around references are ASCII (Python's \\w and str.upper are Unicode; the model's are ASCII)",
                       "string values contain no NUL (C08/nul) and no `$word` (the SET statement itself passes the variable phase: C15/dollar-in-literal-or-comment)",
                       "UNSET is only generated for a variable that is set (UNSET of an unknown name raises a raw KeyError; the property does not speak about it)"]


def replay(chk, case) -> None:
    if case.get("kind") == "sflit":
        chk.violation("engine-model disagreement replays are re-run by the full check (gen_ties)", case, broken="engine tie", failing_input=False)
        return
    def thaw(o):
        o = dict(o)
        if o.get("expect") is not None:
            o["expect"] = [[tuple(c) for c in row] for row in o["expect"]]
        if o.get("subs"):
            o["subs"] = [thaw(x) for x in o["subs"]]
        return o
    ops = [thaw(o) for o in case["ops"]]
    _execute(chk, [{"id": 0, "nconn": case.get("nconn", 2), "ops": ops, "nop": case.get("nop", False)}])
