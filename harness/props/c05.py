"""C05 — fetch calls hand out every result row once, in order, at full width.

Correspondence: every op sequence is run on a real FakeSnowflakeCursor and on `Fs.Fetch.run`/`srun`
(through the driver); width/name shapes are run on real SELECTs and on `tupleColumnwise`/`dictRow`.
The theorems of Fs/Props/C05.lean then cover all sequences / all row counts / all name lists.
"""
from __future__ import annotations

import itertools
import random

from lib import common
from lib.common import enc_list, enc_str, dec_list

FETCH = ["o", "m1", "m2", "m3", "m0", "a", "s1", "s2", "s3"]
MAXROWS = 5


def _real_seq(conn, dict_cursor: bool, ops: list[str]) -> list[str]:
    from snowflake.connector.cursor import DictCursor, SnowflakeCursor
    cur = conn.cursor(DictCursor if dict_cursor else SnowflakeCursor)
    out = []

    def enc_row(r):
        if dict_cursor:
            assert len(r) == 1, r
            v = next(iter(r.values()))
        else:
            assert isinstance(r, tuple) and len(r) == 1, r
            v = r[0]
        return 900 if v == "Statement executed successfully." else v

    for op in ops:
        try:
            k = op[0]
            if k == "x":
                cur.execute(f"select x from t where x < {int(op[1:])} order by x")
                out.append("u" if cur.rowcount == int(op[1:]) else f"X:rowcount {cur.rowcount} after a result of {int(op[1:])} rows")
            elif k == "y":
                # statements answering with one status row: a nop_regexes match (900) / an INSERT of one row (1) /
                # a DELETE affecting no row (0); rowcount must agree with the count the status row carries
                cur.execute({"y900": "call some_proc(1)", "y1": "insert into t2 values (5)", "y0": "delete from t2 where x = -1"}[op])
                want = {"y900": 1, "y1": 1, "y0": 0}[op]
                out.append("u" if cur.rowcount == want else f"X:rowcount {cur.rowcount} after a statement whose status row says {want}")
            elif k in "fg":
                # an execute (f) / describe (g) that raises: the cursor is left without a result set
                import snowflake.connector.errors as sfe
                try:
                    (cur.execute if k == "f" else cur.describe)("select * from no_such_table_c05")
                    out.append("X:no error for a missing table")
                except sfe.ProgrammingError:
                    out.append("u")
            elif k == "e":
                # executemany of n one-row INSERTs: the cursor holds the LAST statement's status row; rowcount agrees with it
                n = int(op[1:])
                cur.executemany("insert into t2 values (%s)", [(50 + i,) for i in range(n)])
                out.append("u" if cur.rowcount == 1 else f"X:rowcount {cur.rowcount} after executemany whose result is the status row (1,)")
            elif k == "p":
                try:
                    pdf = cur.fetch_pandas_all()
                    out.append("p" + ",".join(str(900 if v == "Statement executed successfully." else int(v)) for (v,) in pdf.itertuples(index=False, name=None)))
                except Exception as e:
                    out.append("E" if "No open result set" in str(e) else f"X:{type(e).__name__}:{e}")
            elif k == "o":
                r = cur.fetchone()
                out.append("n" if r is None else f"r{enc_row(r)}")
            elif k == "m":
                n = int(op[1:])
                rs = cur.fetchmany() if n == 0 else cur.fetchmany(n)
                assert isinstance(rs, list)
                out.append("l" + ",".join(str(enc_row(r)) for r in rs))
            elif k == "a":
                rs = cur.fetchall()
                assert isinstance(rs, list)
                out.append("l" + ",".join(str(enc_row(r)) for r in rs))
            elif k == "s":
                cur.arraysize = int(op[1:])
                out.append("u")
        except TypeError as e:
            out.append("E" if "No open result set" in str(e) else f"X:{type(e).__name__}:{e}")
        except Exception as e:  # anything else is an observable difference
            out.append(f"X:{type(e).__name__}:{e}")
    return out


def _worker(shard):
    import fakesnow
    import snowflake.connector
    res = []
    with fakesnow.patch(nop_regexes=["^CALL "]):
        conn = snowflake.connector.connect(database="db1", schema="s1")
        c = conn.cursor()
        c.execute("create table t (x int)")
        c.execute("create table t2 (x int)")
        c.execute("insert into t values " + ",".join(f"({i})" for i in range(MAXROWS + 1)))
        for kind, payload in shard:
            try:
                if kind == "seq":
                    dict_cursor, ops = payload
                    res.append(_real_seq(conn, dict_cursor, ops))
                elif kind == "reexec":
                    res.append(_real_reexec(conn, payload))
                elif kind == "pandas":
                    res.append(_real_pandas(conn, payload))
                elif kind == "multi":
                    res.append(_real_multi(conn, payload))
                else:
                    res.append(_real_shape(conn, payload))
            except Exception as e:  # an exception where the property promises a value is an observation, not a crash
                res.append({"exception": f"{type(e).__name__}: {e}"})
    return res


NAME_POOL = [("a", "A"), ("A", "A"), ('"a"', "a"), ("b", "B"), ('"b c"', "b c"), ('"A"', "A")]


def _real_shape(conn, payload):
    """payload = (names as written, nrows); returns observed tuple rows, dict rows, description names,
    rowcount and fetch_pandas_all values"""
    from snowflake.connector.cursor import DictCursor
    written, nrows = payload[0], payload[1]
    cols = ", ".join(f"x * 10 + {i} as {w}" for i, w in enumerate(written))
    sql = f"select {cols} from t where x < {nrows} order by x"
    cur = conn.cursor()
    cur.execute(sql)
    tuples = cur.fetchall()
    desc = [d.name for d in cur.description]
    rowcount = cur.rowcount
    cur.execute(sql)
    pdf = cur.fetch_pandas_all()
    pandas_rows = [[int(v) for v in row] for row in pdf.itertuples(index=False, name=None)]
    pandas_cols = [str(c) for c in pdf.columns]
    dcur = conn.cursor(DictCursor)
    dcur.execute(sql)
    dicts = [list(d.items()) for d in dcur.fetchall()]
    return {"tuples": [list(t) for t in tuples], "tuple_types": sorted({type(t).__name__ for t in tuples}),
            "desc": desc, "rowcount": rowcount, "pandas_rows": pandas_rows, "pandas_cols": pandas_cols, "dicts": dicts}


def _cases(chk) -> list:
    rnd = random.Random(chk.seed)
    seqs = []
    maxlen = 3 if chk.tier == "quick" else 4
    # exhaustive: x<n> followed by every fetch/arraysize sequence up to maxlen; and the same without execute
    for n in range(MAXROWS + 1):
        for L in range(0, maxlen + 1):
            for t in itertools.product(FETCH, repeat=L):
                seqs.append([f"x{n}", *t])
    for L in range(1, 3):
        for t in itertools.product(FETCH, repeat=L):
            seqs.append(list(t))
    chk.extra["exhaustive_part"] = f"all sequences x<n>·{{{','.join(FETCH)}}}^≤{maxlen} for n=0..{MAXROWS}: {len(seqs)}"
    # random long sequences with re-executes in the middle
    nrand = 1500 if chk.tier == "quick" else 40000
    alphabet = FETCH + ["m4", "m5", "m7", "s4", "s5", "y900", "y1", "y0", "f", "g", "e1", "e2", "e3", "p", "p"] + [f"x{n}" for n in range(MAXROWS + 1)]
    # fetch_pandas_all at every point of short fetch sequences
    for n in (0, 3):
        for L in range(0, 3):
            for t in itertools.product(FETCH, repeat=L):
                seqs.append([f"x{n}", *t, "p", "o", "a", "p"])
    # a failing execute / describe, or an executemany, between a result and further fetches
    for n in (0, 3):
        for mid in ("f", "g", "e1", "e3"):
            for t in itertools.product(FETCH, repeat=1):
                for t2 in (["o"], ["a"], ["m2", "o"], [f"x{n}", "a"]):
                    seqs.append([f"x{n}", *t, mid, *t2])
    # every fetch/arraysize pair between a result and a following one-row status statement (nop match / INSERT)
    for n in (0, 2, 5):
        for y in ("y900", "y1", "y0"):
            for L in range(0, 3):
                for t in itertools.product(FETCH, repeat=L):
                    for t2 in (["o", "o"], ["a", "o"], ["m2", "a"]):
                        seqs.append([f"x{n}", *t, y, *t2])
    for _ in range(nrand):
        L = rnd.randint(5, 30)
        seqs.append([rnd.choice(alphabet) for _ in range(L)])
    cases = [("seq", (False, s)) for s in seqs]
    # dict cursor: a sample of the same sequences
    dsample = rnd.sample(seqs, min(len(seqs), 1500 if chk.tier == "quick" else 20000))
    cases += [("seq", (True, s)) for s in dsample]
    # shapes: all name lists of length 1..3 over the pool x row counts 0..3
    for L in (1, 2, 3):
        for names in itertools.product(range(len(NAME_POOL)), repeat=L):
            for nrows in (0, 1, 3):
                cases.append(("shape", ([NAME_POOL[i][0] for i in names], nrows, [NAME_POOL[i][1] for i in names])))
    for sql in PANDAS_SQL:
        cases.append(("pandas", sql))
    for dict_cursor in (False, True):
        for script in MULTI_SCRIPTS:
            cases.append(("multi", (dict_cursor, script)))
    # re-executing the same SQL text after the result shape was changed through another cursor
    for ddl in REEXEC_DDL:
        for dict_cursor in (False, True):
            for fetch_first in (False, True):
                cases.append(("reexec", (ddl, dict_cursor, fetch_first)))
    return cases


# execute_string: one cursor per statement, each holding its own statement's result
MULTI_SCRIPTS = [
    [("select x from t where x < 2 order by x", [0, 1]), ("select x from t where x < 4 order by x", [0, 1, 2, 3]), ("delete from t2 where x = -1", [0])],
    [("select x from t where x < 3 order by x", [0, 1, 2]), ("select x from t where x < 0", [])],
    [("insert into t2 values (77)", [1]), ("select x from t where x < 1", [0]), ("select x from t where x < 5 order by x", [0, 1, 2, 3, 4])],
]


def _real_multi(conn, payload):
    from snowflake.connector.cursor import DictCursor, SnowflakeCursor
    dict_cursor, script = payload
    curs = list(conn.execute_string("; ".join(sql for sql, _ in script), cursor_class=DictCursor if dict_cursor else SnowflakeCursor))
    got = []
    rowcounts = [c.rowcount for c in curs]          # read every rowcount before fetching anything
    for c in curs:
        rows = c.fetchall()
        got.append([next(iter(r.values())) if dict_cursor else r[0] for r in rows])
    again = [c.fetchall() for c in curs]
    return {"rows": got, "rowcounts": rowcounts, "again": again, "distinct": len({id(c) for c in curs})}


def _check_multi(chk, payload, real):
    dict_cursor, script = payload
    case = {"kind": "multi", "dict_cursor": dict_cursor, "script": [s for s, _ in script]}
    chk.case(("multi", dict_cursor, tuple(s for s, _ in script)))
    chk.count("multi")
    want = [rows for _, rows in script]
    want_rc = [rows[0] if sql.startswith(("insert", "delete")) else len(rows) for sql, rows in script]
    bad = None
    if "exception" in real:
        bad = f"raised {real['exception']}"
    elif real["rows"] != want:
        bad = f"the returned cursors hand out {real['rows']}, each statement's own result is {want}"
    elif real["rowcounts"] != want_rc:
        bad = f"rowcounts {real['rowcounts']} ≠ {want_rc}"
    elif any(real["again"]):
        bad = f"a drained cursor handed out rows again: {real['again']}"
    elif real["distinct"] != len(script):
        bad = f"{real['distinct']} distinct cursors for {len(script)} statements"
    if bad:
        chk.violation(f"execute_string({'; '.join(case['script'])!r}): {bad}", case,
                      broken="C05_prefix per cursor (each cursor holds its own statement's result)")


# value-typed results: fetch_pandas_all must agree with the rows fetchall hands out, for every value type
PANDAS_SQL = [
    "select 1 as i, 2.5::double as d, 'x' as s, true as b, 3.25::number(10,2) as n, null as z",
    "select '2024-02-29'::date as d, '2024-02-29 10:11:12.123456'::timestamp as t, '10:11:12'::time as tm",
    "select '9999-12-31 23:59:59'::timestamp as far, '1500-01-01'::timestamp as old, '1969-12-31 23:59:59.999999'::timestamp as pre",
    "select '9999-12-31'::date as fard, '0001-01-01'::date as firstd",
    "select x, case when x = 1 then null else '9999-12-31'::timestamp end as t from t where x < 3 order by x",
    "select x, x::varchar as s, (x * 1.5)::double as d from t where x < 0",
    "select parse_json('{\"a\": 1}') as v, 'aé😀' as u",
    "select x, '2024-01-02 03:04:05.123456 +0000'::timestamp_tz as tz, case when x = 2 then null else '2020-05-06 07:08:09 +0000'::timestamp_tz end as tzn, "
    "'2024-01-02 03:04:05'::timestamp as nt, x::double as d, (x = 1) as b from t where x < 4 order by x",
]


def _cell(v):
    import datetime
    import math
    try:
        import pandas as pd
        if v is pd.NaT:
            return None
    except Exception:
        pass
    if v is None:
        return None
    if isinstance(v, float) and math.isnan(v):
        return None
    if hasattr(v, "to_pydatetime"):
        v = v.to_pydatetime()
    if hasattr(v, "item") and not isinstance(v, (str, bytes)):
        try:
            v = v.item()
        except Exception:
            pass
    if isinstance(v, datetime.datetime):
        return ("dt", v.replace(tzinfo=None).isoformat())
    if isinstance(v, (datetime.date, datetime.time)):
        return ("d", v.isoformat())
    if isinstance(v, (int, float)) and not isinstance(v, bool):
        return ("n", float(v))
    try:
        from decimal import Decimal
        if isinstance(v, Decimal):
            return ("n", float(v))
    except Exception:
        pass
    return ("o", str(v))


def _real_pandas(conn, sql):
    from snowflake.connector.cursor import DictCursor
    cur = conn.cursor()
    cur.execute(sql)
    raw = cur.fetchall()
    rows = [[_cell(v) for v in r] for r in raw]
    rowcount = cur.rowcount
    # the same rows through other fetch shapes and through a DictCursor must be the SAME Python values (repr-exact:
    # tzinfo, Decimal scale, int vs float)
    exact = [[repr(v) for v in r] for r in raw]
    shapes = {}
    cur.execute(sql)
    got = []
    while (r := cur.fetchone()) is not None:
        got.append([repr(v) for v in r])
    shapes["fetchone-loop"] = got
    cur.execute(sql)
    got = []
    while (rs := cur.fetchmany(2)):
        got += [[repr(v) for v in r] for r in rs]
    shapes["fetchmany(2)-loop"] = got
    dcur = conn.cursor(DictCursor)
    dcur.execute(sql)
    shapes["DictCursor.fetchall"] = [[repr(v) for v in d.values()] for d in dcur.fetchall()]
    shape_diff = next((f"{name} hands out {g} but fetchall handed out {exact}" for name, g in shapes.items() if g != exact), None)
    cur.execute(sql)
    pdf = cur.fetch_pandas_all()
    prow = [[_cell(v) for v in r] for r in pdf.itertuples(index=False, name=None)]
    return {"rows": rows, "pandas": prow, "rowcount": rowcount, "cols": [str(c) for c in pdf.columns], "desc": [d.name for d in cur.description],
            "shape_diff": shape_diff}


def _check_pandas(chk, sql, real):
    case = {"kind": "pandas", "sql": sql}
    chk.case(("pandas", sql))
    chk.count("pandas")
    bad = None
    if "exception" in real:
        bad = f"raised {real['exception']}"
    elif real.get("shape_diff"):
        bad = real["shape_diff"]
    elif real["pandas"] != real["rows"]:
        bad = f"fetch_pandas_all gives {real['pandas']} but the rows handed out by fetchall are {real['rows']}"
    elif real["rowcount"] != len(real["rows"]):
        bad = f"rowcount {real['rowcount']} ≠ {len(real['rows'])} rows"
    elif real["cols"] != real["desc"]:
        bad = f"data frame columns {real['cols']} ≠ description names {real['desc']}"
    if bad:
        chk.violation(f"`{sql}`: {bad}", case, broken="C05 (fetch_pandas_all and rowcount agree with the rows)")


REEXEC_DDL = {
    "add-column": ("alter table tv add column c int", ["A", "B", "C"], [1, 2, None]),
    "drop-column": ("alter table tv drop column b", ["A"], [1]),
    "rename-column": ('alter table tv rename column b to "b b"', ["A", "b b"], [1, 2]),
    "replace-table": ("create or replace table tv (z int, y int, x int)", ["Z", "Y", "X"], None),
}


def _real_reexec(conn, payload):
    from snowflake.connector.cursor import DictCursor, SnowflakeCursor
    ddl, dict_cursor, fetch_first = payload
    other = conn.cursor()
    other.execute("create or replace table tv (a int, b int)")
    other.execute("insert into tv values (1, 2)")
    cur = conn.cursor(DictCursor if dict_cursor else SnowflakeCursor)
    cur.execute("select * from tv")
    first_desc = [d.name for d in cur.description]
    if fetch_first:
        cur.fetchall()
    other.execute(REEXEC_DDL[ddl][0])
    cur.execute("select * from tv")
    desc = [d.name for d in cur.description]
    rows = cur.fetchall()
    if dict_cursor:
        keys = [list(r.keys()) for r in rows]
        vals = [list(r.values()) for r in rows]
    else:
        keys, vals = None, [list(r) for r in rows]
    return {"first_desc": first_desc, "desc": desc, "keys": keys, "vals": vals}


def _check_reexec(chk, payload, real):
    ddl, dict_cursor, fetch_first = payload
    case = {"kind": "reexec", "ddl": ddl, "dict_cursor": dict_cursor, "fetch_first": fetch_first}
    chk.case(("reexec", ddl, dict_cursor, fetch_first))
    chk.count("reexec:" + ddl)
    _, names, vals = REEXEC_DDL[ddl]
    bad = None
    if "exception" in real:
        bad = f"raised {real['exception']}"
    elif real["first_desc"] != ["A", "B"]:
        bad = f"description of the first result is {real['first_desc']}"
    elif real["desc"] != names:
        bad = f"description after re-executing the same SQL names {real['desc']}, the new result has columns {names}"
    elif vals is not None and real["vals"] != [vals]:
        bad = f"rows after re-execute are {real['vals']}, expected {[vals]}"
    elif dict_cursor and vals is not None and real["keys"] != [names]:
        bad = f"DictCursor keys {real['keys']} ≠ description names {names}"
    if bad:
        chk.violation(f"`select * from tv`, then `{REEXEC_DDL[ddl][0]}` on another cursor, then the same select again: {bad}", case,
                      broken="C05_replace / C05_dict_keys (a new execute replaces the old result set completely)")


def _check_seq(chk, payload, real, reply):
    dict_cursor, ops = payload
    case = {"kind": "seq", "dict_cursor": dict_cursor, "ops": ops}
    if isinstance(real, dict) and "exception" in real:
        chk.violation(f"fetch sequence {ops} raised {real['exception']}", case, broken="C05 correspondence (harness-level exception)")
        return
    spec, impl = dec_list(reply.get("spec", "")), dec_list(reply.get("impl", ""))
    fetches_after_exec = any(o[0] in "oma" for o in ops[1:]) and any(o[0] == "x" and o != "x0" for o in ops)
    chk.case((dict_cursor, tuple(ops)), nontrivial=fetches_after_exec)
    for o in ops:
        chk.count("op:" + (o[0] if o[0] != "m" else ("m0" if o == "m0" else "mk")))
    if real == spec:
        if impl != spec:
            chk.violation(f"model inconsistency (C05_refines says impl=spec): impl={impl} spec={spec}", case, broken="C05_refines", failing_input=False)
        return
    i = next(j for j in range(len(ops)) if j >= len(real) or j >= len(spec) or real[j] != spec[j])
    chk.violation(f"fetch sequence {ops} ({'DictCursor' if dict_cursor else 'tuple cursor'}): op #{i} `{ops[i]}` returned {real[i]!r} "
                  f"but rows-once-in-order requires {spec[i]!r}; real={real} required={spec}",
                  case, broken="C05_prefix/C05_fetchall_complete/C05_exhausted (correspondence with Fs.Fetch.run)")


def _check_shape(chk, payload, real, reply):
    written, nrows, norm = payload
    case = {"kind": "shape", "written": written, "nrows": nrows, "norm": norm}
    width = len(written)
    distinct = len(set(norm)) == len(norm)
    if "exception" in real:
        chk.case(("shape", tuple(written), nrows))
        chk.violation(f"`select {', '.join('.. as ' + w for w in written)}` over {nrows} rows, then description/rowcount/fetch_pandas_all/"
                      f"DictCursor fetch: raised {real['exception']}", case, broken="C05 (fetch_pandas_all / rowcount agree with the rows)")
        return
    chk.case(("shape", tuple(written), nrows), nontrivial=nrows > 0 and width > 1)
    chk.count("shape:" + ("distinct" if distinct else "repeated") + f":w{width}")
    tidx = [int(x) for x in reply["tuple"].split(",")]
    want_rows = [[x * 10 + i for i in tidx] for x in range(nrows)]
    bad = None
    if real["desc"] != norm:
        bad = f"description names {real['desc']} ≠ expected {norm}"
    elif real["tuples"] != want_rows:
        bad = f"tuple rows {real['tuples']} ≠ one element per result column {want_rows}"
    elif real["tuple_types"] not in ([], ["tuple"]):
        bad = f"rows are {real['tuple_types']}, not tuples"
    elif real["rowcount"] != nrows:
        bad = f"rowcount {real['rowcount']} ≠ {nrows} rows"
    elif real["pandas_rows"] != want_rows:
        bad = f"fetch_pandas_all rows {real['pandas_rows']} ≠ {want_rows}"
    elif not distinct:
        # names repeat: a dict cannot carry every column, but every name that occurs ONCE must map to its own column's
        # value, and the keys must be exactly the description names
        once = [(i, k) for i, k in enumerate(norm) if norm.count(k) == 1]
        for x, d in enumerate(real["dicts"]):
            dd = dict((k, v) for k, v in d)
            if set(dd) != set(norm):
                bad = f"DictCursor row keys {sorted(dd)} ≠ description names {sorted(set(norm))}"
                break
            wrong = [(k, dd[k], x * 10 + i) for i, k in once if dd[k] != x * 10 + i]
            if wrong:
                bad = f"DictCursor row {dict(dd)}: column {wrong[0][0]!r} holds {wrong[0][1]}, its own value is {wrong[0][2]}"
                break
    elif distinct:
        want_d = [[[k, x * 10 + i] for i, k in enumerate(norm)] for x in range(nrows)]
        got_d = [[list(p) for p in d] for d in real["dicts"]]
        if got_d != want_d:
            bad = f"DictCursor rows {got_d} ≠ values keyed by description names {want_d}"
        if reply.get("distinct") != "1":
            chk.violation("model inconsistency: namesDistinct", case, broken="C05_dict_keys", failing_input=False)
    if bad:
        chk.violation(f"`select {', '.join('.. as ' + w for w in written)}` over {nrows} rows: {bad}", case,
                      broken="C05_width/C05_dict_keys (correspondence with tupleColumnwise/dictRow)")


def _lines(cases):
    lines = []
    for kind, payload in cases:
        if kind == "seq":
            lines.append("fetch\trun\t" + enc_list(["f" if o == "g" else ("y1" if o[0] == "e" else o) for o in payload[1]]))
        elif kind == "reexec":
            lines.append("fetch\trow\t" + enc_list([enc_str(n) for n in REEXEC_DDL[payload[0]][1]]))
        elif kind in ("pandas", "multi"):
            lines.append("fetch\trow\t" + enc_list([enc_str("X")]))
        else:
            lines.append("fetch\trow\t" + enc_list([enc_str(n) for n in payload[2]]))
    return lines


def run(chk) -> None:
    cases = _cases(chk)
    chk.rule = ("exhaustive op sequences over {fetchone, fetchmany(1..3), fetchmany(), fetchall, arraysize:=1..3} after a result of 0..5 rows "
                "and with no result; random sequences of length 5-30 with re-executes; tuple and dict cursors; all column-name lists "
                "(repeated/quoted/case variants) of width 1-3 x 0/1/3 rows.  non-trivial = distinct sequence with a fetch after a non-empty "
                "result, or a shape of width>1 with rows")
    shards = common.chunks(cases, 16)
    reals = common.shard_map(_worker, shards)
    replies = [common.batch(_lines(s)) for s in shards]
    for shard, rs, ms in zip(shards, reals, replies):
        for (kind, payload), real, reply in zip(shard, rs, ms):
            if kind == "reexec":
                _check_reexec(chk, payload, real)
            elif kind == "pandas":
                _check_pandas(chk, payload, real)
            elif kind == "multi":
                _check_multi(chk, payload, real)
            else:
                (_check_seq if kind == "seq" else _check_shape)(chk, payload, real, reply)
    chk.samples = [{"ops": s[1][1], "dict": s[1][0]} for s in cases if s[0] == "seq"][200:204] + \
                  [{"shape": s[1][0], "rows": s[1][1]} for s in cases if s[0] == "shape"][40:42]
    chk.exhaustive = True
    chk.assumptions = ["pyarrow.Table.slice clamps offset/length (modelled by List.drop/take)",
                       "row identity: rows of `select x from t where x < n order by x` are 0..n-1"]


def replay(chk, case) -> None:
    import fakesnow  # noqa: F401
    if case["kind"] == "seq":
        payload = (case["dict_cursor"], case["ops"])
        real = _worker([("seq", payload)])[0]
        reply = common.batch(_lines([("seq", payload)]))[0]
        _check_seq(chk, payload, real, reply)
    elif case["kind"] == "pandas":
        _check_pandas(chk, case["sql"], _worker([("pandas", case["sql"])])[0])
    elif case["kind"] == "multi":
        payload = (case["dict_cursor"], next(sc for sc in MULTI_SCRIPTS if [s for s, _ in sc] == case["script"]))
        _check_multi(chk, payload, _worker([("multi", payload)])[0])
    elif case["kind"] == "reexec":
        payload = (case["ddl"], case["dict_cursor"], case["fetch_first"])
        _check_reexec(chk, payload, _worker([("reexec", payload)])[0])
    else:
        payload = (case["written"], case["nrows"], case["norm"])
        real = _worker([("shape", payload)])[0]
        reply = common.batch(_lines([("shape", payload)]))[0]
        _check_shape(chk, payload, real, reply)
