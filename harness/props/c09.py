"""C09 — metadata views always describe exactly the current user objects.

Correspondence: generated DDL histories (CREATE [OR REPLACE] TABLE with/without comment, CTAS, CLONE, CREATE [OR REPLACE]
VIEW, ALTER TABLE add/drop/rename column, rename table, COMMENT ON / SET COMMENT, DROP TABLE/VIEW, re-CREATE) over
2 databases x 2 schemas x 5 object names x 6 column names.  After EVERY statement the touched schema is read back through
every surface — information_schema.tables (name, type, comment), SHOW TABLES / SHOW OBJECTS IN SCHEMA, information_schema.views,
and per live object DESCRIBE TABLE|VIEW, information_schema.columns (type, length, octet length, precision, scale, position) and
the description of SELECT * — and at the end of the history every schema, SHOW … IN DATABASE and account scope.  The same
history is run by `Fs.Meta.step`; the driver returns, per live object, what the property demands (declared types, lengths,
comment) and what the code model predicts (side-table lookups).

Verdict per object: real = spec -> held; real != spec, real = code model and the object was produced by a statement in a
finding region of the Lean classifier `region` -> KNOWN-FINDING; anything else -> VIOLATION.  Success/failure of every
statement and the list of live objects must always equal the model's.
"""
from __future__ import annotations

import random

from lib import common
from lib.common import enc_list, dec_list

DBS = {11: "DB1", 12: "DB2"}
SCHEMAS = {21: "S1", 22: "S2", 23: "sq"}
OBJS = {31: "T1", 32: "T2", 33: "T3", 34: "T4", 35: "T5", 38: "tq", 40: "XFS_T"}   # XFS_T / NFS_K: user names that look like the internal `_fs_` prefix
PKOBJS = {36: "T6", 37: "T7", 39: "NFS_K"}   # tables declared with a PRIMARY KEY live under their own names: only CREATE [OR REPLACE], DROP, COMMENT, ADD COLUMN touch them
COLS = {41: "A", 42: "B", 43: "C", 44: "D", 45: "E", 46: "F", 47: "cq"}
QUOTED = {23, 38, 47}   # lower-case names: created and referenced in double quotes only, reported exactly as written
COMMENT_TEXT = {**{i: f"c{i}" for i in range(1, 10)}, 10: "", 11: "  "}   # incl. the empty and a whitespace-only comment
COMMENT_ID = {v: k for k, v in COMMENT_TEXT.items()}
NAME = {**DBS, **SCHEMAS, **OBJS, **PKOBJS, **COLS}
ID = {v: k for k, v in NAME.items()}
DEFAULT_LEN = 16777216


def Q(i: int) -> str:
    """the identifier as it is written in SQL"""
    return '"' + NAME[i] + '"' if i in QUOTED else NAME[i]


def pick_comment(rnd) -> int:
    return rnd.choice([10, 11]) if rnd.random() < 0.2 else rnd.randint(1, 9)
KEY_ACCOUNT = "C09/account-scope-lists-internal-objects"
KEY_INFO_TABLES = "C09/information-schema-tables-lists-internal-and-other-databases"
KEY_CROSS_DB = "C09/describe-other-database-loses-lengths"
KEY_XDB_COMMENT = "C09/information-schema-tables-other-database-loses-comments"
KEY_STALE_NONTEXT = "C09/stale-length-shown-for-non-text-column"
KEY_INE = "C09/create-if-not-exists-overwrites-metadata"
KEY_PK_SCOPE = "C09/show-primary-keys-account-database-scope-unsupported"
KEY_PK_TABLE = "C09/show-primary-keys-in-table-ignores-schema"
KEY_PK_BARE = "C09/show-primary-keys-bare-scope-empty"

TYPES = ["i", "i", "n10.2", "n5.0", "n9.0", "n7.0", "n20.10", "n38.12", "n30.15", "f", "b", "d", "z", "t10", "t3", "t255", "t100", f"t{DEFAULT_LEN}", f"t{DEFAULT_LEN}"]


def ty_sql(rnd, t: str) -> str:
    if t == "i":
        return rnd.choice(["int", "integer", "bigint"])
    if t[0] == "n":
        p, s = t[1:].split(".")
        if s == "0":   # precision only: NUMBER(p) = DECIMAL(p) = NUMERIC(p) = NUMBER(p,0)
            return rnd.choice([f"number({p},0)", f"number({p})", f"decimal({p})", f"numeric({p})"])
        return f"number({p},{s})"
    if t[0] == "t":
        n = int(t[1:])
        return f"varchar({n})" if n != DEFAULT_LEN else rnd.choice(["varchar", "string", "text"])
    return {"f": "float", "b": "boolean", "d": "date", "z": "timestamp_ntz"}[t]


def cast_sql(rnd, t: str) -> str:
    if t == "i":
        return rnd.choice(["1::int", "cast(1 as integer)", "2::bigint"])
    if t[0] == "n":
        p, s = t[1:].split(".")
        if s == "0":
            return rnd.choice([f"1::number({p},0)", f"1::number({p})", f"cast(1 as decimal({p}))", f"1::numeric({p})"])
        return f"1::number({p},{s})"
    if t[0] == "t":
        n = int(t[1:])
        return (f"'ab'::varchar({n})" if rnd.random() < 0.7 else f"cast('ab' as varchar({n}))") if n != DEFAULT_LEN else rnd.choice(["'ab'::varchar", "'ab'::string", "cast('ab' as text)"])
    return {"f": "1.5::float", "b": "true", "d": "'2020-01-01'::date", "z": "'2020-01-01 00:00:00'::timestamp_ntz"}[t]


def ctas_casts(rnd, cols) -> str:
    """the query of a CTAS whose columns are sized casts: plain, parenthesised, or a set operation of such selects
    (extract_text_length records the lengths of the casts; a CTE-wrapped query would hide them: C09/length-lost-on-ctas)"""
    first = "select " + ", ".join(f"{cast_sql(rnd, t)} as {Q(c)}" for c, t in cols)
    other = "select " + ", ".join(f"{cast_sql(rnd, t)}" + (f" as {Q(c)}" if rnd.random() < 0.5 else "") for c, t in cols)
    form = rnd.choice(["plain", "paren", "union all", "union", "intersect", "except", "union all"])
    if form == "plain":
        return first
    if form == "paren":
        return f"({first})"
    return f"{first} {form} {other}"


def key_str(k) -> str:
    return ".".join(str(x) for x in k)


def fq(rnd, k, home=21) -> str:
    """render a key; the issuing connection is in database k[0], schema S1"""
    d, s, n = (Q(x) for x in k)
    r = rnd.random()
    if k[1] == home and r < 0.4:
        return n
    if r < 0.7:
        return f"{s}.{n}"
    return f"{d}.{s}.{n}"


class Gen:
    def __init__(self, rnd):
        self.rnd = rnd
        self.shadow: dict = {}   # key -> (is_view, [col ids])  — rough, only to bias choices
        self.home = {d: 21 for d in DBS}   # current schema of the connection of each database (changed by USE SCHEMA steps)
        self.sized: dict = {}              # key -> sequence number, tables created with a sized VARCHAR
        self.pk: dict = {}                 # live tables with a PRIMARY KEY: key -> [col ids]
        self.commented: dict = {}          # key -> sequence number of its latest COMMENT (observed again after every no-op'd statement)

    def fq(self, k):
        return fq(self.rnd, k, self.home[k[0]])

    def noise_touch(self, d):
        recent = sorted(self.commented, key=lambda k: self.commented[k])[-3:]   # the three most recently commented keys
        recent += sorted(self.sized, key=lambda k: self.sized[k])[-2:]          # and the two most recent tables with sized VARCHARs
        return sorted(set(recent) | {(k[0], self.home[k[0]], k[2]) for k in recent} | {(d, self.home[d], k[2]) for k in recent})

    def pick_key(self, live=None, view=None):
        r = self.rnd
        cands = [k for k, (v, _) in self.shadow.items() if view is None or v == view]
        if live is True and cands and r.random() < 0.9:
            return r.choice(sorted(cands))
        if live is False:
            for _ in range(5):
                k = (r.choice(list(DBS)), r.choice(list(SCHEMAS)), r.choice(list(OBJS)))
                if k not in self.shadow:
                    return k
        if cands and r.random() < 0.5:
            return r.choice(sorted(cands))
        return (r.choice([11, 11, 12]), r.choice([21, 21, 22]), r.choice(list(OBJS)))

    def new_cols(self, n):
        r = self.rnd
        names = r.sample(list(COLS), n)
        return [(c, r.choice(TYPES)) for c in names]

    def op(self, force=None) -> dict:
        r = self.rnd
        kind = force or r.choices(["ct", "cs", "cl", "cv", "ac", "dc", "rc", "rt", "sc", "dt", "dv", "nop", "use", "pk"], [18, 7, 6, 7, 9, 6, 8, 7, 12, 12, 4, 14, 4, 7])[0]
        if kind == "pk":     # tables with a PRIMARY KEY (own name pool)
            sub = r.choices(["create", "drop", "comment", "add"], [6, 2, 2, 2])[0] if self.pk else "create"
            if sub == "create":
                k = (r.choice([11, 11, 12]), r.choice(list(SCHEMAS)), r.choice(list(PKOBJS)))
                cols = self.new_cols(r.randint(1, 3))
                pkc = cols[0][0]
                rep_ = k in self.pk or r.random() < 0.2
                comment = pick_comment(r) if r.random() < 0.3 else None
                coldefs = [f"{Q(c)} {ty_sql(r, t)}" + (" primary key" if c == pkc else "") for c, t in cols]
                r.shuffle(coldefs) if False else None
                sql = f"create {'or replace ' if rep_ else ''}table {self.fq(k)} ({', '.join(coldefs)})" + (f" comment = '{COMMENT_TEXT[comment]}'" if comment else "")
                self.pk[k] = [c for c, _ in cols]
                if comment:
                    self.commented[k] = len(self.commented) + max(self.commented.values(), default=0) + 1
                return {"op": f"ct,{key_str(k)},{'/'.join(f'{c}:{t}' for c, t in cols)},{comment or '-'},{int(rep_)},{pkc}", "sql": sql, "db": k[0], "touch": [k]}
            k = r.choice(sorted(self.pk))
            if sub == "drop":
                self.pk.pop(k)
                return {"op": f"dt,{key_str(k)}", "sql": f"drop table {self.fq(k)}", "db": k[0], "touch": [k]}
            if sub == "comment":
                c = pick_comment(r)
                self.commented[k] = len(self.commented) + max(self.commented.values(), default=0) + 1
                return {"op": f"sc,{key_str(k)},{c}", "sql": f"comment on table {self.fq(k)} is '{COMMENT_TEXT[c]}'", "db": k[0], "touch": [k]}
            c, t = r.choice(list(COLS)), r.choice(TYPES)
            if c not in self.pk[k]:
                self.pk[k].append(c)
            return {"op": f"ac,{key_str(k)},{c}:{t}", "sql": f"alter table {self.fq(k)} add column {Q(c)} {ty_sql(r, t)}", "db": k[0], "touch": [k]}
        if kind == "use":    # USE SCHEMA: later one-part names of that connection refer to the new schema; no metadata effect
            d = r.choice(list(DBS))
            sc = r.choice(list(SCHEMAS))
            self.home[d] = sc
            return {"op": "nop", "sql": f"use schema {Q(sc) if r.random() < 0.5 else NAME[d] + '.' + Q(sc)}", "db": d, "touch": self.noise_touch(d)}
        if kind == "nop":    # statements fakesnow turns into its success no-op
            d = r.choice(list(DBS))
            live = [k for k, (v, _) in self.shadow.items() if not v and k[0] == d]
            t = self.fq(r.choice(sorted(live))) if live and r.random() < 0.8 else r.choice(list(OBJS.values()))
            self.nvar = getattr(self, "nvar", 0) + 1
            if r.random() < 0.25:   # the bootstrap of a database's side tables re-runs: nothing recorded may be lost
                D = NAME[r.choice(list(DBS))]
                if r.random() < 0.6:
                    return {"op": "nop", "sql": f"create database if not exists {D}", "db": d, "touch": self.noise_touch(d)}
                return {"op": "nop", "sql": f"-- connect(database={D!r}, schema='S1')", "connect": [D, "S1"], "db": d, "touch": self.noise_touch(d)}
            sql = r.choice([f"set v{self.nvar % 3} = {self.nvar}", f"alter table {t} set tag tg{self.nvar % 2} = 'x'", f"alter table {t} modify column A set tag tg1 = 'y'",
                            f"create tag tg{self.nvar}", f"alter table {t} cluster by (A)", f"alter table {t} alter A comment 'col comment'"])
            return {"op": "nop", "sql": sql, "db": d, "touch": self.noise_touch(d)}
        if kind == "ct":
            k = self.pick_key(live=False) if r.random() < 0.75 else self.pick_key()
            cols = self.new_cols(r.randint(1, 4))
            comment = pick_comment(r) if r.random() < 0.45 else None
            rep = r.random() < 0.3
            if comment is None and r.random() < 0.35:
                sql = f"create {'or replace ' if rep else ''}table {self.fq(k)} as " + ctas_casts(r, cols)
            else:
                sql = (f"create {'or replace ' if rep else ''}table {self.fq(k)} (" + ", ".join(f"{Q(c)} {ty_sql(r, t)}" for c, t in cols) + ")"
                       + (f" comment = '{COMMENT_TEXT[comment]}'" if comment else ""))
            if comment:
                self.commented[k] = len(self.commented) + max(self.commented.values(), default=0) + 1
            self.shadow[k] = (False, [c for c, _ in cols])
            if any(t[0] == "t" and t != f"t{DEFAULT_LEN}" for _, t in cols):
                self.sized[k] = len(self.sized) + max(self.sized.values(), default=0) + 1
            return {"op": f"ct,{key_str(k)},{'/'.join(f'{c}:{t}' for c, t in cols)},{comment or '-'},{int(rep)},-", "sql": sql, "db": k[0], "touch": [k]}
        if kind in ("cs", "cl", "cv"):
            src = self.pick_key(live=True, view=False)
            k = self.pick_key(live=False) if r.random() < 0.8 else self.pick_key()
            k = (src[0], k[1], k[2])   # same database: one connection issues the statement
            rep = r.random() < 0.25
            scols = list(dict.fromkeys(self.shadow.get(src, (False, [41]))[1])) or [41]
            sel = r.sample(scols, r.randint(1, len(scols))) if r.random() < 0.9 else [r.choice(list(COLS))]
            self.shadow[k] = (kind == "cv", list(sel) if kind != "cl" else list(scols))
            if kind == "cl":
                return {"op": f"cl,{key_str(k)},{key_str(src)},{int(rep)}", "sql": f"create {'or replace ' if rep else ''}table {self.fq(k)} clone {self.fq(src)}", "db": k[0], "touch": [k]}
            what = "table" if kind == "cs" else "view"
            return {"op": f"{kind},{key_str(k)},{key_str(src)},{'/'.join(map(str, sel))},{int(rep)}",
                    "sql": f"create {'or replace ' if rep else ''}{what} {self.fq(k)} as select {', '.join(Q(c) for c in sel)} from {self.fq(src)}", "db": k[0], "touch": [k]}
        if kind == "ac":
            k = self.pick_key(live=True, view=False)
            c, t = r.choice(list(COLS)), r.choice(TYPES)
            if k in self.shadow and c not in self.shadow[k][1]:
                self.shadow[k][1].append(c)
            return {"op": f"ac,{key_str(k)},{c}:{t}", "sql": f"alter table {self.fq(k)} add column {Q(c)} {ty_sql(r, t)}", "db": k[0], "touch": [k]}
        if kind == "dc":
            k = self.pick_key(live=True, view=False)
            cols = self.shadow.get(k, (False, []))[1]
            c = r.choice(cols) if cols and r.random() < 0.85 else r.choice(list(COLS))
            if c in cols and len(cols) > 1:
                cols.remove(c)
            return {"op": f"dc,{key_str(k)},{c}", "sql": f"alter table {self.fq(k)} drop column {Q(c)}", "db": k[0], "touch": [k]}
        if kind == "rc":
            k = self.pick_key(live=True, view=False)
            cols = self.shadow.get(k, (False, []))[1]
            a = r.choice(cols) if cols and r.random() < 0.9 else r.choice(list(COLS))
            b = r.choice(list(COLS))
            if a in cols and b not in cols:
                cols[cols.index(a)] = b
            return {"op": f"rc,{key_str(k)},{a},{b}", "sql": f"alter table {self.fq(k)} rename column {Q(a)} to {Q(b)}", "db": k[0], "touch": [k]}
        if kind == "rt":
            k = self.pick_key(live=True, view=False)
            n = r.choice(list(OBJS))
            nk = (k[0], k[1], n)
            if k in self.shadow and nk not in self.shadow:
                self.shadow[nk] = self.shadow.pop(k)
            return {"op": f"rt,{key_str(k)},{n}", "sql": f"alter table {self.fq(k)} rename to {Q(n)}", "db": k[0], "touch": [k, nk]}
        if kind == "sc":
            k = self.pick_key(live=True, view=False) if r.random() < 0.93 else self.pick_key()
            c = pick_comment(r)
            sql = f"comment on table {self.fq(k)} is '{COMMENT_TEXT[c]}'" if r.random() < 0.5 else f"alter table {self.fq(k)} set comment = '{COMMENT_TEXT[c]}'"
            self.commented[k] = len(self.commented) + max(self.commented.values(), default=0) + 1
            return {"op": f"sc,{key_str(k)},{c}", "sql": sql, "db": k[0], "touch": [k]}
        if kind == "dt":
            k = self.pick_key(live=True, view=False)
            self.shadow.pop(k, None)
            return {"op": f"dt,{key_str(k)}", "sql": f"drop table {self.fq(k)}", "db": k[0], "touch": [k]}
        k = self.pick_key(live=True, view=True)
        if self.shadow.get(k, (False,))[0]:
            self.shadow.pop(k, None)
        return {"op": f"dv,{key_str(k)}", "sql": f"drop view {self.fq(k)}", "db": k[0], "touch": [k]}


def gen_history(rnd, length: int) -> list[dict]:
    g = Gen(rnd)
    ops = []
    while len(ops) < 3:   # a few tables to work on
        ops.append(g.op(force="ct"))
    return ops + [g.op() for _ in range(length)]


def corpus() -> list[list[dict]]:
    def S(op, sql, touch, db=11):
        return {"op": op, "sql": sql, "db": db, "touch": [tuple(t) for t in touch]}
    k1, k2, k3 = (11, 21, 31), (11, 21, 32), (11, 22, 31)
    return [
        # stale comment after DROP + re-CREATE; OR REPLACE without comment; same name in another schema is independent
        [S("ct,11.21.31,41:t10/42:i,3,0,-", "create table t1 (a varchar(10), b int) comment = 'c3'", [k1]), S("dt,11.21.31", "drop table t1", [k1]),
         S("ct,11.22.31,41:t4,-,0,-", "create table s2.t1 (a varchar(4))", [k3]),
         S("ct,11.21.31,41:t5,-,0,-", "create table t1 (a varchar(5))", [k1]), S("ct,11.21.31,43:d,5,1,-", "create or replace table t1 (c date) comment = 'c5'", [k1]),
         S("ct,11.21.31,43:d,-,1,-", "create or replace table db1.s1.t1 (c date)", [k1])],
        # lengths lost on rename column / rename table / ctas / clone / view; add column keeps its length
        [S("ct,11.21.31,41:t10/42:n10.2,4,0,-", "create table t1 (a varchar(10), b number(10,2)) comment = 'c4'", [k1]),
         S("ac,11.21.31,45:t7", "alter table t1 add column e varchar(7)", [k1]), S("rc,11.21.31,41,43", "alter table t1 rename column a to c", [k1]),
         S("cs,11.21.32,11.21.31,45/42,0", "create table t2 as select e, b from t1", [k2]), S("cl,11.21.33,11.21.31,0", "create table t3 clone t1", [(11, 21, 33)]),
         S("cv,11.21.34,11.21.31,45,0", "create view t4 as select e from t1", [(11, 21, 34)]), S("rt,11.21.31,35", "alter table t1 rename to t5", [k1, (11, 21, 35)]),
         S("rc,11.21.35,42,46", "alter table t5 rename column b to f", [(11, 21, 35)]), S("dc,11.21.35,46", "alter table t5 drop column f", [(11, 21, 35)])],
        # no-op'd statements and USE SCHEMA between comments: nothing they do may touch the recorded metadata (neither of the table last
        # commented on, nor of its namesake in the schema the connection has moved to); the bootstrap of the side tables re-runs
        [S("ct,11.21.31,41:t10,1,0,-", "create table t1 (a varchar(10)) comment = 'c1'", [k1]), S("ct,11.22.31,41:t4,5,0,-", "create table s2.t1 (a varchar(4)) comment = 'c5'", [k3]),
         S("sc,11.21.31,2", "comment on table t1 is 'c2'", [k1]), S("sc,11.21.31,3", "alter table t1 set comment = 'c3'", [k1]), S("nop", "set v1 = 5", [k1, k3]),
         S("nop", "alter table t1 set tag tg1 = 'x'", [k1, k3]), S("nop", "create tag tg2", [k1, k3]), S("nop", "use schema s2", [k1, k3]), S("nop", "set v2 = 6", [k1, k3]),
         S("nop", "alter table db1.s1.t1 cluster by (a)", [k1, k3]), S("nop", "create database if not exists db1", [k1, k3]), S("sc,11.22.31,10", "comment on table t1 is ''", [k3]),
         S("nop", "alter table t1 alter a comment 'col'", [k1, k3]), S("ct,11.22.31,41:t6,10,1,-", "create or replace table t1 (a varchar(6)) comment = ''", [k3]), S("nop", "unset v1", [k1, k3])],
        # comment on a missing table is recorded and shows up on a later table of that name; other database
        [S("sc,12.21.31,6", "comment on table t1 is 'c6'", [(12, 21, 31)], db=12), S("ct,12.21.31,41:i,-,0,-", "create table t1 (a int)", [(12, 21, 31)], db=12),
         S("sc,12.21.31,7", "alter table db2.s1.t1 set comment = 'c7'", [(12, 21, 31)], db=12), S("dt,12.21.31", "drop table t1", [(12, 21, 31)], db=12)],
    ]


# ----------------------------------------------------------------------------------------------
# real run
# ----------------------------------------------------------------------------------------------

def _ty_describe(s: str) -> str:
    if s.startswith("VARCHAR("):
        return "t" + s[8:-1]
    if s == "NUMBER(38,0)":
        return "i"
    if s.startswith("NUMBER("):
        p, sc = s[7:-1].split(",")
        return f"n{p}.{sc}"
    return {"FLOAT": "f", "BOOLEAN": "b", "DATE": "d", "TIMESTAMP_NTZ(9)": "z"}.get(s, "?" + s)


def _ty_info(dt, maxlen, octet, prec, scale) -> str:
    if dt == "TEXT":
        if maxlen is not None and octet != min(maxlen * 4, DEFAULT_LEN):
            return f"t{maxlen}!octet{octet}"
        return "t" + ("-" if maxlen is None else str(maxlen))
    if dt == "NUMBER":
        return "i" if (prec, scale) == (38, 0) else f"n{prec}.{scale}"
    return {"FLOAT": "f", "BOOLEAN": "b", "DATE": "d", "TIMESTAMP_NTZ": "z"}.get(dt, "?" + str(dt))


DESC_CODE = {2: "t", 0: "N", 1: "f", 13: "b", 3: "d", 8: "z"}


def _desc_col(x) -> str:
    """name : base type of one cursor.description entry; NUMBER columns carry their precision and scale"""
    code = DESC_CODE.get(x.type_code, "?" + str(x.type_code))
    return f"{_nid(x.name)}:{code}" + (f"{x.precision}.{x.scale}" if code == "N" else "")


def _nid(name) -> str:
    return str(ID.get(str(name), "?" + str(name)))


def _observe_schema(conn, d: int, s: int, only=None, probes=None) -> dict:
    """surfaces of one schema, read through the connection whose current database is `d`.
    only=None: every listing and every object; only=[names]: information_schema.tables + those objects"""
    D, S = NAME[d], NAME[s]          # as reported / as string literals
    QS = Q(s)                        # as written in SQL
    out = {"full": only is None}

    def rows(sql):
        cur = conn.cursor()
        cur.execute(sql)
        return cur, cur.fetchall()
    _, r = rows(f"select table_name, table_type, comment from information_schema.tables where table_catalog = '{D}' and table_schema = '{S}' order by table_name")
    out["info_tables"] = sorted(f"{_nid(n)}:{'v' if t == 'VIEW' else 't'}:{'-' if c is None else COMMENT_ID.get(c, '?' + str(c))}" for n, t, c in r)
    if only is None:
        _, r = rows(f"show tables in schema {D}.{QS}")
        out["show_tables"] = sorted(f"{_nid(x[1])}:{'v' if x[2] == 'VIEW' else 't'}" + ("" if (x[3], x[4]) == (D, S) else f"!{x[3]}.{x[4]}") for x in r)
        _, r = rows(f"show objects in schema {D}.{QS}")
        out["show_objects"] = sorted(f"{_nid(x[1])}:{'v' if x[2] == 'VIEW' else 't'}" + ("" if (x[3], x[4]) == (D, S) else f"!{x[3]}.{x[4]}") for x in r)
        _, r = rows(f"select table_name from information_schema.views where table_schema = '{S}'")
        out["info_views"] = sorted(_nid(x[0]) for x in r)
    objs = {}
    for ent in out["info_tables"]:
        nid, kind = ent.split(":")[0], ent.split(":")[1][0]
        if not nid.isdigit() or (only is not None and int(nid) not in only):
            continue
        N = NAME[int(nid)]
        QN = Q(int(nid))
        try:
            _, dr = rows(f"describe {'view' if kind == 'v' else 'table'} {D}.{QS}.{QN}")
            desc = [f"{_nid(x[0])}:{_ty_describe(x[1])}:{x[2]}:{x[3]}" for x in dr]
            _, ir = rows("select column_name, data_type, character_maximum_length, character_octet_length, numeric_precision, numeric_scale, ordinal_position "
                         f"from information_schema.columns where table_catalog = '{D}' and table_schema = '{S}' and table_name = '{N}' order by ordinal_position")
            info = [f"{_nid(x[0])}:{_ty_info(*x[1:6])}" for x in ir]
            pos = [x[6] for x in ir]
            cur, _ = rows(f"select * from {D}.{QS}.{QN}")
            star = [_desc_col(x) for x in cur.description]
            objs[nid] = {"describe": desc, "info": info, "pos_ok": pos == list(range(1, len(pos) + 1)), "star": star}
            if probes is not None:
                # ONE long-lived cursor per object re-executes the identical text after every statement touching the object and reads
                # its description each time (nothing else is ever described on that cursor)
                pc = probes.setdefault((d, s, nid), conn.cursor())
                pc.execute(f"select * from {D}.{QS}.{QN}")
                objs[nid]["star_probe"] = [_desc_col(x) for x in pc.description]
        except Exception as e:
            objs[nid] = {"error": f"{type(e).__name__}: {str(e)[:120]}"}
    out["objects"] = objs
    return out


def real_history(ops: list[dict]) -> list[dict]:
    import fakesnow
    import snowflake.connector
    import snowflake.connector.errors as E
    out = []
    with fakesnow.patch():
        conns = {d: snowflake.connector.connect(database=NAME[d], schema="S1") for d in DBS}
        probes: dict = {}
        for d in DBS:
            conns[d].cursor().execute(f"create schema {NAME[d]}.S2")
            conns[d].cursor().execute(f'create schema {NAME[d]}."sq"')
        for i, op in enumerate(ops):
            conn = conns[op["db"]]
            try:
                if "connect" in op:
                    snowflake.connector.connect(database=op["connect"][0], schema=op["connect"][1])
                else:
                    conn.cursor().execute(op["sql"])
                ok = "1"
            except E.ProgrammingError as e:
                ok = f"0:{e.errno}"
            except Exception as e:
                ok = f"0:{type(e).__name__}"
            obs = {"ok": ok, "schemas": {}}
            touched = sorted({(t[0], t[1]) for t in op["touch"]})
            last = i == len(ops) - 1
            for d in DBS:
                for s in SCHEMAS:
                    if last or (d, s) in touched:
                        only = None if last else [t[2] for t in op["touch"] if (t[0], t[1]) == (d, s)]
                        try:
                            obs["schemas"][f"{d}.{s}"] = _observe_schema(conns[d], d, s, only, probes)
                        except Exception as e:
                            obs["schemas"][f"{d}.{s}"] = {"error": f"{type(e).__name__}: {str(e)[:150]}"}
            if last:
                for d in DBS:
                    cur = conns[d].cursor()
                    cur.execute(f"show tables in database {NAME[d]}")
                    obs[f"show_db:{d}"] = sorted(f"{x[3]}.{x[4]}.{x[1]}" for x in cur.fetchall())
                # every spelling of the SHOW scopes (keyword optional, quoted names), issued from the connection of the OTHER database
                # (qualified scopes) or of the own database (bare schema name)
                spell = {}
                for d in DBS:
                    other = conns[[x for x in DBS if x != d][0]]
                    D = NAME[d]
                    for form in (f"show schemas in {D}", f"show schemas in database {D}", f'show schemas in "{D}"', f'show terse schemas in database "{D}"'):
                        cur = other.cursor()
                        cur.execute(form)
                        spell[form] = sorted(f"{x[3]}.{x[1]}" for x in cur.fetchall() if str(x[1]).lower() != "information_schema")
                    for sc in SCHEMAS:
                        S = Q(sc)
                        for form in (f"show tables in {D}.{S}", f'show tables in "{D}"."{NAME[sc]}"', f"show terse tables in schema {D}.{S}", f"show objects in {D}.{S}",
                                     f'show objects in schema "{D}".{S}', f"show terse objects in {D}.{S}"):
                            cur = other.cursor()
                            cur.execute(form)
                            spell[form] = sorted(f"{x[3]}.{x[4]}.{x[1]}:{'v' if x[2] == 'VIEW' else 't'}" for x in cur.fetchall())
                        for form in (f"show tables in {S}", f"show objects in schema {S}"):
                            cur = conns[d].cursor()
                            cur.execute(form)
                            spell[f"[from {D}] " + form] = sorted(f"{x[3]}.{x[4]}.{x[1]}:{'v' if x[2] == 'VIEW' else 't'}" for x in cur.fetchall())
                obs["show_spellings"] = spell
                # SHOW PRIMARY KEYS in every scope spelling, from the connection of the keys' own database
                keys = {}
                for d in DBS:
                    D = NAME[d]
                    forms = ["show primary keys", "show primary keys in account", f"show primary keys in database {D}"]
                    for sc in SCHEMAS:
                        S = Q(sc)
                        forms += [f"show primary keys in schema {S}", f"show primary keys in schema {D}.{S}"]
                        if sc == 21:
                            forms += [f"show terse primary keys in schema {S}", f"show primary keys in {D}.{S}", f"show primary keys in table {D}.{S}.T6"]
                    for form in forms:
                        cur = conns[d].cursor()
                        try:
                            cur.execute(form)
                            keys[f"[{D}] {form}"] = sorted(f"{x[1]}.{x[2]}.{x[3]}:{x[4]}" for x in cur.fetchall())
                        except Exception as e:
                            keys[f"[{D}] {form}"] = "err:" + type(e).__name__
                obs["show_keys"] = keys
                # database-qualified reads of information_schema from the connection of the OTHER database
                xdb = {}
                for d in DBS:
                    other = conns[[x for x in DBS if x != d][0]]
                    D = NAME[d]
                    cur = other.cursor()
                    cur.execute(f"select table_schema, table_name, column_name, character_maximum_length, data_type from {D}.information_schema.columns where table_catalog = '{D}' "
                                "and table_schema not in ('information_schema', 'main')")
                    # lengths are compared for TEXT columns only (a stale side-table row also shows on a column that is no longer text:
                    # C09/stale-length-shown-for-non-text-column)
                    xdb[f"columns:{d}"] = sorted(f"{d}.{_nid(a)}.{_nid(b)}:{_nid(c)}:{'-' if n is None or t != 'TEXT' else n}" for a, b, c, n, t in cur.fetchall())
                    cur.execute(f"select table_schema, table_name, comment from {D}.information_schema.tables where table_catalog = '{D}' and table_schema not in ('information_schema', 'main')")
                    xdb[f"tables:{d}"] = sorted(f"{d}.{_nid(a)}.{_nid(b)}:{'-' if c is None else COMMENT_ID.get(c, '?' + str(c))}" for a, b, c in cur.fetchall())
                    cur.execute(f"select table_schema, table_name from {D}.information_schema.views")
                    xdb[f"views:{d}"] = sorted(f"{d}.{_nid(a)}.{_nid(b)}" for a, b in cur.fetchall())
                obs["xdb"] = xdb
                cur = conns[11].cursor()
                cur.execute("show tables")
                obs["show_account"] = sorted(f"{x[3]}.{x[4]}.{x[1]}" for x in cur.fetchall())
                cur.execute("show schemas in database DB1")
                obs["show_schemas"] = sorted(x[1] for x in cur.fetchall() if str(x[1]).lower() != "information_schema")
                cur.execute("select database_name from information_schema.databases")
                obs["info_databases"] = sorted(x[0] for x in cur.fetchall())
                cur.execute("select table_catalog, table_schema, table_name from information_schema.tables")
                obs["info_tables_all"] = sorted(f"{x[0]}.{x[1]}.{x[2]}" for x in cur.fetchall())
            out.append(obs)
    return out


def real_cross_db() -> dict:
    import fakesnow
    import snowflake.connector
    with fakesnow.patch():
        c1 = snowflake.connector.connect(database="DB1", schema="S1")
        c2 = snowflake.connector.connect(database="DB2", schema="S1")
        c1.cursor().execute("create table db2.s1.t1 (a varchar(7))")
        out = {}
        for tag, c in (("own", c2), ("other", c1)):
            cur = c.cursor()
            cur.execute("describe table db2.s1.t1")
            out[tag] = [_ty_describe(x[1]) for x in cur.fetchall()]
        return out


def real_stale_nontext() -> dict:
    import fakesnow
    import snowflake.connector
    with fakesnow.patch():
        c = snowflake.connector.connect(database="DB1", schema="S1")
        cur = c.cursor()
        cur.execute("create table t1 (a varchar(5))")
        cur.execute("create or replace table t1 (a int)")
        cur.execute("select data_type, character_maximum_length from information_schema.columns where table_schema = 'S1' and table_name = 'T1'")
        return {"rows": [list(x) for x in cur.fetchall()]}


def real_if_not_exists() -> dict:
    """CREATE TABLE IF NOT EXISTS on an existing table creates nothing; the metadata of the existing table must stay"""
    import fakesnow
    import snowflake.connector
    with fakesnow.patch():
        c = snowflake.connector.connect(database="DB1", schema="S1")
        cur = c.cursor()
        cur.execute("create table t1 (a varchar(10)) comment = 'c1'")
        cur.execute("create table if not exists t1 (a varchar(3)) comment = 'c2'")
        cur.execute("describe table t1")
        ty = [_ty_describe(x[1]) for x in cur.fetchall()]
        cur.execute("select comment from information_schema.tables where table_schema = 'S1' and table_name = 'T1'")
        return {"type": ty, "comment": [x[0] for x in cur.fetchall()]}


def _worker(shard):
    import fakesnow
    assert common.REPO in __import__("pathlib").Path(fakesnow.__file__).resolve().parents, fakesnow.__file__
    return [real_cross_db() if h == "cross-db" else real_if_not_exists() if h == "if-not-exists" else real_stale_nontext() if h == "stale-nontext" else real_history(h)
            for h in shard]


# ----------------------------------------------------------------------------------------------
# verdicts
# ----------------------------------------------------------------------------------------------

def _parse_objects(s: str) -> dict:
    """driver objects -> {key: {kind, scomment, icomment, cols: [(name, sty, idesc, iinfo)]}}"""
    out = {}
    for o in [x for x in s.split(",") if x]:
        key, kind, sc, ic, cols = o.split(":", 4)
        kind, _, pk = kind.partition("#")
        out[key] = {"kind": kind, "pk": pk or None, "sc": sc, "ic": ic, "cols": [tuple(c.split(":")) for c in cols.split("/") if c]}
    return out


def _base(t: str) -> str:
    """what the description of SELECT * must say for a declared type: NUMBER columns with their precision and scale"""
    if t[0] == "t":
        return "t"
    if t == "i":
        return "N38.0"
    if t[0] == "n":
        return "N" + t[1:]
    return t


def _check_history(chk, ops, real, reply) -> None:
    steps = dec_list(reply.get("steps", ""))
    if len(steps) != len(ops):
        raise common.Infra(f"model answered {len(steps)} steps for {len(ops)} ops: {reply.get('_raw', '')[:300]}")
    case = {"ops": ops}
    chk.case(tuple(o["op"] for o in ops), nontrivial=len(ops) >= 3)
    blame: dict[str, str] = {}   # object key -> finding key of the statement that produced its current metadata
    for i, op in enumerate(ops):
        ok, finding, agree, objs_s = steps[i].split("~")
        if finding == "unsupported":   # a view as source: not explored (see design/C09.md); the history ends here
            chk.count("skipped_unsupported:view-as-source")
            return
        model = _parse_objects(objs_s)
        r = real[i]
        kind = op["op"].split(",")[0]
        chk.count("op:" + kind)
        where = f"step {i} `{op['sql']}`"
        if (r["ok"] == "1") != (ok == "1"):
            chk.violation(f"{where}: real statement {'succeeded' if r['ok'] == '1' else 'failed (' + r['ok'] + ')'} but the model says "
                          f"{'success' if ok == '1' else 'failure'}", {**case, "step": i}, broken="correspondence Fs.Meta.step (success/failure)")
            return
        chk.count("result:" + ("ok" if ok == "1" else "failed"))
        if finding != "-":
            blame[key_str(op["touch"][-1])] = finding
            blame[key_str(op["touch"][0])] = finding
        for mk, mv in model.items():   # agreement restored (or never lost) for this object according to the model
            if mv["sc"] == mv["ic"] and all(c[1] == c[2] and (c[1][0] != "t" or c[3] == c[1][1:]) for c in mv["cols"]):
                blame.pop(mk, None)
        for ds, obs in r["schemas"].items():
            if "error" in obs:
                chk.violation(f"{where}: reading the metadata of schema {ds} failed: {obs['error']}", {**case, "step": i}, broken="C09 surfaces")
                return
            d, s = ds.split(".")
            live = {k.split(".")[2]: v for k, v in model.items() if k.startswith(ds + ".")}
            want_objects = sorted(f"{n}:{v['kind']}" for n, v in live.items())
            want_tables = sorted(x for x in want_objects if x.endswith(":t"))
            want_views = sorted(n for n, v in live.items() if v["kind"] == "v")
            surfaces = [("information_schema.tables (names)", sorted(x.rsplit(":", 1)[0] for x in obs["info_tables"]), want_objects)]
            if obs["full"]:
                surfaces += [("show objects in schema", obs["show_objects"], want_objects), ("show tables in schema", obs["show_tables"], want_tables),
                             ("information_schema.views", obs["info_views"], want_views)]
            for surface, got, want in surfaces:
                if got != want:
                    chk.violation(f"{where}: {surface} of {NAME[int(d)]}.{NAME[int(s)]} lists {got}, the live catalog is {want}", {**case, "step": i},
                                  broken="C09_listing (correspondence with the live catalog of Fs.Meta.step)")
                    return
            comments = {x.split(":")[0]: x.split(":")[2] for x in obs["info_tables"]}
            for n, m in sorted(live.items()):
                if not obs["full"] and n not in obs["objects"]:
                    continue
                chk.count("object-observations")
                o = obs["objects"].get(n)
                key = f"{ds}.{n}"
                if o is not None and "error" in o and m["kind"] == "v" and ("002003" in o["error"] or "002043" in o["error"]):
                    chk.count("skipped:view-whose-source-changed (cannot be described)")
                    continue
                if o is None or "error" in o:
                    chk.violation(f"{where}: object {key} cannot be described: {o}", {**case, "step": i}, broken="C09 surfaces")
                    return
                names = [c[0] for c in m["cols"]]
        # a PRIMARY KEY column is NOT NULL
                nn = lambda c: "N" if c[0] == m["pk"] else "Y"  # noqa: E731
                spec = {"describe": [f"{c[0]}:{c[1]}:COLUMN:{nn(c)}" for c in m["cols"]], "info": [f"{c[0]}:{c[1]}" for c in m["cols"]], "comment": m["sc"]}
                impl = {"describe": [f"{c[0]}:{c[2]}:COLUMN:{nn(c)}" for c in m["cols"]],
                        "info": [f"{c[0]}:{('t' + c[3]) if c[1][0] == 't' else c[1]}" for c in m["cols"]], "comment": m["ic"]}
                got = {"describe": o["describe"], "info": o["info"], "comment": comments.get(n, "?")}
                star_want = [f"{c[0]}:{_base(c[1])}" for c in m["cols"]]
                if o.get("star_probe", star_want) != star_want:
                    chk.violation(f"{where}: a long-lived cursor re-executing `SELECT * FROM {key}` reports description {o['star_probe']}, the catalog now has "
                                  f"{star_want} (a fresh cursor reports {o['star']})", {**case, "step": i}, broken="C09_listing (description of SELECT * after DDL, same cursor)")
                    return
                if o["star"] != star_want or not o["pos_ok"]:
                    chk.violation(f"{where}: description of SELECT * FROM {key} is {o['star']} (ordinal positions ok: {o['pos_ok']}), the catalog has {star_want}",
                                  {**case, "step": i}, broken="C09_listing (column order / names / base types)")
                    return
                if got == spec:
                    chk.count("object:held")
                    continue
                what = (f"{where}: object {key} ({'view' if m['kind'] == 'v' else 'table'}, columns {names}): DESCRIBE {got['describe']} / information_schema.columns "
                        f"{got['info']} / comment {got['comment']!r}; declared: {spec['describe']} / {spec['info']} / {spec['comment']!r}")
                if got == impl and key in blame:
                    chk.count("finding:" + blame[key])
                    chk.finding(blame[key], what, {**case, "step": i})
                    if blame[key] not in chk.known:
                        return
                    continue
                chk.violation(what + f"; code model: {impl['describe']} / {impl['info']} / {impl['comment']!r}"
                              + ("" if key in blame else "; no statement in a finding region produced this object"),
                              {**case, "step": i}, broken="C09_step_partial / C09_surfaces (correspondence with Fs.Meta side tables)")
                return
        if i == len(ops) - 1:
            allkeys = sorted(model)
            for d in DBS:
                want = sorted(".".join(NAME[int(x)] for x in k.split(".")) for k in allkeys if k.startswith(f"{d}.") and model[k]["kind"] == "t")
                if r[f"show_db:{d}"] != want:
                    chk.violation(f"SHOW TABLES IN DATABASE {NAME[d]} lists {r[f'show_db:{d}']}, live tables are {want}", {**case, "step": i}, broken="C09_listing (database scope)")
                    return
            for form, got in r.get("show_spellings", {}).items():
                f = form.split("] ")[-1]
                home = form[6:9] if form.startswith("[from ") else None
                toks = f.replace('"', "").split()
                scope = toks[-1]
                if " schemas " in f" {f} ":
                    want_sp = sorted(f"{scope}.{n_}" for n_ in SCHEMAS.values())
                else:
                    D, S = scope.split(".") if "." in scope else (home, scope)
                    tables_only = "tables" in toks
                    want_sp = sorted(f"{D}.{S}.{NAME[int(k.split('.')[2])]}:{model[k]['kind']}" for k in allkeys
                                     if k.startswith(f"{ID[D]}.{ID[S]}.") and (model[k]["kind"] == "t" or not tables_only))
                if got != want_sp:
                    chk.violation(f"`{f}`" + (f" issued from a connection in {home}" if home else " issued from a connection of the other database")
                                  + f" lists {got}, the live catalog has {want_sp}", {**case, "step": i}, broken="C09_listing (SHOW scope spellings)")
                    return
            for what_, got in r.get("xdb", {}).items():
                kind_, d_ = what_.split(":")
                mine = {k: v for k, v in model.items() if k.startswith(d_ + ".")}
                if kind_ == "columns":
                    want_x = sorted(f"{k}:{c[0]}:{c[3] if c[1][0] == 't' else '-'}" for k, v in mine.items() for c in v["cols"])
                elif kind_ == "views":
                    want_x = sorted(k for k, v in mine.items() if v["kind"] == "v")
                else:
                    want_x = sorted(f"{k}:{v['ic']}" for k, v in mine.items())
                if got == want_x:
                    continue
                what = (f"information_schema.{kind_} of {NAME[int(d_)]} read database-qualified from a connection of the other database gives {got}, "
                        f"read from its own database it gives {want_x} (object[:column]:value, names as numbers)")
                if kind_ == "tables" and [x.rsplit(":", 1)[0] for x in got] == [x.rsplit(":", 1)[0] for x in want_x] and all(x.endswith(":-") for x in got):
                    chk.finding(KEY_XDB_COMMENT, what, {**case, "step": i})
                else:
                    chk.violation(what, {**case, "step": i}, broken="C09_surfaces (database-qualified information_schema reads)")
                    return
            allpk = sorted(".".join(NAME[int(x)] for x in k.split(".")) + ":" + NAME[int(model[k]["pk"])] for k in allkeys if model[k].get("pk"))
            for form, got in r.get("show_keys", {}).items():
                D = form[1:4]
                f = form[6:]
                toks = f.replace('"', "").split()
                chk.count("show-primary-keys-forms")
                if toks[-1] == "keys":                      # no scope: the current database
                    want_k, key = [x for x in allpk if x.startswith(D + ".")], None
                elif "account" in toks:
                    want_k, key = allpk, KEY_PK_SCOPE
                elif "database" in toks:
                    want_k, key = [x for x in allpk if x.startswith(D + ".")], KEY_PK_SCOPE
                elif "table" in toks:
                    want_k, key = [x for x in allpk if x.startswith(toks[-1] + ":")], KEY_PK_TABLE
                elif "schema" in toks:
                    scope = toks[-1] if "." in toks[-1] else f"{D}.{toks[-1]}"
                    want_k, key = [x for x in allpk if x.startswith(scope + ".")], None
                else:                                        # bare `IN db.schema`
                    want_k, key = [x for x in allpk if x.startswith(toks[-1] + ".")], KEY_PK_BARE
                if got == want_k:
                    continue
                what = f"`{f}` issued from a connection in {D} lists {got}, the declared keys of the live catalog in that scope are {want_k}"
                if key == KEY_PK_SCOPE and got == "err:NotImplementedError":
                    chk.finding(key, what, {**case, "step": i})
                elif key == KEY_PK_TABLE and isinstance(got, list) and got == [x for x in allpk if x.startswith(D + ".") and x.split(":")[0].endswith("." + toks[-1].split(".")[-1])]:
                    chk.finding(key, what, {**case, "step": i})
                elif key == KEY_PK_BARE and got == []:
                    chk.finding(key, what, {**case, "step": i})
                else:
                    chk.violation(what, {**case, "step": i}, broken="C09_keys_from_catalog (SHOW PRIMARY KEYS vs the live catalog)")
                    return
            want = sorted(".".join(NAME[int(x)] for x in k.split(".")) for k in allkeys if model[k]["kind"] == "t")
            if r["show_account"] != want:
                extra = [x for x in r["show_account"] if x not in want]
                if sorted(x for x in r["show_account"] if x in want) == want and all(x.startswith("_fs_global.") for x in extra):
                    chk.finding(KEY_ACCOUNT, f"SHOW TABLES (account scope) lists fakesnow's internal objects {extra}", {**case, "step": i})
                else:
                    chk.violation(f"SHOW TABLES (account scope) lists {r['show_account']}, live tables are {want}", {**case, "step": i}, broken="C09_listing (account scope)")
                    return
            if r["show_schemas"] != sorted(SCHEMAS.values()) or r["info_databases"] != ["DB1", "DB2"]:
                chk.violation(f"SHOW SCHEMAS IN DATABASE DB1 = {r['show_schemas']}, information_schema.databases = {r['info_databases']}", {**case, "step": i},
                              broken="C09_listing (schemas / databases)")
                return
            want11 = sorted(".".join(NAME[int(x)] for x in k.split(".")) for k in allkeys if k.startswith("11."))
            extra = [x for x in r["info_tables_all"] if x not in want11]
            if sorted(x for x in r["info_tables_all"] if x in want11) != want11:
                chk.violation(f"information_schema.tables of DB1 misses live objects: {r['info_tables_all']} vs {want11}", {**case, "step": i}, broken="C09_listing (information_schema.tables)")
                return
            if extra:
                chk.finding(KEY_INFO_TABLES, f"unfiltered information_schema.tables read in DB1 also lists {extra[:6]}…", {**case, "step": i})


def _check_cross(chk, real) -> None:
    chk.case(("cross-db",), nontrivial=False)
    if real.get("own") != ["t7"]:
        chk.violation(f"describe table db2.s1.t1 from a connection in DB2 shows {real.get('own')}, declared varchar(7)", {"kind": "cross-db"}, broken="C09_surfaces")
    elif real.get("other") == [f"t{DEFAULT_LEN}"]:
        chk.finding(KEY_CROSS_DB, f"describe table db2.s1.t1 from a connection in DB1 shows {real['other']}, declared varchar(7)", {"kind": "cross-db"})
    elif real.get("other") != ["t7"]:
        chk.violation(f"describe table db2.s1.t1 from a connection in DB1 shows {real.get('other')}", {"kind": "cross-db"}, broken="C09_surfaces")


def _check_stale_nontext(chk, real) -> None:
    chk.case(("stale-nontext",), nontrivial=False)
    if real["rows"] == [["NUMBER", None]]:
        return
    if real["rows"] == [["NUMBER", 5]]:
        chk.finding(KEY_STALE_NONTEXT, f"`create table t1 (a varchar(5)); create or replace table t1 (a int)`: information_schema.columns reports {real['rows']}", {"kind": "stale-nontext"})
    else:
        chk.violation(f"information_schema.columns of a NUMBER column that replaced a VARCHAR(5) column: {real['rows']}", {"kind": "stale-nontext"}, broken="C09_surfaces")


def _check_ine(chk, real) -> None:
    chk.case(("if-not-exists",), nontrivial=False)
    if real == {"type": ["t10"], "comment": ["c1"]}:
        return
    if real == {"type": ["t3"], "comment": ["c2"]}:
        chk.finding(KEY_INE, f"`create table if not exists t1 (a varchar(3)) comment = 'c2'` on the existing t1 (a varchar(10)) comment 'c1': DESCRIBE now {real['type']}, comment {real['comment']}",
                    {"kind": "if-not-exists"})
    else:
        chk.violation(f"CREATE TABLE IF NOT EXISTS on an existing table: DESCRIBE {real.get('type')}, comment {real.get('comment')} (declared: VARCHAR(10), 'c1')", {"kind": "if-not-exists"},
                      broken="C09_surfaces (metadata of an existing table after CREATE … IF NOT EXISTS)")


def _histories(chk) -> list:
    rnd = random.Random(chk.seed)
    n = 32 if chk.tier == "quick" else 250
    hs = corpus()
    for _ in range(n):
        hs.append(gen_history(rnd, rnd.randint(8, 30)))
    return hs


def run(chk) -> None:
    hs = _histories(chk)
    chk.rule = ("DDL histories of 8-36 statements (11 statement kinds, 3 qualification levels, 14 column types) over 2 databases x 2 schemas x 5 object "
                "names x 6 column names; after every statement every surface of the touched schema(s) is read (listings + per object DESCRIBE, "
                "information_schema.columns, description of SELECT *), at the end all schemas, database and account scope.  non-trivial = history with >= 3 statements")
    items = ["cross-db", "if-not-exists", "stale-nontext"] + hs
    shards = common.chunks(items, 16)
    reals = common.shard_map(_worker, shards)
    for shard, rs in zip(shards, reals):
        hist = [(h, r) for h, r in zip(shard, rs) if not isinstance(h, str)]
        for h, r in zip(shard, rs):
            if h == "cross-db":
                _check_cross(chk, r)
            elif h == "if-not-exists":
                _check_ine(chk, r)
            elif h == "stale-nontext":
                _check_stale_nontext(chk, r)
        replies = common.batch(["meta\thist\t" + enc_list([o["op"] for o in h]) for h, _ in hist]) if hist else []
        for (h, r), reply in zip(hist, replies):
            _check_history(chk, h, r, reply)
    chk.samples = [[o["sql"] for o in h][:10] for h in hs[len(corpus()):len(corpus()) + 3]]
    chk.assumptions = [
        "all columns are nullable and have no default; NOT NULL / PRIMARY KEY / column comments / SHOW PRIMARY KEYS are not explored",
        "every surface of a schema is read through a connection whose current database is that schema's database (C09/describe-other-database-loses-lengths otherwise)",
        "statements use unquoted upper-case-folding names on fully resolvable keys (resolution: C03, folding: C02); status rows are not compared (C04)",
        "SHOW SCHEMAS: the information_schema entry is ignored (Snowflake lists INFORMATION_SCHEMA too)",
        "precision/scale/type-name table: the 7 generated type families; description of SELECT * compared by name and base type only (sizes: C06)",
    ]
    chk.trusted.append("modelled engine (Fs.Meta.step): DuckDB's DDL success rules (OR REPLACE only over the same kind, last column cannot be dropped, "
                       "CTAS/CLONE/VIEW column lists) and information_schema listings — exercised at every step")


def replay(chk, case) -> None:
    if case.get("kind") == "stale-nontext":
        _check_stale_nontext(chk, _worker([["stale-nontext"]][0])[0])
        return
    if case.get("kind") == "if-not-exists":
        _check_ine(chk, _worker([["if-not-exists"]][0])[0])
        return
    if case.get("kind") == "cross-db":
        _check_cross(chk, _worker([["cross-db"]][0])[0])
        return
    ops = [{**o, "touch": [tuple(t) for t in o["touch"]]} for o in case["ops"]]
    real = _worker([ops])[0]
    reply = common.batch(["meta\thist\t" + enc_list([o["op"] for o in ops])])[0]
    _check_history(chk, ops, real, reply)
