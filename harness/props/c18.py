"""C18 — with db_path, committed state survives exit, exceptions and kills  (partial: DuckDB WAL/fsync trusted).

Correspondence: a *forked child process* runs a history against a fresh db_path with a counting proxy around the
DuckDB connection (installed from the harness by subclassing fakesnow.instance.FakeSnow — no hook in the repo) and
SIGKILLs itself immediately before its k-th engine call (or leaves `patch()` cleanly / by an exception).  A second
forked process then opens the same directory through the public API (`fakesnow.patch(db_path=…)`,
`connect(database=…)`) and dumps database files, schemas, tables, rows, comments, VARCHAR lengths and views.  The dump is
compared with `dump (recover (crash …))` of the Lean model (Fs/Model/Crash.lean) and with the two states the property
allows (statement boundary before / after the kill point); the engine-call decomposition the child logged is compared
with `Fs.Crash.calls`.  The worker processes themselves never open DuckDB (they only fork).
"""
from __future__ import annotations

import json
import os
import random
import shutil
import signal
import tempfile
import time

from lib import common

CHILD_TIMEOUT = 120.0


# ------------------------------------------------------------------------------------------------
# rendering
# ------------------------------------------------------------------------------------------------

def _sql(st: str) -> str:
    k, tl = st[0], st[1:]
    if k == "T":
        t, c, ln = tl.split(".")
        cols = "k int, v int" + (f", s varchar({ln})" if ln != "-" else "")
        return f"create table t{t} ({cols})" + (f" comment = 'c{c}'" if c != "-" else "")
    if k == "D":
        return f"drop table t{tl}"
    if k == "M":
        t, c = tl.split(".")
        return f"comment on table t{t} is 'c{c}'"
    if k == "S":
        return f"create schema s{tl}"
    if k == "V":
        if "." in tl:
            v, c = tl.split(".")
            return f"create view vw{v} comment = 'c{c}' as select 1 as x"
        return f"create view vw{tl} as select 1 as x"
    if k == "B":
        if tl.endswith("q"):     # the name written as a quoted identifier (upper case: the same database as unquoted)
            return f'create database "DB{int(tl[:-1]) + 1}"'
        return f"create database db{int(tl) + 1}"
    if k == "i":
        t, kk, v = tl.split(".")
        return f"insert into t{t} (k, v) values ({kk}, {v})"
    if k == "u":
        t, kk, v = tl.split(".")
        return f"update t{t} set v = {v} where k = {kk}"
    if k == "d":
        t, kk = tl.split(".")
        return f"delete from t{t} where k = {kk}"
    if k == "G":
        parts = tl.split(".")
        t, nums = parts[0], parts[1:]
        rows = [(nums[i], nums[i + 1]) for i in range(0, len(nums), 2)]
        src = " union all ".join((f"select {a} as k, {b} as v" if i == 0 else f"select {a}, {b}") for i, (a, b) in enumerate(rows))
        return (f"merge into t{t} using ({src}) as src on t{t}.k = src.k when matched then update set v = src.v "
                f"when not matched then insert (k, v) values (src.k, src.v)")
    if k == "q":
        return "select 1"
    if k == "O":
        t, c = tl.split(".")
        return f"create or replace table t{t} (k int, v int) comment = 'c{c}'"
    if k == "Z":
        return "set v18 = 1"            # a statement fakesnow answers without any durable engine call
    if k == "b":
        return "begin"
    if k == "c":
        return "commit"
    if k == "r":
        return "rollback"
    raise common.Infra(f"bad statement {st}")


def _mh(hist: list[str]) -> str:
    """the history as the model reads it: executemany with a row the connector cannot format (`g`) = executemany of the rows
    before it; write_pandas of one row (`p`) = that INSERT"""
    out = []
    for s in hist:
        if s[0] == "g":
            out.append("e" + s[1:])
        elif s[0] == "p":
            out.append("i" + s[1:])
        elif s[0] == "O":
            out.append("T" + s[1:] + ".-")      # CREATE OR REPLACE TABLE … COMMENT: a new empty table with that comment
        elif s[0] == "Z":
            out.append("q")
        else:
            out.append(s)
    return ";".join(out)


def _exec(cur, conn, s: str) -> None:
    """run one statement of a history (executemany / write_pandas are API calls, the rest is SQL)"""
    if s[0] in "eg":
        nums = s[1:].split(".")
        rows = [(int(nums[i]), int(nums[i + 1])) for i in range(1, len(nums), 2)]
        if s[0] == "g":
            rows.append((99,))              # a short tuple: the connector raises TypeError; the application catches it and carries on
        try:
            cur.executemany(f"insert into t{nums[0]} (k, v) values (%s, %s)", rows)
        except TypeError:
            if s[0] != "g":
                raise
        return
    if s[0] == "p":
        import pandas as pd
        import snowflake.connector.pandas_tools as pt
        t, k, v = s[1:].split(".")
        pt.write_pandas(conn, pd.DataFrame({"K": [int(k)], "V": [int(v)]}), f"T{t}")
        return
    cur.execute(_sql(s))
    cur.fetchall()


def _classify(sql: str) -> str:
    u = " ".join(sql.split()).upper()
    if u.startswith("BEGIN"):
        return "b"
    if u.startswith("COMMIT"):
        return "c"
    if u.startswith("ROLLBACK"):
        return "r"
    if u.startswith(("SELECT", "SET ", "DESCRIBE", "SHOW", "WITH")) or "TEMPORARY TABLE" in u.split("(")[0]:
        return "q"
    return "w"


# ------------------------------------------------------------------------------------------------
# child processes (forked; the only processes that open DuckDB)
# ------------------------------------------------------------------------------------------------

class _State:
    n = 0
    kill_at = None
    log = -1


class _Proxy:
    """counting / killing proxy around a DuckDBPyConnection (and the cursors it hands out)"""

    def __init__(self, inner, st):
        object.__setattr__(self, "_inner", inner)
        object.__setattr__(self, "_st", st)

    def execute(self, sql, *a, **k):
        st = self._st
        if st.kill_at is not None and st.n == st.kill_at:
            os.kill(os.getpid(), signal.SIGKILL)
        st.n += 1
        os.write(st.log, _classify(str(sql)).encode())
        self._inner.execute(sql, *a, **k)
        return self

    def cursor(self):
        return _Proxy(self._inner.cursor(), self._st)

    def __getattr__(self, name):
        return getattr(self._inner, name)


def _install_proxy(st):
    import fakesnow
    import fakesnow.instance

    class ProxiedFakeSnow(fakesnow.instance.FakeSnow):
        def __init__(self, *a, **k):
            super().__init__(*a, **k)
            self.duck_conn = _Proxy(self.duck_conn, st)

    if not hasattr(fakesnow, "FakeSnow"):
        raise common.Infra("fakesnow.FakeSnow (constructor seam used by patch()) no longer exists")
    fakesnow.FakeSnow = ProxiedFakeSnow


def _child_history(d: str, hist: list[str], kill_at, mode: str, logfd: int) -> None:
    import fakesnow
    import snowflake.connector
    st = _State()
    st.kill_at, st.log = kill_at, logfd
    _install_proxy(st)

    class Boom(Exception):
        pass

    try:
        with fakesnow.patch(db_path=d):
            if "E" in hist:
                # the session lives in `with connect(...) as conn:` / `with conn.cursor() as cur:` blocks; `E` = the blocks end
                e = hist.index("E")
                os.write(logfd, b"#0:")
                with snowflake.connector.connect(database="db1", schema="s" + hist[0].split(".")[1]) as conn:
                    with conn.cursor() as cur:
                        for i, s in enumerate(hist[1:e], 1):
                            os.write(logfd, f"#{i}:".encode())
                            _exec(cur, conn, s)
                        if mode == "raise-inside":
                            raise Boom("application error inside the with block")
                os.write(logfd, f"#{e}:".encode())
                hist = []
            cur = None
            for i, s in enumerate(hist):
                os.write(logfd, f"#{i}:".encode())
                if s[0] == "N":
                    sc = s.split(".")[1]
                    conn = snowflake.connector.connect(database="db1", schema=f"s{sc}")
                    cur = conn.cursor()
                else:
                    _exec(cur, conn, s)
            os.write(logfd, b"#end:")
            if mode == "raise":
                raise Boom("application error")
            if mode == "killend":
                os.kill(os.getpid(), signal.SIGKILL)
    except Boom:
        pass
    os.write(logfd, b"#exit")


def _child_dump(d: str, schema_opt: bool, outfd: int) -> None:
    import fakesnow
    import snowflake.connector
    out = {"files": sorted(int(f[2:-3]) - 1 for f in os.listdir(d) if f.startswith("DB") and f.endswith(".db"))}
    with fakesnow.patch(db_path=d):
        kw = {"schema": "s1"} if schema_opt else {}
        conn = snowflake.connector.connect(database="db1", **kw)
        cur = conn.cursor()
        cur.execute("select schema_name from information_schema.schemata where catalog_name = 'DB1' "
                    "and schema_name not in ('information_schema', 'main', 'pg_catalog')")
        out["schemas"] = sorted(int(r[0][1:]) for r in cur.fetchall())
        cur.execute("select table_schema, table_name, comment from information_schema.tables where table_catalog = 'DB1' "
                    "and table_type = 'BASE TABLE' and table_schema not in ('information_schema')")
        tables = cur.fetchall()
        cur.execute("select table_name, character_maximum_length from information_schema.columns where table_catalog = 'DB1' "
                    "and table_schema = 'S1' and column_name = 'S'")
        lens = dict(cur.fetchall())
        tl = []
        for sch, name, cmt in sorted(tables):
            if sch != "S1" or not name.startswith("T"):
                tl.append(["?", sch, name])
                continue
            cur.execute(f"select k, v from DB1.S1.{name}")
            rows = sorted(cur.fetchall())
            tl.append([int(name[1:]), None if cmt is None else str(cmt), lens.get(name), [list(r) for r in rows]])
        out["tables"] = tl
        cur.execute("select table_name, comment from information_schema.tables where table_catalog = 'DB1' and table_type = 'VIEW' "
                    "and table_schema not in ('information_schema')")
        # a commented view is shown as v + 1000 * (c + 1), like the model's dump
        out["views"] = sorted(int(n[2:]) + (1000 * (int(str(c)[1:]) + 1) if c is not None else 0) for n, c in cur.fetchall())
    os.write(outfd, json.dumps(out).encode())


def _child_repatch(d: str, spec: dict, outfd: int) -> None:
    """same process: a patch(db_path) block is left by an exception while a connection object stays referenced; a second
    patch on the same path commits more; the stale object is dropped (gc); then the process ends"""
    import gc
    import fakesnow
    import snowflake.connector
    keep = []

    class Boom(Exception):
        pass

    try:
        with fakesnow.patch(db_path=d):
            conn = snowflake.connector.connect(database="db1", schema="s1")
            keep.append(conn)
            keep.append(conn.cursor())
            for s in spec["h1"][1:]:
                keep[1].execute(_sql(s))
            raise Boom("application error")
    except Boom:
        pass
    with fakesnow.patch(db_path=d):
        c2 = snowflake.connector.connect(database="db1", schema="s1")
        cur = c2.cursor()
        for s in spec["h2"][1:]:
            cur.execute(_sql(s))
    del c2, cur
    keep.clear()
    gc.collect()
    os.write(outfd, b"done")
    if spec["exit"] == "kill":
        os.kill(os.getpid(), signal.SIGKILL)


def _run_repatch(job) -> dict:
    d = tempfile.mkdtemp(prefix="c18-")
    try:
        status, raw = _fork(_child_repatch, d, job["spec"])
        text = raw.decode(errors="replace")
        if "!EXC" in text or "done" not in text:
            return {"err": text[-400:], "status": status}
        st, out = _fork(_child_dump, d, False)
        if st != 0 or b"!EXC" in out:
            return {"dump_err": out.decode(errors="replace")[-400:]}
        return {"dump": json.loads(out.decode())}
    finally:
        shutil.rmtree(d, ignore_errors=True)


def _child_conflict(d: str, spec: dict, outfd: int) -> None:
    """two connections of ONE instance with overlapping transactions inserting the same PRIMARY KEY value; every
    session keeps a ledger of what it was TOLD (COMMIT returned / raised); then the process exits or is killed"""
    import fakesnow
    import snowflake.connector
    told = {}
    with fakesnow.patch(db_path=d):
        conns = {n: snowflake.connector.connect(database="db1", schema="s1") for n in ("a", "b")}
        curs = {n: c.cursor() for n, c in conns.items()}
        curs["a"].execute("create table t0 (k int primary key, v int)")
        for n in ("a", "b"):
            curs[n].execute("begin")
        for n in spec["insert_order"]:
            for k, v in spec["rows"][n]:
                curs[n].execute(f"insert into t0 (k, v) values ({k}, {v})")
        for n in spec["commit_order"]:
            try:
                if spec["api"]:
                    conns[n].commit()
                else:
                    curs[n].execute("commit")
                    curs[n].fetchall()
                told[n] = "committed"
            except Exception as e:  # noqa: BLE001
                told[n] = f"raised {type(e).__name__}"
                conns[n].rollback()
        for n in ("a", "b"):                       # afterwards both sessions are in autocommit again
            k = spec["after"][n]
            try:
                curs[n].execute(f"insert into t0 (k, v) values ({k}, {k})")
                told["after_" + n] = "ok"
            except Exception as e:  # noqa: BLE001
                told["after_" + n] = f"raised {type(e).__name__}"
        os.write(outfd, json.dumps(told).encode())
        if spec["exit"] == "kill":
            os.kill(os.getpid(), signal.SIGKILL)


def _run_conflict(job) -> dict:
    d = tempfile.mkdtemp(prefix="c18-")
    try:
        status, raw = _fork(_child_conflict, d, job["spec"])
        text = raw.decode(errors="replace")
        if "!EXC" in text:
            return {"err": text[-400:]}
        told = json.loads(text) if text else None
        st, out = _fork(_child_dump, d, False)
        if st != 0 or b"!EXC" in out:
            return {"told": told, "dump_err": out.decode(errors="replace")[-400:]}
        return {"told": told, "dump": json.loads(out.decode())}
    finally:
        shutil.rmtree(d, ignore_errors=True)


def _fork(fn, *args) -> tuple[int, bytes]:
    """run fn(*args, fd) in a forked child; returns (wait status, bytes written to fd)"""
    r, w = os.pipe()
    pid = os.fork()
    if pid == 0:
        code = 0
        try:
            os.close(r)
            fn(*args, w)
        except BaseException as e:  # noqa: BLE001 - report and die
            try:
                os.write(w, ("\n!EXC " + type(e).__name__ + ": " + str(e)[:300]).encode())
            except OSError:
                pass
            code = 3
        finally:
            os._exit(code)
    os.close(w)
    chunks = []
    deadline = time.time() + CHILD_TIMEOUT
    import select
    while True:
        left = deadline - time.time()
        if left <= 0:
            os.kill(pid, signal.SIGKILL)
            os.waitpid(pid, 0)
            os.close(r)
            raise common.Infra(f"child process timed out after {CHILD_TIMEOUT}s")
        ready, _, _ = select.select([r], [], [], min(left, 5.0))
        if ready:
            b = os.read(r, 65536)
            if not b:
                break
            chunks.append(b)
    os.close(r)
    _, status = os.waitpid(pid, 0)
    return status, b"".join(chunks)


def _parse_log(raw: bytes) -> tuple[list[str], bool, str]:
    """per-statement engine-call classes; whether the child reached its exit; error text"""
    text = raw.decode(errors="replace")
    err = ""
    if "\n!EXC " in text:
        text, err = text.split("\n!EXC ", 1)
    parts = text.split("#")[1:]
    per, exited = [], False
    for p in parts:
        if p == "exit":
            exited = True
        elif p.startswith("end:"):
            pass
        else:
            per.append(p.split(":", 1)[1])
    return per, exited, err


def _run_point(job) -> dict:
    """job = {hist, kill (int|None), mode, schema_opt, phase2?}"""
    d = tempfile.mkdtemp(prefix="c18-")
    try:
        status, raw = _fork(_child_history, d, job["hist"], job.get("kill"), job["mode"])
        per, exited, err = _parse_log(raw)
        res = {"status": status, "calls": per, "exited": exited, "err": err}
        if job.get("hist2"):
            status2, raw2 = _fork(_child_history, d, job["hist2"], job.get("kill2"), "clean")
            per2, exited2, err2 = _parse_log(raw2)
            res.update({"status2": status2, "calls2": per2, "exited2": exited2, "err2": err2})
        st, out = _fork(_child_dump, d, job.get("schema_opt", False))
        if st != 0 or b"!EXC" in out:
            res["dump_err"] = out.decode(errors="replace")[-400:]
        else:
            res["dump"] = json.loads(out.decode())
        res["leftover"] = sorted(f for f in os.listdir(d) if not (f.endswith(".db") or f.endswith(".wal")))
        return res
    finally:
        shutil.rmtree(d, ignore_errors=True)


def _child_memory(hist: list[str], outfd: int, form: str = "none", dirs: tuple | None = None) -> None:
    """in-memory instances: no files anywhere, nothing shared between instances.
    `form` = how db_path is given: none (argument absent / None), empty ("" – falsy, i.e. in memory), or a storage form
    (rel = relative path, pathobj = pathlib.Path, slash = trailing slash): then the files must be in <cwd>/data and a later
    patch given the plain absolute path must find the tables"""
    import fakesnow
    import fakesnow.instance
    import snowflake.connector
    cwd, tmp = dirs if dirs else (tempfile.mkdtemp(prefix="c18-mem-"), tempfile.mkdtemp(prefix="c18-memtmp-"))
    os.chdir(cwd)
    os.environ["TMPDIR"] = tmp
    tempfile.tempdir = tmp
    out = {}

    def tables(conn):
        cur = conn.cursor()
        cur.execute("select table_name from information_schema.tables where table_catalog = 'DB1' and table_schema = 'S1'")
        return sorted(r[0] for r in cur.fetchall())

    import pathlib
    kw = {"none": {}, "nonearg": {"db_path": None}, "empty": {"db_path": ""}, "rel": {"db_path": "data"},
          "pathobj": {"db_path": pathlib.Path("data")}, "slash": {"db_path": "data/"}}[form]
    storage = form in ("rel", "pathobj", "slash")
    if storage:
        os.mkdir(os.path.join(cwd, "data"))
    with fakesnow.patch(**kw):
        conn = snowflake.connector.connect(database="db1", schema="s1")
        cur = conn.cursor()
        for s in hist:
            if s[0] != "N":
                cur.execute(_sql(s))
        out["first"] = tables(conn)
        # a second, simultaneous in-memory instance
        other = fakesnow.instance.FakeSnow()
        oc = other.connect(database="db1", schema="s1")
        out["other_simultaneous"] = tables(oc)
    with (fakesnow.patch(db_path=os.path.join(cwd, "data")) if storage else fakesnow.patch(**kw)):
        conn = snowflake.connector.connect(database="db1", schema="s1")
        out["later_patch"] = tables(conn)
    out["storage"] = storage
    if storage:
        out["data_files"] = sorted(f for f in os.listdir(os.path.join(cwd, "data")) if f.endswith(".db"))
        shutil.rmtree(os.path.join(cwd, "data"), ignore_errors=True)
    out["cwd_files"] = sorted(os.listdir(cwd))
    out["tmp_files"] = sorted(os.listdir(tmp))
    os.write(outfd, json.dumps(out).encode())


def _run_memory(job) -> dict:
    # the scratch cwd / TMPDIR of the child are made here so that they can be removed whatever happens to the child
    dirs = (tempfile.mkdtemp(prefix="c18-mem-"), tempfile.mkdtemp(prefix="c18-memtmp-"))
    try:
        st, out = _fork(lambda fd: _child_memory(job["hist"], fd, job.get("form", "none"), dirs))
    finally:
        for d in dirs:
            shutil.rmtree(d, ignore_errors=True)
    if st != 0 or b"!EXC" in out:
        return {"err": out.decode(errors="replace")[-400:]}
    return json.loads(out.decode())


def _worker(shard):
    # import everything once in the worker so that forked children start warm (the worker itself never opens DuckDB)
    import duckdb  # noqa: F401
    import fakesnow  # noqa: F401
    import fakesnow.instance  # noqa: F401
    import pyarrow  # noqa: F401
    import snowflake.connector  # noqa: F401
    return [(_run_memory(j) if j["mode"] == "memory" else _run_conflict(j) if j["mode"] == "conflict" else _run_repatch(j) if j["mode"] == "repatch" else _run_point(j))
            for j in shard]


# ------------------------------------------------------------------------------------------------
# histories
# ------------------------------------------------------------------------------------------------

CONNECT = "N11.1"
CORE = [
    ["T0.7.10", "i0.1.1"],                                   # comment + length: 3 durable calls
    ["T0.7.-", "T1.-.5", "i1.2.2"],                          # comment only; length only
    ["T0.-.-", "i0.1.1", "G0.1.10.2.20"],                    # MERGE: update + insert
    ["b", "T0.7.10", "i0.1.1", "c", "i0.2.2"],               # multi-call statement inside a committed tx
    ["T0.-.-", "i0.1.1", "b", "G0.1.10.2.20", "u0.1.5", "c"],  # MERGE inside a tx
    ["T0.-.-", "b", "i0.1.1", "M0.3", "r", "i0.2.2"],        # rolled-back block
    ["B1", "S2", "T0.-.-", "V1"],                            # CREATE DATABASE by statement, schema, view
    ["T0.-.-", "i0.1.1", "i0.2.2", "u0.1.9", "d0.2", "M0.4", "D0"],
    ["T0.3.-", "D0", "T0.-.-", "q"],                         # drop + re-create (side tables keep the old comment: C09's business)
    ["T0.-.-", "b", "i0.1.1", "i0.2.2"],                     # exits with the transaction still open
    ["B1q", "S2", "T0.-.-", "i0.1.1"],                       # CREATE DATABASE "DB2" (quoted): the same file as unquoted
    ["T0.-.-", "M0.3", "O0.5", "Z", "i0.1.1", "Z"],         # comment 'draft', replaced with 'final', then no-op statements
    ["T0.2.-", "V1.7", "V2", "i0.1.1"],                      # a view created with COMMENT, a table with a comment, a plain view
]


def _random_hist(rnd: random.Random) -> list[str]:
    out, live, intx, views, saved = [], [], False, 0, []
    n = rnd.randint(4, 9)
    next_t = 0
    for _ in range(n):
        r = rnd.random()
        if not intx and r < 0.15:
            out.append("b"); intx = True
            saved = list(live)
        elif intx and r < 0.2:
            out.append(rnd.choice(["c", "c", "r"])); intx = False
            if out[-1] == "r":
                live = saved          # tables created inside a rolled-back block are gone
        elif r < 0.4 or not live:
            if next_t < 4:
                out.append(f"T{next_t}.{rnd.choice(['-', str(rnd.randrange(9))])}.{rnd.choice(['-', str(rnd.randrange(1, 40))])}")
                live.append(next_t); next_t += 1
            else:
                out.append("q")
        elif r < 0.6:
            out.append(f"i{rnd.choice(live)}.{rnd.randrange(5)}.{rnd.randrange(50)}")
        elif r < 0.68:
            out.append(f"u{rnd.choice(live)}.{rnd.randrange(5)}.{rnd.randrange(50)}")
        elif r < 0.74:
            out.append(f"d{rnd.choice(live)}.{rnd.randrange(5)}")
        elif r < 0.84:
            ks = rnd.sample(range(5), 2)
            out.append(f"G{rnd.choice(live)}.{ks[0]}.{rnd.randrange(50)}.{ks[1]}.{rnd.randrange(50)}")
        elif r < 0.9:
            out.append(f"M{rnd.choice(live)}.{rnd.randrange(9)}")
        elif r < 0.94 and not intx:
            out.append(f"S{rnd.randrange(2, 5)}") if f"S2" not in out else out.append("q")
        elif r < 0.97:
            views += 1
            out.append(f"V{views}")
        elif not intx and "B1" not in out and "B1q" not in out:
            out.append(rnd.choice(["B1", "B1q"]))
        else:
            out.append("q")
    # INSERTs of the same key twice are fine (no constraints); S<n> only once
    seen = set()
    out2 = []
    for s in out:
        if s[0] == "S":
            if s in seen:
                s = "q"
            seen.add(s)
        out2.append(s)
    if intx and rnd.random() < 0.7:
        out2.append("c")
    return out2


# ------------------------------------------------------------------------------------------------
# verdict
# ------------------------------------------------------------------------------------------------

def _canon_model(s: str):
    files, schemas, tables, views = s.split("/")
    nums = lambda x: sorted(int(v) for v in x.split(",") if v)  # noqa: E731
    tl = []
    for t in [t for t in tables.split("+") if t]:
        i, c, ln, rows = t.split(":")
        rr = sorted([int(a), int(b)] for a, b in (p.split(".") for p in rows.split(",") if p))
        tl.append([int(i), None if c == "-" else f"c{c}", None if ln == "-" else int(ln), rr])
    return {"files": nums(files), "schemas": nums(schemas), "tables": sorted(tl, key=lambda t: t[0]), "views": nums(views)}


def _canon_real(d: dict, schema_opt: bool):
    return {"files": d["files"], "schemas": d["schemas"], "tables": sorted(d["tables"], key=lambda t: str(t[0])), "views": d["views"]}


def _heal(m: dict, schema_opt: bool) -> dict:
    """reconnecting with schema='s1' re-creates S1 (connect's own, documented behaviour)"""
    if not schema_opt:
        return m
    m = dict(m)
    m["schemas"] = sorted(set(m["schemas"]) | {1})
    return m


def _nonq(s: str) -> str:
    return "".join(c for c in s if c != "q")


def _addr(real_calls: list[str]) -> str:
    """kill address robust to read-only calls: statements completed, non-read calls done in the last one"""
    if not real_calls:
        return "@0.0"
    return f"@{len(real_calls) - 1}.{len(_nonq(real_calls[-1]))}"


def run(chk) -> None:
    rnd = random.Random(chk.seed)
    quick = chk.tier == "quick"
    hists = [[CONNECT] + h for h in CORE] + [[CONNECT] + _random_hist(rnd) for _ in range(14 if quick else 150)]
    # stage 1: every history to the end (clean exit / exception exit); gives the real engine-call log
    jobs1 = []
    for hi, h in enumerate(hists):
        jobs1.append({"hi": hi, "hist": h, "kill": None, "mode": "clean", "schema_opt": False})
        jobs1.append({"hi": hi, "hist": h, "kill": None, "mode": "raise", "schema_opt": hi % 2 == 0})
    for ci in range(6 if quick else 24):
        first = rnd.choice("ab")
        k = rnd.randrange(1, 5)
        spec = {"rows": {"a": [(k, 10), (k + 10, 11)], "b": [(k + 20, 21), (k, 20)]},
                "insert_order": rnd.choice([["a", "b"], ["b", "a"]]), "commit_order": [first, "b" if first == "a" else "a"],
                "api": ci % 2 == 0, "after": {"a": 71, "b": 72}, "exit": "kill" if ci % 3 else "clean"}
        jobs1.append({"hi": -1, "mode": "conflict", "spec": spec})
    # executemany / write_pandas as statements of a history, in autocommit and inside transactions; all process endings
    API = [["N11.1", "T0.-.-", "e0.1.1.2.2", "i0.3.3"],
           ["N11.1", "T0.-.-", "g0.1.1", "i0.2.2", "u0.1.5"],             # a row fails, the error is caught, work goes on in autocommit
           ["N11.1", "T0.-.-", "b", "e0.1.1.2.2", "c", "g0.3.3", "i0.4.4"],
           ["N11.1", "T0.-.-", "p0.1.1", "i0.2.2"],
           ["N11.1", "T0.-.-", "b", "i0.1.1", "p0.2.2", "i0.3.3", "r", "i0.4.4"],   # write_pandas inside a transaction that is rolled back
           ["N11.1", "T0.-.-", "i0.9.9", "b", "i0.1.1", "p0.2.2"]]                  # … or left open at exit
    for ah in API:
        for mode in ("clean", "raise", "killend"):
            jobs1.append({"hi": -1, "hist": ah, "kill": None, "mode": mode, "schema_opt": False})
    # `with connect(...) as conn:` / `with conn.cursor():` blocks that end with a transaction still open, all process endings
    WITH = [["N11.1", "T0.-.-", "b", "i0.1.1", "i0.2.2", "E"],
            ["N11.1", "T0.7.10", "i0.1.1", "b", "u0.1.5", "M0.3", "E"],
            ["N11.1", "T0.-.-", "b", "i0.1.1", "c", "b", "d0.1", "T1.-.-", "E"]]
    for wh in WITH:
        for mode in ("clean", "raise", "killend", "raise-inside"):
            jobs1.append({"hi": -1, "hist": wh, "kill": None, "mode": mode, "schema_opt": False})
    # same process: patch block left by an exception (connection kept alive), re-patch on the same path, drop the old object
    for ri in range(2 if quick else 6):
        jobs1.append({"hi": -1, "mode": "repatch",
                      "spec": {"h1": ["N11.1", "T0.-.-", "M0.3", "O0.5", f"i0.1.{ri}"], "h2": ["N11.1", "Z", f"i0.2.{ri}", "Z", "T1.3.-", "i1.5.5", "V3.4"],
                               "exit": "kill" if ri % 2 else "clean"}})
    for form in ("none", "nonearg", "empty", "rel", "pathobj", "slash"):
        jobs1.append({"hi": 0, "hist": hists[0] if form != "nonearg" else hists[2], "mode": "memory", "form": form})
    res1 = [r for shard in common.shard_map(_worker, common.chunks(jobs1, 16)) for r in shard]
    res1 = dict(zip([id(j) for shard in common.chunks(jobs1, 16) for j in shard], res1))
    totals, firstlen = {}, {}
    conflicts = []
    repatches = []
    for j in jobs1:
        r = res1[id(j)]
        if j["mode"] == "memory":
            _check_memory(chk, j, r)
            continue
        if j["mode"] == "conflict":
            conflicts.append((j, r))
            continue
        if j["mode"] == "repatch":
            repatches.append((j, r))
            continue
        if j["mode"] == "clean":
            totals[j["hi"]] = sum(len(c) for c in r["calls"])
            firstlen[j["hi"]] = len(r["calls"][0]) if r["calls"] else 0
    # stage 2: kill points
    jobs2 = []
    for f in sorted((common.CORPUS / "C18").glob("*.json")):
        c = json.loads(f.read_text())
        jobs2.append({"hi": -1, "hist": c["hist"], "kill": c["kill"], "mode": c["kind"], "schema_opt": c.get("schema_opt", False)})
    for hi, h in enumerate(hists):
        total = totals.get(hi, 0)
        # kill points inside the connect bootstrap are the same for every history: all of them once (history 0)
        ks = [k for k in range(total + 1) if hi == 0 or k >= firstlen.get(hi, 0)]
        core = hi < len(CORE)
        if quick:
            keep = len(ks) if core else 8
        else:
            keep = len(ks)
        if keep < len(ks):
            ks = sorted(rnd.sample(ks, keep))
        for k in ks:
            jobs2.append({"hi": hi, "hist": h, "kill": k, "mode": "kill", "schema_opt": (k + hi) % 4 == 0})
    # two-phase: a second process continues on the directory left by a killed first one
    for hi in ([0, 2, 3, 5, 6] if quick else range(len(CORE))):
        total = totals.get(hi, 0)
        for k in rnd.sample(range(total + 1), 3 if quick else 8):
            jobs2.append({"hi": hi, "hist": hists[hi], "kill": k, "mode": "kill2", "schema_opt": False,
                          "hist2": None})  # hist2 filled in below, after asking the model which schema exists
    # the second process: connect (creates the schema iff the first process did not leave it — decided by the model from the
    # first process's durable calls, not from call counts), a new table with comment and length, an insert
    for j in jobs2:
        if j["mode"] == "kill2":
            j["hist2"] = ["N11.1", "T5.2.6", "i5.1.1"]
            j["kill2"] = None
    res2_flat = [r for shard in common.shard_map(_worker, common.chunks(jobs2, 16)) for r in shard]
    order2 = [j for shard in common.chunks(jobs2, 16) for j in shard]
    # model
    if conflicts:
        creps = common.batch(["\t".join(["crash", "run", ";".join(_conflict_history(j["spec"])), "-"]) for j, _ in conflicts])
        for (j, r), rep in zip(conflicts, creps):
            _check_conflict(chk, j, r, rep)
    if repatches:
        rreps = common.batch(["\t".join(["crash", "run2", _mh(j["spec"]["h1"]), "-", _mh(j["spec"]["h2"]), "-"]) for j, _ in repatches])
        for (j, r), rep in zip(repatches, rreps):
            _check_repatch(chk, j, r, rep)
    all_jobs = [(j, res1[id(j)]) for j in jobs1 if j["mode"] not in ("memory", "conflict", "repatch")] + list(zip(order2, res2_flat))
    lines = []
    for j, r in all_jobs:
        h = _mh(j["hist"])
        if j["mode"] in ("clean", "raise", "killend", "raise-inside"):
            lines.append("\t".join(["crash", "run", h, "-"]))
        elif j["mode"] == "kill":
            lines.append("\t".join(["crash", "run", h, _addr(r["calls"])]))
        else:
            lines.append("\t".join(["crash", "run2", h, _addr(r["calls"]), ";".join(j["hist2"]), "-"]))
    reps = common.batch(lines)
    for (j, r), rep in zip(all_jobs, reps):
        _check_point(chk, j, r, rep)
    chk.rule = ("forked child runs connect + history (CREATE TABLE with/without COMMENT and VARCHAR length, INSERT/UPDATE/DELETE, MERGE, "
                "COMMENT ON, CREATE SCHEMA/VIEW/DATABASE, DROP, BEGIN/COMMIT/ROLLBACK) against a fresh db_path and is SIGKILLed before its "
                "k-th engine call (every k for the core histories, sampled for random ones), or exits cleanly / by exception; a second "
                "process reconnects (with and without schema) and dumps files, schemas, tables, rows, comments, lengths, views; two-phase "
                "runs continue on a killed directory; in-memory instances are checked for no files / no sharing.  non-trivial = distinct "
                "(history, kill point)")
    chk.assumptions = ["kills happen between engine calls (a kill inside one DuckDB call is DuckDB's own atomicity: trusted)",
                       "ATTACH / CREATE DATABASE are not placed inside explicit transactions (ATTACH is not transactional in DuckDB)"]
    chk.trusted += ["DuckDB WAL/fsync durability and atomicity of one engine call; an auto-committed call is durable when execute() returns; "
                    "BEGIN..COMMIT is durable at COMMIT; ATTACH creates the database file at once; the OS"]


def _check_repatch(chk, job, r, rep) -> None:
    spec = job["spec"]
    case = {"kind": "repatch", "spec": spec}
    chk.case(("repatch", json.dumps(spec, sort_keys=True)), nontrivial=True, sample=case)
    chk.count("mode:repatch")
    if "err" in r:
        raise common.Infra(f"repatch child failed: {r}")
    desc = (f"one process: patch(db_path) block running {spec['h1']} left by an exception with the connection still referenced, second "
            f"patch(db_path) on the same path running {spec['h2']}, old connection dropped, process {spec['exit']}")
    if "dump_err" in r:
        chk.violation(f"{desc}: the directory cannot be opened afterwards: {r['dump_err']}", case, broken="C18_committed_survive (recover)")
        return
    real, impl = _canon_real(r["dump"], False), _canon_model(rep["impl"])
    if real != impl:
        chk.violation(f"{desc}: a later process finds {real} but both sessions committed {impl}", case,
                      broken="C18_committed_survive / C18_durable_monotone (exception exit from patch(), then re-patch in the same process)")


def _conflict_history(spec) -> list[str]:
    """the history as the model sees it: the first committer's block commits, the second one's COMMIT is rejected (`x`)"""
    w, l = spec["commit_order"]
    h = ["N11.1", "T0.-.-", "b"] + [f"i0.{k}.{v}" for k, v in spec["rows"][w]] + ["c", "b"] + \
        [f"i0.{k}.{v}" for k, v in spec["rows"][l]] + ["x"]
    return h + [f"i0.{spec['after'][n]}.{spec['after'][n]}" for n in ("a", "b")]


def _check_conflict(chk, job, r, rep) -> None:
    spec = job["spec"]
    case = {"kind": "conflict", "spec": spec}
    chk.case(("conflict", json.dumps(spec, sort_keys=True)), nontrivial=True, sample=case if chk.evaluations % 7 == 0 else None)
    chk.count("mode:conflict")
    if "err" in r or r.get("told") is None:
        raise common.Infra(f"conflict child failed: {r}")
    if "dump_err" in r:
        chk.violation(f"two sessions with a commit-time conflict ({spec}): the directory cannot be opened afterwards: {r['dump_err']}", case,
                      broken="C18_committed_survive (recover)")
        return
    told = r["told"]
    real = _canon_real(r["dump"], False)
    found = {tuple(x) for t in real["tables"] if t[0] == 0 for x in t[3]}
    promised = set()
    for n in ("a", "b"):
        if told.get(n) == "committed":
            promised |= {tuple(x) for x in spec["rows"][n]}
        if told.get("after_" + n) == "ok":
            promised.add((spec["after"][n], spec["after"][n]))
    desc = (f"two sessions of one instance, overlapping transactions inserting {spec['rows']} (same PRIMARY KEY {spec['rows']['a'][0][0]}), commit order "
            f"{spec['commit_order']} via {'conn.commit()' if spec['api'] else 'COMMIT'}, then {spec['exit']}: the sessions were told {told}; "
            f"a later process finds rows {sorted(found)}")
    if found != promised:
        chk.violation(f"{desc} - committed but lost: {sorted(promised - found)}; never committed but present: {sorted(found - promised)}", case,
                      broken="C18_committed_survive / C18_failed_commit_leaves_nothing (what a session was told vs what a later process finds)")
        return
    impl = _canon_model(rep["impl"])
    if real != impl or not str(told.get(spec["commit_order"][1], "")).startswith("raised"):
        chk.violation(f"{desc}; the model (second COMMIT is rejected and raises) predicts {impl}", case,
                      broken="Fs.Crash commitConflict (correspondence)", failing_input=False)


def _check_memory(chk, job, r) -> None:
    form = job.get("form", "none")
    case = {"kind": "memory", "hist": job["hist"], "form": form}
    chk.case(("memory", form, tuple(job["hist"])), nontrivial=True)
    chk.count("mode:memory:" + form)
    if "err" in r:
        raise common.Infra(f"in-memory child failed: {r['err']}")
    bad = []
    if not r["first"]:
        bad.append("the instance does not see its own tables")
    if r["other_simultaneous"]:
        bad.append(f"a second in-memory instance sees {r['other_simultaneous']}")
    if r.get("storage"):
        if r["later_patch"] != r["first"]:
            bad.append(f"a later patch() given the absolute path of the same directory sees {r['later_patch']}, the first one had {r['first']}")
        if r.get("data_files") != ["DB1.db"]:
            bad.append(f"database files in the directory: {r.get('data_files')}, expected ['DB1.db']")
    elif r["later_patch"]:
        bad.append(f"a later in-memory patch() sees {r['later_patch']}")
    if r["cwd_files"] or r["tmp_files"]:
        bad.append(f"files were written outside db_path: cwd={r['cwd_files']} tmp={r['tmp_files']}")
    if bad:
        how = {"none": "patch()", "nonearg": "patch(db_path=None)", "empty": 'patch(db_path="")', "rel": 'patch(db_path="data") (relative)',
               "pathobj": 'patch(db_path=Path("data"))', "slash": 'patch(db_path="data/")'}[form]
        chk.violation(f"{how} with the working directory set to a fresh directory, running {job['hist']}: " + "; ".join(bad), case,
                      broken="C18_memory_isolated")


def _check_point(chk, job, r, rep) -> None:
    mode = job["mode"]
    case = {"kind": mode, "hist": job["hist"], "kill": job.get("kill"), "schema_opt": job.get("schema_opt", False),
            "hist2": job.get("hist2")}
    if "impl" not in rep:
        raise common.Infra(f"driver: {rep}")
    if "dump_err" in r:
        chk.violation(f"history {job['hist']} {mode} at engine call {job.get('kill')}: the directory cannot be opened afterwards: {r['dump_err']}",
                      case, broken="C18_committed_survive (recover)")
        return
    killed = os.WIFSIGNALED(r["status"]) and os.WTERMSIG(r["status"]) == signal.SIGKILL
    if r["err"] and not r["err"].startswith("Infra"):
        # the history's own fakesnow operations raised (none of the generated statements may fail): an observation about the code
        done = max(0, len(r["calls"]) - 1)
        chk.violation(f"history {job['hist']} ({mode}): statement #{done} `{job['hist'][done] if done < len(job['hist']) else '?'}` raised "
                      f"{r['err'][:300]} - every statement of the history is valid and succeeds when the statements before it behaved",
                      case, broken="C18 histories run to completion (a failing statement of a valid history)")
        return
    if mode in ("clean", "raise", "raise-inside") and (not r["exited"] or r["err"] or r["status"] != 0):
        raise common.Infra(f"child did not finish history {job['hist']}: status={r['status']} err={r['err']} calls={r['calls']}")
    if mode == "killend" and not killed:
        raise common.Infra(f"child was not killed at the end: status={r['status']} err={r['err']}")
    if mode in ("kill", "kill2") and not killed and not r["exited"]:
        raise common.Infra(f"child neither killed nor finished: status={r['status']} err={r['err']}")
    chk.case((tuple(job["hist"]), mode, job.get("kill"), job.get("schema_opt")), nontrivial=True,
             sample=case if chk.evaluations % 97 == 5 else None)
    chk.count("mode:" + mode)
    so = job.get("schema_opt", False)
    real = _canon_real(r["dump"], so)
    impl = _heal(_canon_model(rep["impl"]), so)
    if r.get("leftover"):
        chk.violation(f"unexpected files in db_path after {job['hist']}: {r['leftover']}", case, broken="C18 files")
        return
    if mode == "kill2":
        if real != impl:
            chk.violation(f"first process: {job['hist']} killed before engine call {job['kill']}; second process: {job['hist2']} to the end; "
                          f"a third process reads {real} but the committed state is {impl}", case,
                          broken="C18_committed_survive / C18_durable_monotone (correspondence with Fs.Crash.crash)")
        return
    # engine-call decomposition (durable calls only: read-only calls may come and go)
    mcalls = rep["calls"].split("|")
    rc = r["calls"]
    calls_bad = None
    for i, c in enumerate(rc):
        full = i < len(rc) - 1 or mode != "kill" or r["exited"]
        if i >= len(mcalls) or (_nonq(c) != _nonq(mcalls[i]) if full else not _nonq(mcalls[i]).startswith(_nonq(c))):
            calls_bad = (f"statement #{i} `{job['hist'][i]}` of {job['hist']} issued engine calls {c!r} but the model of its decomposition "
                         f"(Fs.Crash.calls) is {mcalls[i] if i < len(mcalls) else None!r}")
            break
    if mode == "kill":
        chk.count("interrupted:" + (job["hist"][int(rep["stmt"])][0] if int(rep["stmt"]) < len(job["hist"]) and rep["j"] != "0" else "boundary"))
    before, after = _heal(_canon_model(rep["before"]), so), _heal(_canon_model(rep["after"]), so)
    allowed = [before, after] if mode == "kill" else [impl]
    if mode == "kill" and int(rep["stmt"]) < len(job["hist"]) and job["hist"][int(rep["stmt"])][0] == "N":
        # connect() is not a SQL statement: its bootstrap (database file, info-schema extensions, schema) is a ladder of
        # independent idempotent steps that the next connect() completes; every prefix is a legitimate state
        allowed = [impl]
    key = rep.get("finding", "-")
    where = (f"killed before engine call {job['kill']} (inside statement #{rep['stmt']} `{job['hist'][int(rep['stmt'])] if int(rep['stmt']) < len(job['hist']) else 'end'}`, "
             f"{rep['j']} of its calls done)") if mode == "kill" else f"{mode} exit"
    if real == impl:
        if real in allowed:
            if calls_bad:
                # only the internal decomposition differs here; other kill points of the sweep look for an observable failure
                chk.violation(calls_bad, case, broken="Fs.Crash.calls (engine-call decomposition)", failing_input=False)
            return
        chk.finding(key, f"history {job['hist']} {where}: a later process finds {real}; the property allows only the statement-boundary states "
                         f"{before} or {after}", case)
        return
    if real in allowed and impl not in allowed and not calls_bad:
        chk.notes.append(f"finding {key} no longer reproduces on {job['hist']} kill={job.get('kill')}")
        return
    chk.violation(f"history {job['hist']} {where}: a later process ({'connect(database, schema)' if so else 'connect(database)'}) finds {real} "
                  f"but the committed state is {impl} (allowed: {allowed})" + (f"; {calls_bad}" if calls_bad else ""), case,
                  broken="C18_committed_survive / C18_uncommitted_absent / C18_stmt_atomic_partial (correspondence with Fs.Crash.crash)")


def replay(chk, case) -> None:
    if case["kind"] == "repatch":
        job = {"mode": "repatch", "spec": case["spec"]}
        r = _run_repatch(job)
        rep = common.batch(["\t".join(["crash", "run2", _mh(case["spec"]["h1"]), "-", _mh(case["spec"]["h2"]), "-"])])[0]
        _check_repatch(chk, job, r, rep)
        return
    if case["kind"] == "conflict":
        job = {"mode": "conflict", "spec": case["spec"]}
        r = _run_conflict(job)
        rep = common.batch(["\t".join(["crash", "run", ";".join(_conflict_history(case["spec"])), "-"])])[0]
        _check_conflict(chk, job, r, rep)
        return
    if case["kind"] == "memory":
        job = {"hist": case["hist"], "mode": "memory", "form": case.get("form", "none")}
        _check_memory(chk, job, _run_memory(job))
        return
    job = {"hist": case["hist"], "kill": case.get("kill"), "mode": case["kind"], "schema_opt": case.get("schema_opt", False)}
    if case.get("hist2"):
        job["hist2"], job["kill2"] = case["hist2"], None
    r = _run_point(job)
    h = _mh(job["hist"])
    if job["mode"] in ("clean", "raise"):
        line = "\t".join(["crash", "run", h, "-"])
    elif job["mode"] == "kill":
        line = "\t".join(["crash", "run", h, _addr(r["calls"])])
    else:
        line = "\t".join(["crash", "run2", h, _addr(r["calls"]), ";".join(job["hist2"]), "-"])
    _check_point(chk, job, r, common.batch([line])[0])
