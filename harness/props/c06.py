"""C06 — cursor.description matches the result of every executed statement.

Correspondence with `Fs.Types` (driver model `types`):
 A. type sweep (exhaustive over the type table): every declared Snowflake column type, every DECIMAL(p,s) with
    1<=p<=38, 0<=s<=p, and expression forms (literals, casts, arithmetic, aggregates, functions); for each query the
    DuckDB type of every result column is read with DESCRIBE through the public API and `asColumnInfo` must predict the
    ResultMetadata (type_code, precision, scale, internal_size) of `description`; names = DictCursor keys = describe(sql)
    names; one entry per fetched column; Python type of fetched values vs `pyOf`/`agrees`.
 B. statement-kind sweep: every kind x the point in the fetch sequence where description is read (before any fetch,
    after fetchone, after fetchall), with a twin cursor that never reads description: same rows, same rowcount.
 C. purity: data, session context, another cursor's pending result set before/after `description` and `describe()`.
"""
from __future__ import annotations

import datetime
import decimal
import itertools
import random

from lib import common
from lib.common import enc_str

COLUMN_TYPES = [  # declared type, insert literal
    ("int", "1"), ("integer", "2"), ("bigint", "3"), ("smallint", "4"), ("number", "5"), ("number(10,2)", "1.25"), ("number(38,0)", "6"),
    ("number(38,5)", "1.5"), ("decimal(12,3)", "2.125"), ("numeric(5,0)", "7"), ("float", "1.5"), ("double", "2.5"), ("real", "0.5"),
    ("varchar", "'x'"), ("varchar(10)", "'y'"), ("string", "'z'"), ("text", "'t'"), ("char(3)", "'c'"), ("boolean", "true"), ("date", "'2020-01-02'"),
    ("time", "'01:02:03'"), ("timestamp", "'2020-01-02 03:04:05'"), ("timestamp_ntz", "'2020-01-02 03:04:05'"), ("timestamp_tz", "'2020-01-02 03:04:05+01:00'"),
    ("datetime", "'2020-01-02 03:04:05'"), ("binary", "'ab'::binary"), ("variant", "parse_json('{\"a\": 1}')"), ("object", "parse_json('{\"a\": 1}')"),
    ("array", "parse_json('[1, 2]')"),
]
EXPRS = [
    "1", "1.5", "'x'", "true", "null", "1 + 1", "1.5 * 2", "10 / 4", "1::float", "1::varchar", "'2020-01-02'::date", "current_date", "current_timestamp",
    "current_time", "to_date('2020-01-02')", "upper('a')", "length('abc')", "1 = 1", "coalesce(null, 1)", "case when true then 1 else 2 end",
    "12345678901234567890", "123456789012", "0.000001", "1e10", "-5", "'a' || 'b'", "parse_json('{\"k\": 1}')", "object_construct('a', 1)", "'ab'::binary",
    "dateadd(day, 1, '2020-01-02'::date)", "datediff(day, '2020-01-02'::date, '2020-01-05'::date)", "to_timestamp_ntz('2020-01-02 03:04:05')", "to_decimal('1.5', 10, 2)",
    "round(1.567, 1)", "abs(-3)", "1::number(10,0)", "try_to_decimal('1.5', 10, 1)", "sha2('a')", "[1, 2]", "array_construct(1, 2)", "uuid_string()", "'1 day'::interval", "'2020-01-02 03:04:05'::timestamp_ntz(9)", "'2020-01-02 03:04:05'::timestamp(3)",
]
AGGS = ["count(*)", "count(i0)", "sum(i0)", "sum(c5)", "avg(i0)", "min(c0)", "max(c13)", "sum(c10)", "min(c19)", "max(c21)", "listagg(c13, ',')", "array_agg(i0)",
        "count(distinct i0)", "sum(i0) over ()", "row_number() over (order by i0)", "i0 / 2", "i0 * 1.5", "c5 + 1", "c5 * c5", "c10 + 1", "i0 || 'x'"]


# un-aliased expression columns whose auto-generated name contains an ORDER BY: the name must be the same in description,
# DictCursor keys and describe(q)
UNALIASED = [
    "select c0, row_number() over (order by c0) from tt", "select c0, lag(i0) over (partition by c13 order by c0) from tt",
    "select c13, listagg(c14, ',') within group (order by c14) from tt group by c13", "select c0, sum(c5) over (order by c0 rows between unbounded preceding and current row) from tt",
    "select c0 in (select c0 from tt order by c0) from tt", "select percentile_cont(0.5) within group (order by i0) from tt",
    "select c0, lag(c5) over (partition by c13 order by c0 desc nulls last) from tt", "select first_value(c13) over (order by c0 asc nulls first) from tt",
    "select c0 + 1, upper(c13), c5 * 2, count(*) over () from tt", "select rank() over (order by c5 desc), dense_rank() over (order by c13) from tt",
]


# results with REPEATED column names (same and different types): one description entry per position, each with its own type
REPEATED = [
    "select c0 as a, c13 as a from tt", "select c0, c0 from tt", "select 1 as x, 'a' as x, 1.5::float as x", "select c13 as c0, c0, c5 as c0 from tt",
    "select a.c0, b.c13 as c0 from tt a join tt b on a.c0 = b.c0", "select a.*, b.* from tt a join tt b on a.c0 = b.c0",
    "select a.c0, a.c13, b.c13, b.c0, b.c19 as c13 from tt a join tt b on a.c0 = b.c0", "select c19 as d, c13 as \"D\", c10 as D from tt",
    "select * from (select 1 as k, 'x' as v) p join (select 1 as k, 2.5::float as v) q on p.k = q.k",
]


def type_queries(chk):
    qs = [("column", f"select c{i} from tt", None) for i in range(len(COLUMN_TYPES))]
    qs.append(("all-columns", "select * from tt", None))
    qs += [("expr", f"select {e} as x", None) for e in EXPRS]
    qs += [("agg", f"select {a} as x from tt", None) for a in AGGS]
    qs += [("unaliased", q, None) for q in UNALIASED]
    qs += [("repeated-names", q, None) for q in REPEATED]
    decs = [(p, s) for p in range(1, 39) for s in range(0, p + 1)]
    if chk.tier == "quick":
        rnd = random.Random(chk.seed)
        keep = {(p, s) for p, s in decs if s in (0, 1, p) or p in (1, 9, 10, 18, 19, 38)}
        decs = sorted(keep | set(rnd.sample(decs, 120)))
    qs += [("decimal", f"select 1::number({p},{s}) as x, cast(null as decimal({p},{s})) as y", None) for p, s in decs]
    qs += [("param", "select %s as x, %s as y", (1, "a")), ("param", "select %(a)s as x, c0 from tt where c0 = %(b)s", {"a": 1.5, "b": 1}),
           ("param", "select %s as d", (datetime.date(2020, 1, 2),)), ("param", "select %s as d", (decimal.Decimal("1.50"),)), ("param", "select %s as d", (None,)),
           ("param", "select %s as d", (True,))]
    out = [{"kind": "type", "form": f, "sql": sql, "params": p} for f, sql, p in qs]
    # bound queries whose root is not a plain SELECT, under server-side (qmark) and client-side (pyformat) binding
    for style, ph in (("qmark", "?"), ("pyformat", "%s")):
        for sql, params in [
            (f"select {ph} as x union all select {ph} as x", [1, 2]), (f"select {ph} as x union select 'a'", ["b"]),
            (f"select c0 from tt where c0 = {ph} intersect select c0 from tt", [1]), (f"select c0, c13 from tt except select {ph}, {ph}", [7, "q"]),
            (f"(select {ph} as x, {ph} as y)", [1.5, "s"]), (f"with q as (select {ph} as x) select x, x as y from q", [3]),
            (f"select * from (select {ph} as x union all select {ph}) order by 1", [2, 1]), (f"values ({ph}, {ph})", [1, "v"]),
            (f"select * from (values ({ph}, {ph})) as v (n, s)", [1, "v"]), (f"select {ph} as x order by 1 limit 1", ["only"]),
        ]:
            out.append({"kind": "type", "form": f"bound-non-select-root:{style}", "sql": sql, "params": params, "paramstyle": style})
    # texts that contain statement separators / comment markers inside literals, quoted aliases and bound values
    for sql, params in [
        ("select 1 as n, 'note; SELECT 2.5 AS X --' as s", None), ("select 'a; b' as \"x; y\", 2 as \"p;q\"", None), ("select '-- c' as c, '/* d */' as d, ';' as e", None),
        ("select 'x;y' as s, 1.5 as f", None), ("select %s as v, 1 as n", ["p; q"]), ("select %s as v, %s as w", ["; select 1", "--"]),
        ("select c13 || '; ' as joined from tt", None), ("select 1 as n /* c; d */, 2 as m -- e; f", None),
    ]:
        out.append({"kind": "type", "form": "separators-in-text", "sql": sql, "params": params})
    return out


# statement kinds: (model kind, set-up statements, statement)
def kind_cases():
    K = []

    def add(kind, name, sql, setup=()):
        for point in ("before-fetch", "after-fetchone", "after-fetchall"):
            K.append({"kind": "stmt", "mkind": kind, "name": name, "sql": sql, "setup": list(setup), "point": point})

    add("query", "select", "select c0, c13 from tt")
    add("query", "select-empty", "select c0 from tt where c0 > 100")
    add("query", "with", "with q as (select c0 from tt) select * from q")
    add("query", "values", "select * from (values (1, 'a'), (2, 'b')) as v (n, s)")
    add("query", "union", "select c0 from tt union all select c1 from tt")
    add("query", "join", "select a.c0, b.c13 from tt a join tt b on a.c0 = b.c0")
    add("query", "show-tables", "show tables")
    add("query", "show-schemas", "show schemas")
    add("query", "show-terse-tables", "show terse tables")
    add("query", "show-primary-keys", "show primary keys")
    add("query", "describe-table", "describe table tt")
    add("query", "info-schema", "select table_name from information_schema.tables where table_name = 'TT'")
    add("query", "merge", "merge into m1 using (select 1 a) as s on m1.a = s.a when matched then DELETE", ["create table m1 (a int)", "insert into m1 values (1), (2)"])
    add("statusSelect", "insert", "insert into m1 values (1), (2)", ["create table m1 (a int)"])
    add("statusSelect", "insert-select", "insert into m1 select c0 from tt", ["create table m1 (a int)"])
    add("statusSelect", "update", "update m1 set a = 5", ["create table m1 (a int)", "insert into m1 values (1)"])
    add("statusSelect", "update-zero", "update m1 set a = 5 where a > 100", ["create table m1 (a int)"])
    add("statusSelect", "delete", "delete from m1", ["create table m1 (a int)", "insert into m1 values (1)"])
    add("statusSelect", "truncate", "truncate table m1", ["create table m1 (a int)", "insert into m1 values (1)"])
    add("statusSelect", "create-table", "create table m2 (a int, b varchar(5))")
    add("statusSelect", "ctas", "create table m2 as select * from tt")
    add("statusSelect", "create-view", "create view v2 as select c0 from tt")
    add("statusSelect", "create-schema", "create schema s9")
    add("statusSelect", "create-database", "create database db9")
    add("statusSelect", "drop-table", "drop table m1", ["create table m1 (a int)"])
    add("statusSelect", "alter-add", "alter table m1 add column b int", ["create table m1 (a int)"])
    add("statusSelect", "alter-rename", "alter table m1 rename to m3", ["create table m1 (a int)"])
    add("statusSelect", "alter-drop-column", "alter table m1 drop column b", ["create table m1 (a int, b int)"])
    add("statusSelect", "alter-rename-column", "alter table m1 rename column a to z", ["create table m1 (a int)"])
    add("statusSelect", "alter-cluster-by", "alter table m1 cluster by (a)", ["create table m1 (a int)"])
    add("statusSelect", "alter-column-comment", "alter table m1 alter column a comment 'c'", ["create table m1 (a int)"])
    add("statusSelect", "alter-set-comment", "alter table m1 set comment = 'c'", ["create table m1 (a int)"])
    add("statusSelect", "alter-view-rename", "alter view v2 rename to v3", ["create view v2 as select c0 from tt"])
    add("statusSelect", "alter-table-if-exists", "alter table if exists m1 add column b int", ["create table m1 (a int)"])
    add("statusSelect", "alter-session", "alter session set timezone = 'UTC'")
    add("statusSelect", "drop-view", "drop view v2", ["create view v2 as select c0 from tt"])
    add("statusSelect", "drop-schema", "drop schema s9", ["create schema s9"])
    add("statusSelect", "create-or-replace-view", "create or replace view v2 as select c1 from tt", ["create view v2 as select c0 from tt"])
    add("statusSelect", "comment", "comment on table m1 is 'x'", ["create table m1 (a int)"])
    add("statusSelect", "set", "set v1 = 1")
    add("statusSelect", "unset", "unset v1", ["set v1 = 1"])
    add("statusSelect", "commit-no-tx", "commit")
    add("statusSelect", "rollback-no-tx", "rollback")
    add("statusSelect", "nop-regex", "create stage st1")     # connection is opened with nop_regexes matching this
    add("statusSelect", "begin", "begin")
    add("statusSelect", "begin-transaction", "begin transaction")
    add("statusSelect", "commit-in-tx", "commit", ["begin", "insert into tt (c0) values (9)"])
    add("statusSelect", "rollback-in-tx", "rollback", ["begin", "insert into tt (c0) values (9)"])
    add("statusSelect", "use-database", "use database db1")
    add("statusSelect", "use-schema", "use schema s1")
    add("statusSelect", "use-schema-qualified", "use schema db1.s1")
    add("seededQuery", "random-seed", "select random(42) as r")
    add("query", "sample-seed", "select c0 from tt sample (50) seed (7)")
    add("rawCommand", "show-databases", "show databases")
    add("rawCommand", "explain", "explain select 1")
    K.append({"kind": "stmt", "mkind": "beforeExecute", "name": "before-execute", "sql": None, "setup": [], "point": "before-fetch"})
    return K


# re-execution on ONE cursor: steps are ("x", sql, params) executed on the cursor (description read after each unless marked
# "quiet"), or ("other", sql) executed on another cursor of the same connection.  After every execute the description must be
# what a FRESH cursor gets for the same (sql, params) at that moment, fit the fetched rows, and name the DictCursor keys.
def reexec_cases():
    R = []

    def add(name, steps, paramstyle="pyformat", setup=()):
        R.append({"kind": "reexec", "name": name, "steps": steps, "paramstyle": paramstyle, "setup": list(setup)})

    m1 = ["create table m1 (a int)", "insert into m1 values (1)"]
    add("add-column-between", [["x", "select * from m1", None], ["other", "alter table m1 add column b varchar"], ["x", "select * from m1", None]], setup=m1)
    add("add-column-unread-statement-between", [["x", "select * from m1", None], ["xq", "alter table m1 add column b varchar", None], ["x", "select * from m1", None]], setup=m1)
    add("drop-column-between", [["x", "select * from m1", None], ["other", "alter table m1 drop column b"], ["x", "select * from m1", None]],
        setup=["create table m1 (a int, b int)", "insert into m1 values (1, 2)"])
    add("table-replaced-between", [["x", "select a from m1", None], ["other", "create or replace table m1 (a varchar)"], ["other", "insert into m1 values ('s')"], ["x", "select a from m1", None]], setup=m1)
    add("view-redefined-between", [["x", "select * from v2", None], ["other", "create or replace view v2 as select c13, c5 from tt"], ["x", "select * from v2", None]],
        setup=["create view v2 as select c0 from tt"])
    add("rename-column-between", [["x", "select * from m1", None], ["other", "alter table m1 rename column a to z"], ["x", "select * from m1", None]], setup=m1)
    add("same-text-twice-unchanged", [["x", "select c0, c13 from tt", None], ["x", "select c0, c13 from tt", None]])
    add("status-then-query-then-status", [["x", "insert into m1 values (2)", None], ["x", "select * from m1", None], ["x", "insert into m1 values (2)", None]], setup=m1)
    for style, ph in (("qmark", "?"), ("pyformat", "%s"), ("format", "%s")):   # numeric (:1) is not parsed by the fake
        add(f"param-types-{style}", [["x", f"select {ph} as x", [1]], ["x", f"select {ph} as x", ["abc"]], ["x", f"select {ph} as x", [1.5]],
                                     ["x", f"select {ph} as x", [True]], ["x", f"select {ph} as x", [1]]], paramstyle=style)
        add(f"param-types-quiet-between-{style}", [["x", f"select {ph} as x", ["abc"]], ["xq", f"select {ph} as x", [2.5]], ["x", f"select {ph} as x", [7]]], paramstyle=style)
    return R


# purity of describe()/description with respect to the session's random generator: after `select random(7)` the values of the
# next `select random()` calls are fixed; whatever is described in between must not change them (twin: nothing in between)
def seedpure_cases():
    S = []
    for name, op in [("describe-random-seed", ["describe", "select random(99) as r"]), ("describe-random-seed-from", ["describe", "select random(5) as r, c0 from tt"]),
                     ("describe-sample-seed", ["describe", "select c0 from tt sample (50) seed (3)"]), ("describe-plain", ["describe", "select c0 from tt"]),
                     ("describe-ctas-seed", ["describe", "select * from (select random(11) as r)"]),
                     ("description-after-select", ["description", "select c0 from tt"]), ("description-after-sample-seed", ["description", "select c0 from tt sample (50) seed (3)"])]:
        S.append({"kind": "seedpure", "name": name, "op": op})
    return S


# qmark parameters handed over as a MUTABLE list that the caller changes afterwards: description must not change
def mutparams_cases():
    M = []
    for name, sql, params, mutations in [
        ("retype", "select ? as x", [1], [["set", 0, "abc"], ["set", 0, 1.5]]),
        ("retype-two", "select ? as x, ? as y", [1, "a"], [["set", 1, 2], ["set", 0, "s"]]),
        ("clear", "select ? as x", ["abc"], [["clear"]]),
        ("append", "select ? as x", [2.5], [["append", 7]]),
        ("where-param", "select c0, c13 from tt where c0 = ?", [1], [["set", 0, "zzz"], ["clear"]]),
    ]:
        M.append({"kind": "mutparams", "name": name, "sql": sql, "params": params, "mutations": mutations})
    return M


# describe() of statements with side effects: nothing may change (data, catalog, session context, variables)
def descfx_cases():
    F = []
    for mkind, name, sql in [
        ("statusSelect", "insert", "insert into m1 values (9)"), ("statusSelect", "update", "update m1 set a = 5"), ("statusSelect", "delete", "delete from m1"),
        ("statusSelect", "truncate", "truncate table m1"), ("statusSelect", "create-table", "create table n1 (a int)"), ("statusSelect", "drop-table", "drop table m1"),
        ("statusSelect", "create-or-replace", "create or replace table m1 (z varchar)"), ("statusSelect", "create-view", "create view vv as select 1 a"),
        ("statusSelect", "alter", "alter table m1 add column z int"), ("statusSelect", "create-schema", "create schema s9"), ("statusSelect", "drop-schema", "drop schema s2"),
        ("statusSelect", "use-schema", "use schema s2"), ("statusSelect", "use-database", "use database db2"), ("statusSelect", "set", "set v1 = 2"), ("statusSelect", "unset", "unset v1"),
        ("statusSelect", "begin", "begin"), ("statusSelect", "comment", "comment on table m1 is 'x'"),
        ("statusSelect", "merge", "merge into m1 using (select 1 a) as s on m1.a = s.a when matched then DELETE"),
        ("statusSelect", "insert-select", "insert into m1 select c0 from tt"), ("query", "select", "select a from m1"), ("query", "ctas-source", "select * from tt"),
    ]:
        F.append({"kind": "descfx", "mkind": mkind, "name": name, "sql": sql})
    return F


# declared Snowflake types: (spelling, model kind, p, s).  description after `select col` of a CREATE TABLE column, of a column added with
# ALTER TABLE ADD COLUMN, and of a cast must report the DECLARED type code / precision / scale (Fs.Descr.declaredCore), and so must describe().
def declared_cases(chk):
    rnd = random.Random(chk.seed + 23)
    D = []

    def add(spelling, kind, p=None, s_=None):
        D.append({"kind": "declared", "spelling": spelling, "dkind": kind, "p": p, "s": s_})

    ps = list(range(1, 39)) if chk.tier != "quick" else sorted({1, 2, 9, 10, 18, 19, 37, 38} | set(rnd.sample(range(1, 39), 6)))
    for p in ps:
        add(rnd.choice(["number", "decimal", "numeric"]) + f"({p})", "number", p, None)
    for p, sc in [(10, 0), (10, 2), (38, 0), (38, 37), (3, 3), (1, 0), (20, 5)] + [(p, rnd.randint(0, p)) for p in rnd.sample(range(1, 39), 4)]:
        add(f"number({p},{sc})", "number", p, sc)
    for sp in ("number", "decimal", "numeric"):
        add(sp, "number")
    for sp in ("int", "integer", "bigint", "smallint", "tinyint", "byteint"):
        add(sp, "int")
    for sp in ("float", "float4", "float8", "double", "double precision", "real"):
        add(sp, "float")
    for sp in ("varchar", "varchar(10)", "char", "char(3)", "character(4)", "string", "text"):
        add(sp, "text")
    for sp, k in (("boolean", "boolean"), ("date", "date"), ("binary", "binary"), ("varbinary", "binary"), ("variant", "variant"), ("object", "variant"), ("array", "variant")):
        add(sp, k)
    for p in (None, 0, 3, 6, 9):
        suf = "" if p is None else f"({p})"
        add("time" + suf, "time")
        add("timestamp_ntz" + suf, "tsNtz")
        add("timestamp_tz" + suf, "tsTz")
        add("timestamp" + suf, "tsPlain", p)
        add("datetime" + suf, "tsPlain", p)
    for p in (1, 2, 4, 5, 7, 8):
        add(f"timestamp_ntz({p})", "tsNtz")
    return D


# statements matched by nop_regexes, executed WITH parameters under every paramstyle: they are answered with the success row, and
# description / describe-after must be that row's, every time it is read
def nopparams_cases():
    N = []
    for style, ph, params in (("qmark", "?", ["s3://b", 2]), ("pyformat", "%s", ["s3://b", 2]), ("format", "%s", ["s3://b", 2]),
                              ("named", None, {"u": "s3://b", "n": 2}), ("qmark", "?", [None]), ("qmark", "?", [1.5, "x", True])):
        if style == "named":
            sql = "create stage st1 url = %(u)s max = %(n)s"
        else:
            sql = "create stage st1 url = " + " , ".join([ph] * len(params))
        N.append({"kind": "nopparams", "style": style, "sql": sql, "params": params})
    N.append({"kind": "nopparams", "style": "qmark", "sql": "create stage st1", "params": None})
    return N


FINDING_OF_KIND = {"seededQuery": "C06/describe-seeded-query", "rawCommand": "C06/describe-raw-command", "beforeExecute": "C06/describe-before-execute"}

# ------------------------------------------------------------------------------------------------
# real runs
# ------------------------------------------------------------------------------------------------


def _fixture(conn):
    cur = conn.cursor()
    cols = ", ".join(f"c{i} {t}" for i, (t, _) in enumerate(COLUMN_TYPES))
    cur.execute(f"create table tt ({cols}, i0 int)")
    cur.execute("insert into tt select " + ", ".join(v for _, v in COLUMN_TYPES) + ", 3")
    cur.execute("insert into tt (c0, i0) values (2, 4)")


def _meta(ds):
    return [[d.name, d.type_code, d.precision, d.scale, d.internal_size] for d in ds]


def _pytype(v):
    if v is None:
        return None
    if isinstance(v, bool):
        return "bool"
    if isinstance(v, int):
        return "int"
    if isinstance(v, decimal.Decimal):
        return "Decimal"
    if isinstance(v, float):
        return "float"
    if isinstance(v, str):
        return "str"
    if isinstance(v, datetime.datetime):
        return "datetime-tz" if v.tzinfo is not None else "datetime"
    if isinstance(v, datetime.date):
        return "date"
    if isinstance(v, datetime.time):
        return "time"
    if isinstance(v, (bytes, bytearray)):
        return "bytes"
    return type(v).__name__


def _real_type(conn, case):
    from snowflake.connector.cursor import DictCursor
    sql, params = case["sql"], case["params"]
    if isinstance(params, list):
        params = tuple(params)
    cur = conn.cursor()
    out = {}
    try:
        cur.execute(sql, params)
    except Exception as e:
        return {"exec_error": f"{type(e).__name__}: {str(e)[:120]}"}
    rows = cur.fetchall()
    out["width"] = len(rows[0]) if rows else None
    out["pytypes"] = [sorted({t for t in (_pytype(r[i]) for r in rows) if t}) for i in range(len(rows[0]))] if rows else []
    try:
        out["description"] = _meta(cur.description)
    except Exception as e:
        out["description"] = f"raises {type(e).__name__}"
    try:
        out["describe"] = _meta(conn.cursor().describe(sql, params))
    except Exception as e:
        out["describe"] = f"raises {type(e).__name__}"
    d = conn.cursor(DictCursor)
    d.execute(sql, params)
    dr = d.fetchall()
    out["dict_keys"] = list(dr[0].keys()) if dr else None
    # DuckDB's own typing of the result columns, through the public API
    k = conn.cursor()
    k.execute("describe " + sql, params)
    out["duck_types"] = [r[1] for r in k.fetchall()]
    return out


def _snapshot(conn):
    c = conn.cursor()
    c.execute("select c0, i0 from db1.s1.tt order by 1, 2")
    return {"tt": [list(r) for r in c.fetchall()], "ctx": [conn.database, conn.schema]}


def _real_stmt(case):
    """fresh instance; the statement runs on `cur`; a twin instance runs the same without description reads"""
    import fakesnow
    import snowflake.connector
    from snowflake.connector.cursor import DictCursor

    def run(read_description: bool):
        with fakesnow.patch(nop_regexes=[r"^create stage\b"]):
            conn = snowflake.connector.connect(database="db1", schema="s1")
            _fixture(conn)
            cur = conn.cursor()
            res = {}
            if case["sql"] is None:
                try:
                    res["description"] = cur.description if read_description else None
                    res["description"] = _meta(res["description"]) if res["description"] is not None else None
                except Exception as e:
                    res["description"] = f"raises {type(e).__name__}"
                return res
            for s in case["setup"]:
                conn.cursor().execute(s)
            other = conn.cursor()
            other.execute("select c0, i0 from tt order by 1")
            other_first = other.fetchone()
            try:
                cur.execute(case["sql"])
            except Exception as e:
                return {"exec_error": f"{type(e).__name__}: {str(e)[:100]}"}
            res["rowcount"] = cur.rowcount
            fetched = []
            if case["point"] == "after-fetchone":
                fetched.append(cur.fetchone())
            elif case["point"] == "after-fetchall":
                fetched += cur.fetchall()
            if read_description:
                before = _snapshot(conn)
                try:
                    d1 = cur.description
                    res["description"] = _meta(d1)
                    res["again"] = _meta(cur.description) == res["description"]
                except Exception as e:
                    res["description"] = f"raises {type(e).__name__}"
                try:
                    res["describe"] = _meta(conn.cursor().describe(case["sql"]))
                except Exception as e:
                    res["describe"] = f"raises {type(e).__name__}"
                res["state_changed"] = before != _snapshot(conn)
                res["sqlstate"] = cur.sqlstate
            res["rowcount_after"] = cur.rowcount
            try:
                fetched += cur.fetchall()
            except Exception as e:  # e.g. the pending result set is gone
                fetched.append((f"fetchall raised {type(e).__name__}: {e}",))
            res["rows"] = [[str(v) for v in r] if r is not None else None for r in fetched]
            res["width"] = len(fetched[0]) if fetched and fetched[0] is not None else None
            res["other_rest"] = [list(r) for r in [other_first] + other.fetchall()]
            if read_description and isinstance(res["description"], list) and case["mkind"] in ("query", "seededQuery") and case["name"] not in ("merge",):
                # DictCursor keys of the same statement on a clone of the state are not available (the statement has run);
                # names are compared with the dict keys in the type sweep.  Here: re-run only side-effect-free queries.
                if True:
                    d = conn.cursor(DictCursor)
                    d.execute(case["sql"])
                    dr = d.fetchall()
                    res["dict_keys"] = list(dr[0].keys()) if dr else None
            return res

    return {"with": run(True), "twin": run(False)}


def _real_reexec(case):
    import fakesnow
    import snowflake.connector
    from snowflake.connector.cursor import DictCursor
    old = snowflake.connector.paramstyle
    snowflake.connector.paramstyle = case["paramstyle"]
    try:
        with fakesnow.patch():
            conn = snowflake.connector.connect(database="db1", schema="s1")
            _fixture(conn)
            for q in case["setup"]:
                conn.cursor().execute(q)
            cur = conn.cursor()
            out = []
            for step in case["steps"]:
                if step[0] == "other":
                    conn.cursor().execute(step[1])
                    out.append(None)
                    continue
                sql, params = step[1], (tuple(step[2]) if step[2] is not None else None)
                r = {}
                try:
                    cur.execute(sql, params)
                except Exception as e:
                    out.append({"exec_error": f"{type(e).__name__}: {str(e)[:100]}"})
                    continue
                if step[0] == "xq":       # executed, description deliberately not read
                    out.append(None)
                    continue
                try:
                    r["description"] = _meta(cur.description)
                except Exception as e:
                    r["description"] = f"raises {type(e).__name__}"
                rows = cur.fetchall()
                r["width"] = len(rows[0]) if rows else None
                r["pytypes"] = [_pytype(v) for v in rows[0]] if rows else None
                is_query = sql.lstrip().lower().startswith("select")
                if is_query:
                    fresh = conn.cursor()
                    fresh.execute(sql, params)
                    try:
                        r["fresh"] = _meta(fresh.description)
                    except Exception as e:
                        r["fresh"] = f"raises {type(e).__name__}"
                    d = conn.cursor(DictCursor)
                    d.execute(sql, params)
                    dr = d.fetchall()
                    r["dict_keys"] = list(dr[0].keys()) if dr else None
                out.append(r)
            return out
    finally:
        snowflake.connector.paramstyle = old


def _real_mutparams(case):
    import fakesnow
    import snowflake.connector
    old = snowflake.connector.paramstyle
    snowflake.connector.paramstyle = "qmark"
    try:
        with fakesnow.patch():
            conn = snowflake.connector.connect(database="db1", schema="s1")
            _fixture(conn)
            fresh = conn.cursor()
            fresh.execute(case["sql"], list(case["params"]))
            want = _meta(fresh.description)
            cur = conn.cursor()
            params = list(case["params"])          # the caller's own mutable list
            cur.execute(case["sql"], params)
            first = cur.fetchone()
            reads = []

            def read():
                try:
                    reads.append(_meta(cur.description))
                except Exception as e:
                    reads.append(f"raises {type(e).__name__}")

            read()
            for m in case["mutations"]:
                if m[0] == "set":
                    params[m[1]] = m[2]
                elif m[0] == "clear":
                    params.clear()
                else:
                    params.append(m[1])
                read()
            rest = cur.fetchall()
            return {"want": want, "reads": reads, "rows": 1 + len(rest) if first is not None else 0}
    finally:
        snowflake.connector.paramstyle = old


def _full_state(conn):
    k = conn.cursor()

    def q(sql):
        try:
            k.execute(sql)
            return [list(map(str, r)) for r in k.fetchall()]
        except Exception as e:
            return f"ERR {type(e).__name__}"

    return {"ctx": [conn.database, conn.schema],
            "var": q("select $v1"),
            "catalog": q("select 'table' k, database_name d, schema_name s, table_name n, estimated_size z, column_count c from duckdb_tables() where table_name not like '_fs_%' "
                         "union all select 'view', database_name, schema_name, view_name, 0, 0 from duckdb_views() where not internal and view_name not like '_fs_%' "
                         "union all select 'schema', database_name, schema_name, '', 0, 0 from duckdb_schemas() where database_name not in ('system', 'temp') order by 1, 2, 3, 4"),
            "m1": q("select * from db1.s1.m1 order by 1"), "tt": q("select c0, i0 from db1.s1.tt order by 1, 2"),
            "comments": q("select * from db1.information_schema._fs_tables_ext order by 1, 2, 3"),
            "where": q("select current_database(), current_schema()")}


def _real_descfx(case):
    import fakesnow
    import snowflake.connector
    with fakesnow.patch():
        conn = snowflake.connector.connect(database="db1", schema="s1")
        _fixture(conn)
        for s_ in ["create table m1 (a int)", "insert into m1 values (1), (2)", "create schema s2", "create database db2", "set v1 = 1"]:
            conn.cursor().execute(s_)
        before = _full_state(conn)
        res = {}
        try:
            res["describe"] = _meta(conn.cursor().describe(case["sql"]))
        except Exception as e:
            res["describe"] = f"raises {type(e).__name__}"
        try:
            conn.cursor().execute("rollback")      # a transaction left open by describe("begin") would hide changes from nobody, close it
        except Exception:
            pass
        after = _full_state(conn)
        res["changed"] = {k: [before[k], after[k]] for k in before if before[k] != after[k]}
        return res


SCRIPTS = [
    ["create table m1 (a int, b varchar)", "insert into m1 values (1, 'x'), (2, 'y')", "select a from m1", "select b, a from m1 order by a", "update m1 set a = 2",
     "select count(*) as n from m1", "delete from m1 where a > 5"],
    ["select 1 as one", "select 'two' as t, 2.5::float as f", "select c19, c4 from tt", "set v1 = 3", "select c0 from tt where c0 > 100"],
    ["create view v2 as select c0, c13 from tt", "select * from v2", "drop view v2", "show tables", "select current_date as d", "begin", "select 1.5 as x", "rollback"],
    ["select c0 from tt", "select c13 from tt"],
]


def script_cases():
    return [{"kind": "script", "name": f"script-{i}", "stmts": st} for i, st in enumerate(SCRIPTS)]


def _real_script(case):
    """the script through execute_string (every returned cursor read afterwards) and its statements one by one on separate cursors of a twin"""
    import fakesnow
    import snowflake.connector

    def read(cur):
        r = {}
        try:
            r["description"] = _meta(cur.description)
        except Exception as e:
            r["description"] = f"raises {type(e).__name__}"
        try:
            rows = cur.fetchall()
            r["width"] = len(rows[0]) if rows else None
        except Exception as e:
            r["width"] = f"fetchall raised {type(e).__name__}"
        return r

    res = {}
    with fakesnow.patch():
        conn = snowflake.connector.connect(database="db1", schema="s1")
        _fixture(conn)
        cursors = list(conn.execute_string(";\n".join(case["stmts"]) + ";"))
        res["n"] = len(cursors)
        res["script"] = [read(c) for c in cursors]
    with fakesnow.patch():
        conn = snowflake.connector.connect(database="db1", schema="s1")
        _fixture(conn)
        curs = []
        for q in case["stmts"]:
            c = conn.cursor()
            c.execute(q)
            curs.append(c)
        res["single"] = [read(c) for c in curs]
    return res


def _real_declared(conn, case):
    t = case["spelling"]
    out = {}
    for how, stmts, q in [("column", [f"create or replace table dt (c {t}, k int)"], "select c from dt"),
                          ("added-column", ["create or replace table dt2 (k int)", f"alter table dt2 add column c {t}"], "select k, c from dt2"),
                          ("cast", [], f"select cast(null as {t}) as c"), ("colon-cast", [], f"select null::{t} as c")]:
        cur = conn.cursor()
        try:
            for st in stmts:
                cur.execute(st)
            cur.execute(q)
        except Exception as e:
            out[how] = {"rejected": f"{type(e).__name__}: {str(e)[:80]}"}
            continue
        r = {}
        try:
            d = cur.description[-1]
            r["description"] = [d.type_code, d.precision, d.scale]
        except Exception as e:
            r["description"] = f"raises {type(e).__name__}"
        try:
            d = conn.cursor().describe(q)[-1]
            r["describe"] = [d.type_code, d.precision, d.scale]
        except Exception as e:
            r["describe"] = f"raises {type(e).__name__}"
        out[how] = r
    return out


def _real_nopparams(case):
    import fakesnow
    import snowflake.connector
    style = case["style"]
    old = snowflake.connector.paramstyle
    snowflake.connector.paramstyle = "pyformat" if style == "named" else style
    try:
        with fakesnow.patch(nop_regexes=[r"^create stage\b"]):
            conn = snowflake.connector.connect(database="db1", schema="s1")
            _fixture(conn)
            cur = conn.cursor()
            cur.execute("select c0, c13 from tt")       # an earlier, differently shaped result on the same cursor
            params = case["params"]
            if isinstance(params, list):
                params = tuple(params)
            r = {}
            try:
                cur.execute(case["sql"], params)
            except Exception as e:
                return {"exec_error": f"{type(e).__name__}: {str(e)[:100]}"}
            r["rowcount"] = cur.rowcount
            reads = []
            for _ in range(2):
                try:
                    reads.append(_meta(cur.description))
                except Exception as e:
                    reads.append(f"raises {type(e).__name__}: {str(e)[:80]}")
            r["reads"] = reads
            r["rows"] = [list(x) for x in cur.fetchall()]
            try:
                reads.append(_meta(cur.description))
            except Exception as e:
                reads.append(f"raises {type(e).__name__}: {str(e)[:80]}")
            return r
    finally:
        snowflake.connector.paramstyle = old


def _real_seedpure(case):
    import fakesnow
    import snowflake.connector

    def run(do_op: bool):
        with fakesnow.patch():
            conn = snowflake.connector.connect(database="db1", schema="s1")
            _fixture(conn)
            cur = conn.cursor()
            kind, sql = case["op"]
            if kind == "description":
                cur.execute(sql)          # both twins execute it; only one reads description
            conn.cursor().execute("select random(7)")
            res = {}
            if do_op:
                try:
                    res["meta"] = _meta(conn.cursor().describe(sql)) if kind == "describe" else _meta(cur.description)
                except Exception as e:
                    res["meta"] = f"raises {type(e).__name__}"
            vals = []
            for _ in range(3):
                k = conn.cursor()
                k.execute("select random()")
                vals.append(k.fetchall()[0][0])
            res["random"] = vals
            return res

    return {"with": run(True), "twin": run(False)}


def _worker_raw(shard):
    import fakesnow
    import snowflake.connector
    out = {}
    for style in ("pyformat", "qmark"):
        types = [(i, c) for i, c in enumerate(shard) if c["kind"] == "type" and c.get("paramstyle", "pyformat") == style]
        if not types and not (style == "pyformat" and any(c["kind"] == "declared" for c in shard)):
            continue
        old = snowflake.connector.paramstyle
        snowflake.connector.paramstyle = style
        try:
            with fakesnow.patch():
                conn = snowflake.connector.connect(database="db1", schema="s1")
                _fixture(conn)
                for i, c in types:
                    out[i] = _real_type(conn, c)
                if style == "pyformat":
                    for i, c in enumerate(shard):
                        if c["kind"] == "declared":
                            out[i] = _real_declared(conn, c)
        finally:
            snowflake.connector.paramstyle = old
    for i, c in enumerate(shard):
        if c["kind"] == "stmt":
            out[i] = _real_stmt(c)
        elif c["kind"] == "reexec":
            out[i] = _real_reexec(c)
        elif c["kind"] == "seedpure":
            out[i] = _real_seedpure(c)
        elif c["kind"] == "mutparams":
            out[i] = _real_mutparams(c)
        elif c["kind"] == "descfx":
            out[i] = _real_descfx(c)
        elif c["kind"] == "script":
            out[i] = _real_script(c)
        elif c["kind"] == "nopparams":
            out[i] = _real_nopparams(c)
    return [out[i] for i in range(len(shard))]


def _worker(shard):
    """a case that cannot be completed (the fake raised where it never does on the unchanged tree) is reported, not crashed on"""
    import traceback
    try:
        return _worker_raw(shard)
    except Exception:
        out = []
        for c in shard:
            try:
                out.append(_worker_raw([c])[0])
            except Exception as e:
                out.append({"harness_exception": f"{type(e).__name__}: {str(e)[:300]}", "trace": traceback.format_exc()[-600:]})
        return out


# ------------------------------------------------------------------------------------------------
# comparison
# ------------------------------------------------------------------------------------------------

def _opt(s):
    return None if s == "-" else int(s)


def _check_type(chk, case, real, drv):
    chk.case(("type", case["sql"], str(case["params"]), case.get("paramstyle")), nontrivial=True)
    chk.count(f"type:{case['form']}")
    where = f"`{case['sql']}`" + (f" with params {case['params']!r}" if case["params"] else "") + (f" (paramstyle {case['paramstyle']})" if case.get("paramstyle") else "")
    if "exec_error" in real:
        chk.count("type:statement-rejected")
        return
    duck = real["duck_types"]
    replies = [drv.ask("descr", "col", enc_str(t)) for t in duck]
    for t in duck:
        chk.count(f"ducktype:{'DECIMAL(p,s)' if t.startswith('DECIMAL(') else t}")
    want = []
    for t, r in zip(duck, replies):
        if r["impl"] == "raise":
            want = "raises NotImplementedError"
            break
        code, prec, scale, length = r["impl"].split("|")
        want.append([int(code), _opt(prec), _opt(scale), _opt(length)])
    got = real["description"]
    got_cmp = [m[1:] for m in got] if isinstance(got, list) else got
    if got_cmp != want:
        if want == "raises NotImplementedError" and got == "raises NotImplementedError":
            pass
        else:
            chk.violation(f"{where}: DuckDB types {duck}: description (type_code, precision, scale, internal_size) = {got_cmp} but types.py's table gives {want}", case,
                          broken="C06_type_table / C06_decimal_parse (correspondence with Fs.Types.asColumnInfo)")
            return
    if want == "raises NotImplementedError":
        bad = [t for t, r in zip(duck, replies) if r["impl"] == "raise"]
        chk.finding("C06/type-unmapped", f"{where}: DuckDB result type {bad} has no Snowflake mapping: description raises NotImplementedError after a successful execute", case)
        return
    names = [m[0] for m in got]
    if real["describe"] != got:
        chk.violation(f"{where}: describe(sql) = {real['describe']} differs from description after execute = {got}", case, broken="C06_describe_eq_description")
        return
    if real["dict_keys"] is not None and real["dict_keys"] != names and len(set(names)) == len(names):
        chk.violation(f"{where}: description names {names} differ from DictCursor keys {real['dict_keys']}", case, broken="C06 names = DictCursor keys (correspondence)")
        return
    if real["width"] is not None and real["width"] != len(got):
        chk.violation(f"{where}: {len(got)} description entries for rows of width {real['width']}", case, broken="C06 one entry per result column (correspondence)")
        return
    # Python types of the fetched values
    for i, (t, r) in enumerate(zip(duck, replies)):
        seen = real["pytypes"][i] if real["pytypes"] else []
        if not seen:
            continue
        if r["py"] == "-":
            continue
        if seen != [r["py"]]:
            chk.violation(f"{where}: column {names[i]} of DuckDB type {t} is fetched as {seen}, the model of pyarrow's conversion says {r['py']}", case,
                          broken="pyOf (modelled engine behaviour) — correspondence", failing_input=True)
            return
        if r["agrees"] == "0":
            chk.finding("C06/fixed-scale0-decimal-value", f"{where}: column {names[i]} is described as type_code {got[i][1]} scale {got[i][3]} (DuckDB {t}) but its values are fetched as {seen[0]}", case)
            return


def _check_stmt(chk, case, real, drv):
    chk.case(("stmt", case["name"], case["point"]), nontrivial=True)
    chk.count(f"kind:{case['mkind']}")
    chk.count(f"stmt:{case['name']}")
    chk.count(f"point:{case['point']}")
    w, twin = real["with"], real["twin"]
    if "exec_error" in w or "exec_error" in twin:
        chk.count("stmt:statement-rejected")      # not a successfully executed statement: no demand
        return
    model = drv.ask("descr", "kind", case["mkind"])["describe"]
    where = f"`{case['sql']}` (description read {case['point']}" + (f", after {case['setup']}" if case["setup"] else "") + ")"
    d = w["description"]
    if case["sql"] is None:
        got = "raises" if isinstance(d, str) else "none"
        if got == "raises":
            (chk.finding if model == "raises" else chk.violation)(FINDING_OF_KIND["beforeExecute"], "description before any execute raises instead of returning None", case)
        return
    # purity first: same rows / rowcount as the twin that never read description, bystander cursor intact, state unchanged
    if w["rows"] != twin["rows"] or w["rowcount"] != twin["rowcount"] or w["rowcount_after"] != twin["rowcount_after"]:
        if True:
            chk.violation(f"{where}: reading description changed the pending result set: rows {w['rows']} / rowcount {w['rowcount_after']} vs {twin['rows']} / {twin['rowcount_after']} without it", case,
                          broken="C06_description_pure (correspondence)")
            return
    if w["other_rest"] != twin["other_rest"] or w.get("state_changed"):
        chk.violation(f"{where}: reading description/describe changed another cursor's pending rows or the data/session: {w['other_rest']} vs {twin['other_rest']}, state_changed={w.get('state_changed')}", case,
                      broken="C06_description_pure / C06_describe_pure (correspondence)")
        return
    if w.get("sqlstate") is not None:
        chk.violation(f"{where}: cursor.sqlstate {w['sqlstate']!r} after reading description", case, broken="C06_description_pure (correspondence)")
        return
    if isinstance(d, list):
        ok_result = (w["width"] is None or w["width"] == len(d)) and w.get("again", True) and (w.get("dict_keys") is None or w["dict_keys"] == [m[0] for m in d] or len({m[0] for m in d}) != len(d))
        got = "ofResult" if ok_result else "ofOther"
    else:
        got = "raises"
    if got == "ofResult":
        if model != "ofResult":
            chk.notes.append(f"{case['name']}: description now available although the model says {model} (defect no longer reproduces)")
        if isinstance(w["describe"], list) and w["describe"] != d and case["mkind"] == "query":
            chk.violation(f"{where}: describe(sql) {w['describe']} differs from description {d}", case, broken="C06_describe_eq_description")
        return
    what = f"{where}: description {'raises' if got == 'raises' else 'describes another statement'}: {d}; rows fetched have width {w['width']}"
    key = FINDING_OF_KIND.get(case["mkind"])
    if key and got == model:
        chk.finding(key, what, case)
    elif isinstance(d, str) and "NotImplementedError" in d:
        chk.finding("C06/type-unmapped", what, case)
    else:
        chk.violation(what, case, broken="C06_available_partial (correspondence with Fs.Types.describeLast)")


def _check_reexec(chk, case, real, drv):
    chk.case(("reexec", case["name"]), nontrivial=True)
    chk.count(f"reexec:{case['name'].split('-')[0]}")
    shown = [(st[1], st[2]) if st[0] != "other" else ("(other cursor)", st[1]) for st in case["steps"]]
    for i, (step, r) in enumerate(zip(case["steps"], real)):
        if r is None:
            continue
        if "exec_error" in r:
            chk.count("reexec:statement-rejected")
            return
        where = f"one cursor, paramstyle {case['paramstyle']}, steps {shown}: after step #{i} `{step[1]}` with params {step[2]!r}"
        d = r["description"]
        if isinstance(d, str):
            chk.violation(f"{where}: description {d}", case, broken="C06_available_partial (correspondence)")
            return
        if "fresh" in r and d != r["fresh"]:
            chk.violation(f"{where}: description {d} but a fresh cursor executing the same statement now gets {r['fresh']} (stale metadata of an earlier execution)", case,
                          broken="C06_description_last_only (correspondence with Fs.Descr.description)")
            return
        if r["width"] is not None and r["width"] != len(d):
            chk.violation(f"{where}: {len(d)} description entries for rows of width {r['width']}", case, broken="C06_description_last_only / one entry per result column")
            return
        if r.get("dict_keys") is not None and r["dict_keys"] != [m[0] for m in d]:
            chk.violation(f"{where}: description names {[m[0] for m in d]} differ from DictCursor keys {r['dict_keys']}", case, broken="C06 names = DictCursor keys (correspondence)")
            return


def _check_seedpure(chk, case, real, drv):
    chk.case(("seedpure", case["name"]), nontrivial=True)
    chk.count(f"seedpure:{case['op'][0]}")
    w, twin = real["with"], real["twin"]
    if w["random"] != twin["random"]:
        chk.violation(f"`select random(7)` then {case['op'][0]}(`{case['op'][1]}`) then three `select random()`: values {w['random']} but {twin['random']} without the "
                      f"{case['op'][0]} - reading metadata reseeded the session's random generator", case,
                      broken="C06_describe_pure / C06_describe_sends_no_setseed / C06_description_pure (correspondence)")


def _check_mutparams(chk, case, real, drv):
    chk.case(("mutparams", case["name"]), nontrivial=True)
    chk.count("mutparams")
    for i, r in enumerate(real["reads"]):
        if r != real["want"]:
            done = case["mutations"][:i]
            chk.violation(f"qmark `{case['sql']}` executed with the caller's list {case['params']!r}; after the caller did {done} to that list (no execute in between), "
                          f"description read #{i} = {r} but the executed statement's description is {real['want']}", case,
                          broken="C06_description_stable / C06_description_last_only (correspondence)")
            return


def _check_script(chk, case, real, drv):
    chk.case(("script", case["name"]), nontrivial=True)
    chk.count("script:statements", len(case["stmts"]))
    if real["n"] != len(case["stmts"]):
        chk.violation(f"execute_string of {case['stmts']} returned {real['n']} cursors for {len(case['stmts'])} statements", case, broken="C06_script_cursor_own_description (correspondence)")
        return
    for i, (q, a, b) in enumerate(zip(case["stmts"], real["script"], real["single"])):
        if a != b:
            chk.violation(f"conn.execute_string({case['stmts']}): the cursor returned for statement #{i} `{q}` has description/width {a}, but executed on its own "
                          f"cursor the statement gives {b}", case, broken="C06_script_cursor_own_description (correspondence)")
            return


def _check_declared(chk, case, real, drv):
    chk.case(("declared", case["spelling"]), nontrivial=True)
    chk.count(f"declared:{case['dkind']}")
    o = lambda v: "-" if v is None else str(v)
    m = drv.ask("descr", "decl", case["dkind"], o(case["p"]), o(case["s"]))
    spec = [None if x == "-" else int(x) for x in m["spec"].split("|")]
    impl = "raises" if m["impl"] == "raise" else [None if x == "-" else int(x) for x in m["impl"].split("|")]
    for how, r in real.items():
        if "rejected" in r:
            chk.count("declared:statement-rejected")
            continue
        for what in ("description", "describe"):
            got = "raises" if isinstance(r[what], str) else r[what]
            if got == spec:
                continue
            text = (f"declared type `{case['spelling']}` ({how}): {what} reports (type_code, precision, scale) = {r[what]} but the declared type demands {spec}")
            if m["finding"] != "-" and got == impl:
                chk.finding(m["finding"], text, case)
            else:
                chk.violation(text, case, broken="C06_declared_partial (correspondence with Fs.Descr.toDuck / describedCore)")
            return


def _check_nopparams(chk, case, real, drv):
    chk.case(("nopparams", case["style"], case["sql"], str(case["params"])), nontrivial=True)
    chk.count(f"nop_regexes+params:{case['style']}")
    where = f"`{case['sql']}` with params {case['params']!r} (paramstyle {case['style']}, matched by nop_regexes)"
    if "exec_error" in real:
        chk.violation(f"{where}: execute raised {real['exec_error']} instead of answering with the success row", case, broken="C06_available_partial (no-op'd statements; correspondence)")
        return
    want = [["status", 2, None, None, 16777216]]
    if real["rows"] != [["Statement executed successfully."]] or real["rowcount"] != 1:
        chk.violation(f"{where}: rows {real['rows']}, rowcount {real['rowcount']} instead of the one success row", case, broken="C06_available_partial (no-op'd statements; correspondence)")
        return
    model = drv.ask("descr", "kind", "statusSelect")["describe"]
    for i, d in enumerate(real["reads"]):
        if d != want:
            chk.violation(f"{where}: description read #{i} = {d}; the statement's result is the success row, so description must be {want} (model: {model})", case,
                          broken="C06_available_partial / C06_description_stable (no-op'd statements with parameters; correspondence)")
            return


def _check_descfx(chk, case, real, drv):
    chk.case(("descfx", case["name"]), nontrivial=True)
    chk.count(f"describe():{case['mkind']}")
    if real["changed"]:
        chk.violation(f"cursor.describe(`{case['sql']}`) changed the state: {real['changed']} (describe must not execute the statement)", case,
                      broken="C06_describe_pure (correspondence)")
        return
    model = drv.ask("descr", "dkind", case["mkind"])["describe"]
    got = "raises" if isinstance(real["describe"], str) else "ofResult"
    if got == "ofResult":
        return
    what = f"cursor.describe(`{case['sql']}`) {real['describe']} instead of returning the description the statement would have (state unchanged)"
    if model == "raises":
        chk.finding("C06/describe-non-query", what, case)
    else:
        chk.violation(what, case, broken="C06_describe_partial (correspondence with Fs.Descr.describeOf)")


def _corpus():
    import json
    d = common.CORPUS / "C06"
    return [json.loads(f.read_text())["case"] for f in sorted(d.glob("*.json"))] if d.is_dir() else []


CHECKS = {"type": _check_type, "stmt": _check_stmt, "reexec": _check_reexec, "seedpure": _check_seedpure, "mutparams": _check_mutparams, "descfx": _check_descfx, "script": _check_script, "declared": _check_declared, "nopparams": _check_nopparams}


def _dispatch(chk, c, r, drv):
    if isinstance(r, dict) and "harness_exception" in r:
        chk.violation(f"case {c.get('name', c.get('sql'))!r} ({c['kind']}) could not be completed - the fake raised where it does not on the unchanged tree: "
                      f"{r['harness_exception']}", {**c, "trace": r["trace"]}, broken="C06 correspondence (case aborted)")
        return
    CHECKS[c["kind"]](chk, c, r, drv)


def run(chk) -> None:
    cases = _corpus() + type_queries(chk) + kind_cases() + reexec_cases() + seedpure_cases() + mutparams_cases() + descfx_cases() + script_cases() + declared_cases(chk) + nopparams_cases()
    chk.rule = ("A: every declared column type, every DECIMAL(p,s) 1<=p<=38 (quick: boundary + 120 sampled; thorough: all 741), 42 expression forms, 21 aggregate/arithmetic "
                "forms, 6 bound-parameter forms: description vs types.py model on DuckDB's DESCRIBE types, describe(sql), DictCursor keys, width, Python types; "
                "B: 56 statement kinds (incl. ALTER TABLE/VIEW/SESSION forms) x 3 read points with a twin that never reads description; C: purity snapshots; "
                "D: re-execution of the same text on one cursor after the shape changed (ALTER/REPLACE through another cursor or an unread statement) or with differently "
                "typed parameters under qmark/pyformat/format, compared with a fresh cursor; E: the session's seeded random() sequence around describe()/description.  non-trivial = every case")
    shards = common.chunks(cases, 16)
    reals = common.shard_map(_worker, shards)
    drv = common.Driver()
    try:
        for shard, rs in zip(shards, reals):
            for c, r in zip(shard, rs):
                _dispatch(chk, c, r, drv)
    finally:
        drv.close()
    chk.exhaustive = True
    chk.extra["exhaustive_part"] = "the duckdb_to_sf_type dictionary (every key reached through a real query), all statement kinds of the sweep x 3 read points" + (
        "; all 741 DECIMAL(p,s)" if chk.tier != "quick" else "")
    chk.samples = [c for c in cases if c["kind"] == "type"][30:33] + [c for c in cases if c["kind"] == "stmt"][50:52]
    chk.trusted += ["DuckDB's DESCRIBE typing of result columns (read back through `describe <sql>` on every case)",
                    "pyarrow to_pylist Python types per DuckDB type (Fs.Types.pyOf) - compared with the fetched values on every case",
                    "DESCRIBE <query> does not execute the query or change engine state (checked by snapshots + bystander cursor on every statement kind)"]
    chk.assumptions = ["description is compared field by field: name, type_code, precision, scale, internal_size (display_size/is_nullable are constants in types.py)"]


def replay(chk, case) -> None:
    reals = _worker([case])
    drv = common.Driver()
    try:
        _dispatch(chk, case, reals[0], drv)
    finally:
        drv.close()
