"""C19 — concurrent sessions behave as if their statements ran one at a time  (partial: real thread scheduling not modelled).

Correspondence: real fakesnow sessions run in real threads under a **deterministic turn-based scheduler**: the DuckDB
connection handed to FakeSnow is wrapped (from the harness, by subclassing fakesnow.instance.FakeSnow) in a proxy whose
`execute` is a yield point for the engine calls the model knows (Fs.Sched: probes, ATTACH, info-schema DDL, CREATE
SCHEMA/TABLE, side-table upsert, INSERT/UPDATE, SELECT of rows / metadata); any `threading.Lock` attribute of the
instance (the connect lock) is wrapped so that acquire/release are yield points and a blocked acquire is a stutter.
Only the granted thread runs; a schedule is the list of grants.  Each (scenario, schedule) is run on a fresh instance
and through `Fs.Sched.runSched`; the statement results of every thread and the final tables are compared with the
model's prediction and with the set of outcomes of all statement-level orders (`runStmts`).
Free-running multi-threaded stress (no scheduler) is supporting evidence only.
"""
from __future__ import annotations

import json
import random
import threading
import time

from lib import common

TURN_TIMEOUT = 60.0
MAX_GRANTS = 400


# ------------------------------------------------------------------------------------------------
# deterministic scheduler
# ------------------------------------------------------------------------------------------------

class Sched:
    def __init__(self, n: int):
        self.cv = threading.Condition()
        self.state = ["new"] * n          # new | running | parked | done
        self.granted = [False] * n
        self.blocked = [False] * n        # last turn was a failed lock acquisition
        self.tids: dict[int, int] = {}    # thread ident -> session id
        self.locks: list = []             # lock proxies in creation order (their index is the lock number)
        self.pending = ["x"] * n          # what the parked session will do when granted (tag, see Fs/Drv/Sched.lean)
        self.trace: list[str] = []        # "<session>:<tag>" per grant

    def me(self):
        return self.tids.get(threading.get_ident())

    def park(self, i: int, tag: str) -> None:
        with self.cv:
            self.pending[i] = tag
            self.state[i] = "parked"
            self.cv.notify_all()
            if not self.cv.wait_for(lambda: self.granted[i], timeout=TURN_TIMEOUT * 10):
                raise common.Infra(f"session {i} was never granted again")
            self.granted[i] = False
            self.state[i] = "running"

    def finish(self, i: int) -> None:
        with self.cv:
            self.state[i] = "done"
            self.cv.notify_all()

    def wait_quiet(self, i: int) -> None:
        with self.cv:
            if not self.cv.wait_for(lambda: self.state[i] in ("parked", "done") and not self.granted[i], timeout=TURN_TIMEOUT):
                raise common.Infra(f"session {i} did not reach a yield point within {TURN_TIMEOUT}s (state {self.state[i]})")

    def grant(self, i: int) -> None:
        """one turn for session i (a stutter when it has finished)"""
        with self.cv:
            if self.state[i] == "done":
                self.trace.append(f"{i}:x")
                return
            self.trace.append(f"{i}:{self.pending[i]}")
            self.blocked[i] = False
            self.granted[i] = True
            self.cv.notify_all()
        self.wait_quiet(i)


class _DuckProxy:
    def __init__(self, inner, sched):
        object.__setattr__(self, "_inner", inner)
        object.__setattr__(self, "_sched", sched)

    def execute(self, sql, *a, **k):
        s = self._sched
        i = s.me()
        tag = tag_of(str(sql)) if i is not None else None
        if tag is not None:
            s.park(i, tag)
        self._inner.execute(sql, *a, **k)
        return self

    def cursor(self):
        return _DuckProxy(self._inner.cursor(), self._sched)

    def __getattr__(self, name):
        return getattr(self._inner, name)


class _LockHang(Exception):
    """the main thread could not get an instance lock within its deadline: some finished session never released it"""


class _LockProxy:
    """acquire and release are yield points; a blocked acquire consumes the turn (stutter)"""

    def __init__(self, inner, sched, used):
        self._inner, self._sched, self._used = inner, sched, used
        self._id = len(sched.locks)
        sched.locks.append(self)

    def acquire(self, blocking=True, timeout=-1):
        s = self._sched
        i = s.me()
        if i is None:
            # the main thread (setup, final reads): a lock that is never released would hang it for ever – bounded wait
            if self._inner.acquire(True, 15):
                return True
            raise _LockHang()
        self._used.append(i)
        while True:
            s.park(i, f"L+{self._id}")
            if self._inner.acquire(False):
                return True
            s.blocked[i] = True

    def release(self):
        s = self._sched
        i = s.me()
        if i is not None:
            s.park(i, f"L-{self._id}")
        self._inner.release()

    def __enter__(self):
        self.acquire()
        return self

    def __exit__(self, *a):
        self.release()

    def locked(self):
        return self._inner.locked()


class _ThreadingShim:
    """stands in for the `threading` module inside fakesnow's modules: every lock created there – at any time, e.g. one
    per database on first use – is a scheduler-aware lock with its own number"""

    def __init__(self, sched, used):
        self._sched, self._used = sched, used

    def Lock(self):  # noqa: N802
        return _LockProxy(threading.Lock(), self._sched, self._used)

    def RLock(self):  # noqa: N802
        return _LockProxy(threading.RLock(), self._sched, self._used)

    def __getattr__(self, name):
        return getattr(threading, name)


def tag_of(sql: str) -> str | None:
    """WHAT an engine call is, for the calls that are scheduling points (None = glued to the preceding call: status
    SELECTs, SET, CREATE MACRO, MERGE's temp table / bogus comment / COUNT, anything read-only the model does not know).
    The tag, not the position of the call within its statement, identifies the scheduling point, so read-only calls
    can be added to or removed from fakesnow without shifting the correspondence."""
    u = " ".join(sql.split()).upper()
    if u.startswith("SELECT") and "INFORMATION_SCHEMA.SCHEMATA" in u and "C19PROBE" not in u:
        return "ps" if "SCHEMA_NAME" in u else "pd"          # connect's existence checks
    if u.startswith("SELECT") and "C19PROBE" in u:
        return "om" if "INFORMATION_SCHEMA" in u else "or"   # the harness's own metadata / row reads
    if u.startswith(("SELECT", "WITH", "SET ", "DESCRIBE", "SHOW", "CREATE MACRO", "CREATE OR REPLACE TEMPORARY TABLE",
                     "BEGIN", "COMMIT", "ROLLBACK")):
        return None
    if u.startswith("ATTACH"):
        return "wa"
    if u.startswith("CREATE TABLE IF NOT EXISTS") and "_FS_TABLES_EXT" in u:
        return "wi"                                           # info_schema.creation_sql
    if u.startswith("CREATE SCHEMA"):
        return "ws"
    if u.startswith("CREATE TABLE") or u.startswith("CREATE OR REPLACE TABLE"):
        return "wt"
    if u.startswith("INSERT INTO") and "_FS_TABLES_EXT" in u:
        return None if "MERGE_CANDIDATES" in u else "wc"
    if u.startswith("INSERT INTO") and "_FS_COLUMNS_EXT" in u:
        return None
    if u.startswith("INSERT INTO"):
        return "wn"
    if u.startswith("UPDATE "):
        return "wu"
    if u.startswith("DELETE "):
        return "wd"
    return None


# ------------------------------------------------------------------------------------------------
# running one (scenario, schedule) on the real stack
# ------------------------------------------------------------------------------------------------

def _stmt_sql(st: str) -> str:
    k, tl = st[0], st[1:]
    if k == "T":
        t, c = tl.split(".")
        return f"create table db1.s1.t{t} (k int, v int)" + (f" comment = 'c{c}'" if c != "-" else "")
    if k == "I":
        t, kk, v = tl.split(".")
        return f"insert into db1.s1.t{t} (k, v) values ({kk}, {v})"
    if k == "C":
        t, c = tl.split(".")
        return f"comment on table db1.s1.t{t} is 'c{c}'"
    if k == "A":
        t, c = tl.split(".")
        return f"alter table db1.s1.t{t} set comment = 'c{c}'"
    if k == "O":
        t, c = tl.split(".")
        return f"create or replace table db1.s1.t{t} (k int, v int) comment = 'c{c}'"
    if k == "Z":
        return "set v19 = 1"
    if k == "R":
        return f"select k, v, 'c19probe' as c19probe from db1.s1.t{tl}"
    if k == "W":
        return (f"select table_name, comment, 'c19probe' as c19probe from db1.information_schema.tables "
                f"where table_schema = 'S1' and table_name = 'T{tl}'")
    if k == "G":
        parts = tl.split(".")
        t, nums = parts[0], parts[1:]
        rows = [(nums[i], nums[i + 1]) for i in range(0, len(nums), 2)]
        src = " union all ".join((f"select {a} as k, {b} as v" if i == 0 else f"select {a}, {b}") for i, (a, b) in enumerate(rows))
        return (f"merge into t{t} using ({src}) as src on t{t}.k = src.k when matched then update set v = src.v "
                f"when not matched then insert (k, v) values (src.k, src.v)")
    raise common.Infra(f"bad statement {st}")


def _exec_stmt(conn_box: list, st: str) -> str | None:
    """returns the observable result of one statement: None (nothing), 'E', 'r…', 'm…'"""
    import snowflake.connector
    try:
        if st == "N!":      # a connect whose bootstrap raises (a database name DuckDB cannot parse); the session goes on without it
            snowflake.connector.connect(database="my-db", schema="s1")
            return None
        if st == "Nz":      # a connect that asks for its own time zone (a session-level setting of THAT session)
            conn_box[0] = snowflake.connector.connect(database="db1", schema="s1", timezone="America/New_York")
            return None
        if st == "H":       # session-setting probe: how this session renders a TIMESTAMP_TZ (always UTC: hour 12)
            cur = conn_box[0].cursor()
            cur.execute("select extract(hour from '2020-06-01 12:00:00+00:00'::timestamptz) as c19probe")
            h = cur.fetchall()[0][0]
            return None if h == 12 else f"h{h}"
        if st == "Q":       # the session closes its connection; the others go on
            conn_box[0].close()
            return None
        if st == "N-":      # opened without database/schema: every statement of the scenarios uses fully qualified names
            conn_box[0] = snowflake.connector.connect()
            return None
        if st[0] == "N":
            body, sp = (st[1:-1], st[-1]) if st[-1] in "ulm" else (st[1:], "l")
            d, s = body.split(".")
            spell = {"l": str.lower, "u": str.upper, "m": str.capitalize}[sp]
            conn_box[0] = snowflake.connector.connect(database=spell(f"db{d}"), schema=spell(f"s{s}"))
            return None
        if conn_box[0] is None:
            return "E"
        cur = conn_box[0].cursor()
        cur.execute(_stmt_sql(st))
        rows = cur.fetchall()
        if st[0] == "R":
            return "r" + ":".join(f"{a}.{b}" for a, b, _ in sorted(rows))
        if st[0] == "W":
            if not rows:
                return "m0.-"
            c = rows[0][1]
            return "m1." + ("-" if c is None else str(c)[1:])
        return None
    except Exception:  # every exception is an observation
        return "E"


def _run_real(job) -> dict:
    """job = {init, progs, sched (list of grants), preconnect}"""
    import fakesnow
    import fakesnow.instance
    import snowflake.connector
    n = len(job["progs"])
    sched = Sched(n)

    class ScheduledFakeSnow(fakesnow.instance.FakeSnow):
        def __init__(self, *a, **k):
            super().__init__(*a, **k)
            self.duck_conn = _DuckProxy(self.duck_conn, sched)
            lock_types = (type(threading.Lock()), type(threading.RLock()))
            for name, v in list(vars(self).items()):
                if isinstance(v, lock_types):     # locks created through `from threading import Lock`
                    setattr(self, name, _LockProxy(v, sched, has_lock))

    orig = fakesnow.FakeSnow
    fakesnow.FakeSnow = ScheduledFakeSnow
    results: list[list[str]] = [[] for _ in range(n)]
    has_lock: list[str] = []
    errors: list[str] = []
    import sys as _sys
    shimmed = []
    for mname, mod in list(_sys.modules.items()):
        if mname.startswith("fakesnow") and getattr(mod, "threading", None) is threading:
            mod.threading = _ThreadingShim(sched, has_lock)
            shimmed.append(mod)
    cd, cs = job.get("flags", [True, True])
    import shutil as _shutil
    import tempfile as _tempfile
    tmpdir = _tempfile.mkdtemp(prefix="c19-") if job["name"].endswith("-dbpath") else None
    try:
        with fakesnow.patch(create_database_on_connect=cd, create_schema_on_connect=cs, db_path=tmpdir):
            # setup by the main thread (not scheduled)
            init = [x for x in job["init"].split(",") if x and x != "-"]
            setup = None
            if init:
                if cd and cs:
                    setup = snowflake.connector.connect(database="db1", schema="s1")
                    sc = setup.cursor()
                else:
                    setup = snowflake.connector.connect()
                    sc = setup.cursor()
                    sc.execute("create database db1")
                    if any(x.startswith("S") for x in init):
                        sc.execute("create schema db1.s1")
                for x in init:
                    if x[0] == "T":
                        t, *rows = x[1:].split(":")
                        sc.execute(f"create table db1.s1.t{t} (k int, v int)")
                        if rows:
                            sc.execute(f"insert into db1.s1.t{t} (k, v) values " + ",".join(f"({r.split('.')[0]},{r.split('.')[1]})" for r in rows))
            boxes = []
            for p in job["progs"]:
                if p and p[0][0] == "N":
                    boxes.append([None])
                else:
                    boxes.append([snowflake.connector.connect(database="db1", schema="s1")])

            def body(i: int):
                sched.tids[threading.get_ident()] = i
                try:
                    for st in job["progs"][i]:
                        r = _exec_stmt(boxes[i], st)
                        if r is not None:
                            results[i].append(r)
                except common.Infra as e:
                    errors.append(str(e))
                finally:
                    sched.finish(i)

            threads = [threading.Thread(target=body, args=(i,), daemon=True) for i in range(n)]
            for i, t in enumerate(threads):
                with sched.cv:
                    sched.state[i] = "running"
                t.start()
                sched.wait_quiet(i)       # runs up to its first yield point, alone
            for i in job["sched"]:
                sched.grant(i)
            # completion: finish the sessions one after the other (moving on when one is blocked on the lock)
            grants = 0
            while any(s != "done" for s in sched.state):
                progressed = False
                for i in range(n):
                    while sched.state[i] != "done":
                        sched.grant(i)
                        grants += 1
                        if grants > MAX_GRANTS:
                            raise common.Infra(f"schedule did not terminate after {MAX_GRANTS} extra grants: states {sched.state}")
                        if sched.blocked[i]:
                            break
                        progressed = True
                if not progressed and all(sched.blocked[i] or sched.state[i] == "done" for i in range(n)):
                    # every unfinished session waits for a lock whose holder has finished: they would hang for ever
                    return {"outs": "|".join(",".join(r) for r in results), "final": "", "trace": list(sched.trace), "locked": True,
                            "deadlock": [i for i in range(n) if sched.state[i] != "done"]}
            for t in threads:
                t.join(timeout=TURN_TIMEOUT)
            if errors:
                raise common.Infra("; ".join(errors))
            # final state, read by the main thread on a fresh connection
            try:
                fin = snowflake.connector.connect(database="db1", schema="s1")
            except _LockHang:
                return {"outs": "|".join(",".join(r) for r in results), "final": "", "trace": list(sched.trace), "locked": True,
                        "deadlock": ["a later connect() from the main thread"]}
            fc = fin.cursor()
            final = []
            for t in job["tables"]:
                fc.execute(f"select table_name, comment from db1.information_schema.tables where table_schema = 'S1' and table_name = 'T{t}'")
                meta = fc.fetchall()
                if not meta:
                    final.append(f"{t}:absent")
                    continue
                fc.execute(f"select k, v from db1.s1.t{t}")
                rows = sorted(fc.fetchall())
                c = meta[0][1]
                final.append(f"{t}:{'-' if c is None else str(c)[1:]}:" + ":".join(f"{a}.{b}" for a, b in rows))
            return {"outs": "|".join(",".join(r) for r in results), "final": ",".join(final), "trace": list(sched.trace), "locked": bool(has_lock)}
    finally:
        fakesnow.FakeSnow = orig
        for mod in shimmed:
            mod.threading = threading
        if tmpdir:
            _shutil.rmtree(tmpdir, ignore_errors=True)


def _forked(fn, arg, timeout: float):
    """run fn(arg) in a forked child with a hard deadline; a hang is an infrastructure timeout (exit 2), never a verdict"""
    import os
    import select
    import signal
    r, w = os.pipe()
    pid = os.fork()
    if pid == 0:
        code = 0
        try:
            os.close(r)
            os.write(w, json.dumps({"ok": fn(arg)}).encode())
        except common.Infra as e:
            os.write(w, json.dumps({"infra": str(e)}).encode())
        except BaseException as e:  # noqa: BLE001
            os.write(w, json.dumps({"infra": f"{type(e).__name__}: {str(e)[:300]}"}).encode())
            code = 3
        finally:
            os._exit(code)
    os.close(w)
    chunks, deadline = [], time.time() + timeout
    while True:
        left = deadline - time.time()
        if left <= 0:
            os.kill(pid, signal.SIGKILL)
            os.waitpid(pid, 0)
            os.close(r)
            return {"timeout": True}
        ready, _, _ = select.select([r], [], [], min(left, 5.0))
        if ready:
            b = os.read(r, 1 << 16)
            if not b:
                break
            chunks.append(b)
    os.close(r)
    _, status = os.waitpid(pid, 0)
    try:
        return json.loads(b"".join(chunks).decode())
    except ValueError:
        if os.WIFSIGNALED(status):
            return {"crashed": f"process killed by signal {os.WTERMSIG(status)}"}
        return {"infra": f"child died without a result (status {status})"}


def _warm() -> None:
    """import everything once in the worker so that forked children start warm (no DuckDB connection is opened here)"""
    import duckdb  # noqa: F401
    import fakesnow  # noqa: F401
    import fakesnow.instance  # noqa: F401
    import pyarrow  # noqa: F401
    import snowflake.connector  # noqa: F401


def _worker(shard):
    _warm()
    out = []
    for j in shard:
        r = _forked(_run_real, j, 180.0)
        if "ok" not in r:
            raise common.Infra(f"scheduled run of {j['name']} under {j['sched']}: {r}")
        out.append(r["ok"])
    return out


# ------------------------------------------------------------------------------------------------
# free-running stress (supporting evidence)
# ------------------------------------------------------------------------------------------------

def _stress_round(args) -> dict:
    import fakesnow
    import snowflake.connector
    nthreads, ninserts, seed = args
    errs: list[str] = []
    slow: list[int] = []
    with fakesnow.patch():
        main = snowflake.connector.connect(database="shared", schema="s0")
        main.cursor().execute("create table shared.s0.log (tid int, n int)")
        barrier = threading.Barrier(nthreads)

        def w(tid: int):
            try:
                try:
                    barrier.wait(timeout=100)
                except threading.BrokenBarrierError:
                    slow.append(tid)
                    return
                # all threads auto-create the same database + schema, each spelling the names in its own letter case
                spell = (str.lower, str.upper, str.capitalize, str.swapcase)[tid % 4]
                if tid % 2 == 1:    # half of the sessions are opened without database/schema (all statements use qualified names)
                    c = snowflake.connector.connect()
                else:
                    c = snowflake.connector.connect(database=spell("newDb"), schema=spell("newS"))
                cur = c.cursor()
                for n in range(ninserts):
                    cur.execute(f"insert into shared.s0.log (tid, n) values ({tid}, {n})")
                cur.execute("select count(*) from shared.s0.log")
                cur.fetchall()
            except Exception as e:  # noqa: BLE001
                errs.append(f"{type(e).__name__}: {str(e)[:120]}")

        ts = [threading.Thread(target=w, args=(i,), daemon=True) for i in range(nthreads)]
        [t.start() for t in ts]
        deadline = time.time() + 120
        for t in ts:
            t.join(timeout=max(0.1, deadline - time.time()))
        hung = sum(t.is_alive() for t in ts)
        if hung or slow:
            # timeouts are infrastructure (exit 2), never a verdict: an overloaded machine must not look like a deadlock
            raise common.Infra(f"stress round (seed {seed}): {hung} threads still running after 120 s, {len(slow)} never passed the barrier")
        cur = main.cursor()
        cur.execute("select count(*), count(distinct tid * 1000 + n) from shared.s0.log")
        total, distinct = cur.fetchall()[0]
    return {"errs": errs, "hung": hung, "total": total, "distinct": distinct, "expect": nthreads * ninserts, "seed": seed}


def _txconflict_round(spec) -> dict:
    """two sessions (one thread each, statements handed over one at a time, so this is deterministic) with overlapping
    explicit transactions; every session keeps a ledger of what it was TOLD.  kinds:
      samekey    – both insert the same PRIMARY KEY value into one table (the later COMMIT must raise)
      difftables – they insert into DIFFERENT tables (nothing may fail), optionally on an instance with db_path
      varchar    – they CREATE different tables with VARCHAR(n) columns, one of them inside its transaction (nothing may
                   fail, the declared lengths must be recorded)"""
    import queue
    import shutil
    import tempfile
    import fakesnow
    import snowflake.connector
    told: dict[str, str] = {}
    tmp = tempfile.mkdtemp(prefix="c19-") if spec.get("dbpath") else None
    try:
        with (fakesnow.patch(db_path=tmp) if tmp else fakesnow.patch()):
            main = snowflake.connector.connect(database="shared", schema="s0")
            mc = main.cursor()
            mc.execute("create table shared.s0.pk (k int primary key, who varchar)")
            mc.execute("create table shared.s0.pkb (k int primary key, who varchar)")
            conns = {n: snowflake.connector.connect(database="shared", schema="s0") for n in "ab"}
            inbox = {n: queue.Queue() for n in "ab"}
            outbox: queue.Queue = queue.Queue()

            def session(n: str):
                cur = conns[n].cursor()
                while True:
                    cmd = inbox[n].get()
                    if cmd is None:
                        return
                    try:
                        if cmd == "api-commit":
                            conns[n].commit()
                        else:
                            cur.execute(cmd)
                            cur.fetchall()
                        outbox.put("ok")
                    except Exception as e:  # noqa: BLE001
                        outbox.put(f"raised {type(e).__name__}: {str(e)[:80]}")

            ts = {n: threading.Thread(target=session, args=(n,), daemon=True) for n in "ab"}
            [t.start() for t in ts.values()]

            def do(n: str, cmd: str) -> str:
                inbox[n].put(cmd)
                try:
                    return outbox.get(timeout=TURN_TIMEOUT)
                except queue.Empty:
                    raise common.Infra(f"session {n} did not answer `{cmd}` within {TURN_TIMEOUT}s") from None

            k, kind = spec["key"], spec["kind"]
            commit = "api-commit" if spec["api"] else "commit"
            if kind == "varchar":
                a, b = spec["commit_order"][0], spec["commit_order"][1]     # a works inside a transaction, b in autocommit
                told[f"begin_{a}"] = do(a, "begin")
                told[f"create_{a}"] = do(a, f"create table shared.s0.v{a} (k int, s varchar({k + 3}))")
                told[f"create_{b}"] = do(b, f"create table shared.s0.v{b} (k int, s varchar({k + 13}))")
                told[f"commit_{a}"] = do(a, commit)
            else:
                tbl = {"a": "pk", "b": "pk" if kind == "samekey" else "pkb"}
                for n in spec["begin_order"]:
                    told[f"begin_{n}"] = do(n, "begin")
                for n in spec["insert_order"]:
                    told[f"insert_{n}"] = do(n, f"insert into shared.s0.{tbl[n]} (k, who) values ({k}, '{n}'), ({k + (10 if n == 'a' else 20)}, '{n}')")
                for n in spec["commit_order"]:
                    told[f"commit_{n}"] = do(n, commit)
                    if told[f"commit_{n}"] != "ok":
                        do(n, "rollback")
            for n in "ab":
                inbox[n].put(None)
            mc.execute("select k, who from shared.s0.pk union all select k, who from shared.s0.pkb")
            rows = sorted(mc.fetchall())
            mc.execute("select table_name, character_maximum_length from information_schema.columns "
                       "where table_schema = 'S0' and column_name = 'S' order by 1")
            lens = [list(r) for r in mc.fetchall()]
        return {"told": told, "rows": [list(r) for r in rows], "lens": lens}
    finally:
        if tmp:
            shutil.rmtree(tmp, ignore_errors=True)


def _txconflict_worker(shard):
    _warm()
    out = []
    for spec in shard:
        r = _forked(_txconflict_round, spec, 180.0)
        if "ok" not in r:
            raise common.Infra(f"transaction-conflict round {spec}: {r}")
        out.append(r["ok"])
    return out


def _check_txconflict(chk, spec, r) -> None:
    case = {"name": "txconflict", "spec": spec}
    chk.case(("txconflict", json.dumps(spec, sort_keys=True)), nontrivial=True, sample=case)
    chk.count("scenario:tx-" + spec["kind"] + ("-dbpath" if spec.get("dbpath") else ""))
    told, k, kind = r["told"], spec["key"], spec["kind"]
    where = " on an instance with db_path" if spec.get("dbpath") else ""
    if kind == "varchar":
        a, b = spec["commit_order"][0], spec["commit_order"][1]
        want = sorted([[f"V{a.upper()}", k + 3], [f"V{b.upper()}", k + 13]])
        failed = {s_: t for s_, t in told.items() if t != "ok"}
        if failed or r["lens"] != want:
            chk.violation(f"two sessions{where} creating DIFFERENT tables with VARCHAR(n) columns (session {a} inside BEGIN…COMMIT: VARCHAR({k + 3}); "
                          f"session {b} in autocommit: VARCHAR({k + 13})): the sessions were told {told}; recorded lengths {r['lens']}, declared {want} "
                          f"(in every one-at-a-time order nothing fails and both lengths are recorded)", case,
                          broken="C19 no statement fails because of a race / multi-call CREATE TABLE not torn")
        return
    promised = []
    for n in "ab":
        if told.get(f"insert_{n}") == "ok" and told.get(f"commit_{n}") == "ok":
            promised += [[k, n], [k + (10 if n == "a" else 20), n]]
    found = r["rows"]
    desc = (f"two sessions{where} with overlapping transactions inserting "
            f"{'the same PRIMARY KEY ' + str(k) if kind == 'samekey' else 'into DIFFERENT tables'} (begin {spec['begin_order']}, insert "
            f"{spec['insert_order']}, commit {spec['commit_order']} via {'conn.commit()' if spec['api'] else 'COMMIT'}): the sessions were told {told}; "
            f"the tables hold {found}")
    if sorted(promised) != sorted(found):
        lost = [x for x in promised if x not in found]
        extra = [x for x in found if x not in promised]
        chk.violation(f"{desc} - rows of sessions told 'committed' that are lost: {lost}; rows present although their session was told the "
                      f"COMMIT failed: {extra}", case, broken="C19 no lost inserts (what a session is told vs the table)")
    elif kind == "difftables" and any(t != "ok" for t in told.values()):
        chk.violation(f"{desc} - a statement failed although the sessions touch different tables (in every one-at-a-time order all succeed)",
                      case, broken="C19 no statement fails because of a race")


def _first_connects_round(args) -> dict:
    """the very FIRST connects of a patch() block arrive from N threads at once (released by a barrier); a designated
    creator then makes a table, everybody inserts into it: all sessions must be talking to one account"""
    import sys as _sys
    import fakesnow
    import snowflake.connector
    nthreads, seed = args
    errs: list[str] = []
    slow: list[int] = []
    old = _sys.getswitchinterval()
    with fakesnow.patch():
        barrier = threading.Barrier(nthreads)
        created = threading.Event()
        conns: dict[int, object] = {}

        def w(tid: int):
            try:
                try:
                    barrier.wait(timeout=100)
                except threading.BrokenBarrierError:
                    slow.append(tid)
                    return
                c = snowflake.connector.connect(database="acct", schema="s")
                conns[tid] = c
                cur = c.cursor()
                if tid == 0:
                    cur.execute("create table acct.s.visits (tid int)")
                    created.set()
                elif not created.wait(timeout=100):
                    slow.append(tid)
                    return
                cur.execute(f"insert into acct.s.visits values ({tid})")
            except Exception as e:  # noqa: BLE001
                errs.append(f"session {tid}: {type(e).__name__}: {str(e)[:100]}")
                created.set()

        ts = [threading.Thread(target=w, args=(i,), daemon=True) for i in range(nthreads)]
        _sys.setswitchinterval(1e-5)
        try:
            [t.start() for t in ts]
            deadline = time.time() + 120
            for t in ts:
                t.join(timeout=max(0.1, deadline - time.time()))
        finally:
            _sys.setswitchinterval(old)
        if slow or any(t.is_alive() for t in ts):
            raise common.Infra(f"first-connect round (seed {seed}): threads did not finish in time")
        seen = []
        if not errs:
            for tid, c in sorted(conns.items()):
                cur = c.cursor()
                cur.execute("select count(*) from acct.s.visits")
                seen.append(cur.fetchall()[0][0])
    return {"errs": errs, "seen": seen, "expect": nthreads, "seed": seed}


def _first_connects_worker(shard):
    _warm()
    out = []
    for a in shard:
        r = _forked(_first_connects_round, a, 200.0)
        if "timeout" in r:
            raise common.Infra(f"first-connect round (seed {a[1]}) did not finish within 200 s")
        if "crashed" in r:
            out.append({"errs": [r["crashed"]], "seen": [], "expect": a[0], "seed": a[1]})
            continue
        if "ok" not in r:
            raise common.Infra(f"first-connect round: {r}")
        out.append(r["ok"])
    return out


def _stress_statements_round(args) -> dict:
    """several sessions (connections made beforehand, one per thread) each run many multi-row INSERTs into their OWN
    table, free-running with a very short thread switch interval, so that threads are switched inside fakesnow's pure
    Python statement processing (parse, rewrite, render) – between, not at, engine calls.  Only exceptions, wrong
    per-statement counts and wrong final contents are failures; nothing is timed."""
    import sys as _sys
    import fakesnow
    import snowflake.connector
    nthreads, nstmts, nrows, seed = args[:4]
    dbpath = len(args) > 4 and bool(args[4])     # instance with db_path, every INSERT inside its own BEGIN … COMMIT
    errs: list[str] = []
    wrong: list[str] = []
    old = _sys.getswitchinterval()
    import shutil as _shutil
    import tempfile as _tempfile
    tmp = _tempfile.mkdtemp(prefix="c19-") if dbpath else None
    with (fakesnow.patch(db_path=tmp) if tmp else fakesnow.patch()):
        main = snowflake.connector.connect(database="shared", schema="s0")
        mc = main.cursor()
        conns = []
        for t in range(nthreads):
            mc.execute(f"create table shared.s0.p{t} (tid int, n int, txt varchar)")
            mc.execute(f"create table shared.s0.m{t} (tid int, n int, txt varchar)")
            mc.execute(f"insert into shared.s0.m{t} values ({t}, 0, 'initial')")
            conns.append(snowflake.connector.connect(database="shared", schema="s0"))
        barrier = threading.Barrier(nthreads)
        slow: list[int] = []

        def w(tid: int):
            try:
                try:
                    barrier.wait(timeout=100)
                except threading.BrokenBarrierError:
                    slow.append(tid)
                    return
                cur = conns[tid].cursor()
                for j in range(nstmts):
                    vals = ", ".join(f"({tid}, {j * nrows + r}, 'session {tid} row {r} (x)')" for r in range(nrows))
                    if dbpath:
                        cur.execute("begin")
                    cur.execute(f"insert into shared.s0.p{tid} (tid, n, txt) values {vals}")
                    got = cur.fetchall()
                    if dbpath:
                        cur.execute("commit")
                    cur.execute(f"comment on table shared.s0.p{tid} is 'c{tid}.{j}'")
                    cur.execute(f"create or replace table shared.s0.r{tid} (k int, s varchar({10 + tid}))")
                    if got != [(nrows,)]:
                        wrong.append(f"session {tid} statement {j}: INSERT of {nrows} rows answered {got!r}")
                # every session also MERGEs into its own second table (same schema as the others' MERGEs)
                for j in range(3):
                    cur.execute(f"merge into m{tid} using (select {j} as n, 'merged by {tid}' as txt) as src on m{tid}.n = src.n "
                                f"when matched then update set txt = src.txt when not matched then insert (tid, n, txt) values ({tid}, src.n, src.txt)")
                    cur.fetchall()
                    cur.execute(f"alter table shared.s0.m{tid} set comment = 'a{tid}.{j}'")
            except Exception as e:  # noqa: BLE001
                errs.append(f"session {tid}: {type(e).__name__}: {str(e)[:120]}")

        ts = [threading.Thread(target=w, args=(i,), daemon=True) for i in range(nthreads)]
        _sys.setswitchinterval(1e-5)
        try:
            [t.start() for t in ts]
            deadline = time.time() + 150
            for t in ts:
                t.join(timeout=max(0.1, deadline - time.time()))
        finally:
            _sys.setswitchinterval(old)
        hung = sum(t.is_alive() for t in ts)
        if hung or slow:
            raise common.Infra(f"statement stress round (seed {seed}): {hung} threads still running, {len(slow)} never passed the barrier")
        if not errs:
            for t in range(nthreads):
                mc.execute(f"select count(*), count(distinct n), min(tid), max(tid) from shared.s0.p{t}")
                cnt, dist, lo, hi = mc.fetchall()[0]
                if (cnt, dist, lo, hi) != (nstmts * nrows, nstmts * nrows, t, t):
                    wrong.append(f"table p{t}: {cnt} rows, {dist} distinct, tid {lo}..{hi}; expected {nstmts * nrows} rows of session {t} only")
                mc.execute(f"select tid, n, txt from shared.s0.m{t} order by n")
                got = mc.fetchall()
                want = [(t, j, f"merged by {t}") for j in range(3)]
                if got != want:
                    wrong.append(f"table m{t} after session {t}'s three MERGEs: {got}; expected {want}")
            mc.execute("select table_name, comment from information_schema.tables where table_schema = 'S0' and table_name not in ('R0','R1','R2','R3') order by 1")
            got = [list(x) for x in mc.fetchall()]
            want = sorted([[f"M{t}", f"a{t}.2"] for t in range(nthreads)] + [[f"P{t}", f"c{t}.{nstmts - 1}"] for t in range(nthreads)])
            if got != want:
                wrong.append(f"table comments {got}; every session commented only its own tables: expected {want}")
            mc.execute("select table_name, character_maximum_length from information_schema.columns where table_schema = 'S0' and column_name = 'S' order by 1")
            got = [list(x) for x in mc.fetchall()]
            want = [[f"R{t}", 10 + t] for t in range(nthreads)]
            if got != want:
                wrong.append(f"VARCHAR lengths of the tables created with CREATE OR REPLACE: {got}; declared {want}")
    if tmp:
        _shutil.rmtree(tmp, ignore_errors=True)
    return {"errs": errs, "wrong": wrong, "seed": seed}


def _stress_statements_worker(shard):
    _warm()
    out = []
    for a in shard:
        r = _forked(_stress_statements_round, a, 300.0)
        if "timeout" in r:
            raise common.Infra(f"statement stress round (seed {a[3]}) did not finish within 300 s")
        if "crashed" in r:
            out.append({"errs": [r["crashed"]], "wrong": [], "seed": a[3]})
            continue
        if "ok" not in r:
            raise common.Infra(f"statement stress round: {r}")
        out.append(r["ok"])
    return out


def _stress_worker(shard):
    _warm()
    out = []
    for a in shard:
        r = _forked(_stress_round, a, 150.0)
        if "timeout" in r:
            # a deadlock of the code under test shows up here as a timeout: exit 2 by the rules (timeouts are never exit 1)
            raise common.Infra(f"free-running stress round (seed {a[2]}) did not finish within 150 s")
        if "crashed" in r:
            out.append({"errs": [r["crashed"]], "hung": 0, "total": -1, "distinct": -1, "expect": a[0] * a[1], "seed": a[2]})
            continue
        if "ok" not in r:
            raise common.Infra(f"stress round: {r}")
        out.append(r["ok"])
    return out


# ------------------------------------------------------------------------------------------------
# scenarios and schedules
# ------------------------------------------------------------------------------------------------

BASE = "D1,S1.1"
TT, FT, TF, FF = [True, True], [False, True], [True, False], [False, False]   # create_database_on_connect, create_schema_on_connect
SCENARIOS = [
    # name, init, programs (connect suffix u/m = the name spelled UPPER / Capitalized), tables observed, flags
    ("connect-same-new-db", "-", [["N1.1"], ["N1.1"]], [], TT),
    ("connect-same-new-db-spellings", "-", [["N1.1"], ["N1.1u"]], [], TT),
    ("connect-three-spellings", "-", [["N1.1"], ["N1.1u"], ["N1.1m"]], [], TT),
    ("connect-same-db-other-schema", "-", [["N1.1"], ["N1.2u"], ["N1.1"]], [], TT),
    ("connect-new-schema-db-exists-nocreate-db", "D1", [["N1.1"], ["N1.1u"]], [], FT),
    ("connect-new-db-nocreate-schema", "-", [["N1.1"], ["N1.1m"]], [], TF),
    ("connect-nothing-created", "D1,S1.1", [["N1.1"], ["N1.1u"]], [], FF),
    ("connect-then-insert", BASE + ",T0", [["N1.1", "I0.1.1", "R0"], ["N1.1u", "I0.2.2"]], [0], TT),
    ("single-call-shared-table", BASE + ",T0:9.9", [["I0.1.1", "R0"], ["I0.2.2", "R0"]], [0], TT),
    ("single-call-three", BASE + ",T0", [["I0.1.1", "R0"], ["R0", "I0.2.2"], ["I0.3.3"]], [0], TT),
    ("disjoint-multi-call", BASE, [["T1.7", "I1.1.1", "G1.1.10.2.20"], ["T2.8", "I2.5.5", "W2"]], [1, 2], TT),
    ("comment-vs-show", BASE, [["T1.7"], ["W1"]], [1], TT),
    ("merge-vs-select", BASE + ",T0:1.1", [["G0.1.10.2.20"], ["R0"]], [0], TT),
    ("create-same-table", BASE, [["T1.-", "I1.1.1"], ["T1.-", "I1.2.2"]], [1], TT),
    # two sessions each running a MERGE (different targets, same schema): the candidates table must be private to each
    ("two-merges", BASE + ",T1:1.1,T2:1.1", [["G1.1.10.2.20"], ["G2.1.30.3.40"]], [1, 2], TT),
    ("two-merges-after-insert", BASE + ",T1:1.1,T2:1.1", [["I1.5.5", "G1.1.10.2.20", "R1"], ["I2.6.6", "G2.1.30.3.40", "R2"]], [1, 2], TT),
    # COMMENT ON / ALTER … SET COMMENT of one session must not leak into later statements of any session (shared AST residue)
    ("comments-then-noops", BASE + ",T1,T2", [["C1.1", "Z", "W2"], ["A2.2", "O2.5", "Z", "W2"]], [1, 2], TT),
    ("comments-cross", BASE + ",T1,T2", [["A1.3", "O1.7", "Z", "W1"], ["C2.4", "Z", "W1", "W2"]], [1, 2], TT),
    # a connect that raises among concurrent connects: the others must not be affected (and must not wait for ever)
    ("failing-connect-among-connects", "-", [["N!", "N1.1"], ["N1.1u"]], [], TT),
    ("failing-connect-three", BASE + ",T0", [["N!"], ["N1.1", "I0.1.1"], ["N1.1m", "R0"]], [0], TT),
    # session-level settings are per session: another session's connect(timezone=…) must not change what this one sees
    ("timezone-of-another-session", BASE, [["N1.1", "H", "H"], ["Nz"]], [], TT),
    # session lifecycle: one session closes its connection while the others on the same database keep working
    ("close-while-others-work", BASE + ",T0", [["N1.1", "I0.5.5", "Q"], ["N1.1", "I0.1.1", "R0"]], [0], TT),
    ("close-while-others-work-dbpath", BASE + ",T0", [["N1.1", "I0.5.5", "Q"], ["N1.1", "I0.1.1", "R0"]], [0], TT),
    ("close-three-dbpath", BASE + ",T0", [["N1.1", "Q"], ["N1.1u", "I0.1.1", "Q"], ["N1.1", "I0.2.2", "R0"]], [0], TT),
    # sessions opened without database/schema (every connection must still get its own engine connection)
    ("sessions-without-database", BASE + ",T0:9.9", [["N-", "I0.1.1", "R0"], ["N-", "I0.2.2", "R0"]], [0], TT),
]


def _patterns2(ta: int, tb: int):
    """two sessions, at most two preemptions: A^a B^b (rest in order) and B^b A^a"""
    for a in range(ta + 1):
        for b in range(tb + 1):
            yield [0] * a + [1] * b
            yield [1] * b + [0] * a


def _patterns3(rnd, n: int, count: int):
    for _ in range(count):
        segs = []
        for _ in range(rnd.randint(1, 4)):
            segs += [rnd.randrange(n)] * rnd.randint(1, 5)
        yield segs


def _jobs(chk) -> list[dict]:
    rnd = random.Random(chk.seed)
    quick = chk.tier == "quick"
    jobs = []
    for f in sorted((common.CORPUS / "C19").glob("*.json")):
        c = json.loads(f.read_text())
        jobs.append({"name": c["name"], "init": c["init"], "progs": c["progs"], "tables": c["tables"], "sched": c["sched"],
                     "flags": c.get("flags", TT)})
    for name, init, progs, tables, flags in SCENARIOS:
        n = len(progs)
        if n == 2:
            pats = list(_patterns2(9, 9))
            seen, uniq = set(), []
            for p in pats:
                if tuple(p) not in seen:
                    seen.add(tuple(p)); uniq.append(p)
            if quick and len(uniq) > 40:
                uniq = rnd.sample(uniq, 40)
        else:
            uniq = list(_patterns3(rnd, n, 30 if quick else 400))
        for p in uniq:
            jobs.append({"name": name, "init": init, "progs": progs, "tables": tables, "sched": p, "flags": flags})
    return jobs


def _lock_episodes(trace: list[str], i: int) -> list[str]:
    """lock numbers session i held, one per acquire…release episode, in order (from the real trace)"""
    eps, cur = [], None
    for t in trace:
        sid, tag = t.split(":", 1)
        if int(sid) != i:
            continue
        if tag.startswith("L+") and cur is None:
            cur = tag[2:]
            eps.append(cur)
        elif tag.startswith("L-"):
            cur = None
    return eps


def _line(job, trace, locked=True) -> str:
    """the model request: programs with the connect flags of the scenario and, per connect, the lock the code really took
    (the model follows the code's locking, it does not presume it); lock tags lose their number"""
    cd, cs = job.get("flags", [True, True])
    progs = []
    for i, p in enumerate(job["progs"]):
        eps = _lock_episodes(trace, i)
        out, k = [], 0
        for st in p:
            if st[0] == "N":
                body = "1.1" if st == "Nz" else st[1:-1] if st[-1] in "ulm" and st not in ("N-", "N!") else st[1:]
                lock = eps[k] if k < len(eps) else "-"
                k += 1
                out.append(f"N{body}/{int(cd)}{int(cs)}/{lock}")
            else:
                out.append(st)
        progs.append(";".join(out))
    mtrace = [(t.split(":")[0] + ":" + ("L+" if t.split(":")[1].startswith("L+") else "L-" if t.split(":")[1].startswith("L-") else t.split(":")[1]))
              for t in trace]
    return "\t".join(["sched", "run", "1", job["init"], "|".join(progs), ",".join(mtrace) or "-"])


def _check(chk, job, real, rep) -> None:
    if "impl" not in rep:
        raise common.Infra(f"driver: {rep}")
    case = {"name": job["name"], "init": job["init"], "progs": job["progs"], "tables": job["tables"], "sched": job["sched"], "flags": job.get("flags", TT), "trace": real["trace"]}
    chk.case((job["name"], tuple(real["trace"])), nontrivial=len({t.split(":")[0] for t in real["trace"]}) > 1,
             sample=case if chk.evaluations % 61 == 3 else None)
    chk.count("scenario:" + job["name"])
    # the model did not get through its programs on the code's trace: the code no longer makes a *write* / lock step the
    # model has (read-only differences are absorbed by the alignment)
    steps_differ = rep.get("done") != "1"
    if real.get("deadlock") is not None:
        chk.violation(f"scenario {job['name']}: sessions {job['progs']} (initially {job['init']}) under the schedule of turns {real['trace']}: sessions "
                      f"{real['deadlock']} hang for ever - each waits for a lock that no running session holds (results so far {real['outs']!r}); "
                      f"in every one-at-a-time order all sessions finish", case, broken="C19 no statement hangs (lock not released)")
        return
    robs = real["outs"] + "#" + real["final"]
    mobs = rep["impl"] + "#" + rep["final"]
    serial = rep.get("serial", "").split("~") if rep.get("serial") else []
    desc = (f"scenario {job['name']}: sessions {job['progs']} (initially {job['init']}) under the schedule of turns {real['trace']}: "
            f"statement results per session {real['outs']!r}, final tables {real['final']!r}")
    if robs == mobs:
        if rep["ok"] == "1":
            if steps_differ:
                chk.violation(f"{desc}: the code's durable/lock steps differ from the model's (the model is not finished after the "
                              f"code's trace {real['trace']}); no observable difference on this schedule", case,
                              broken="Fs.Sched.turn (correspondence of scheduling points)", failing_input=False)
            return
        chk.count("not-serializable")
        chk.finding(rep["finding"], f"{desc} — no order of whole statements gives this outcome (serial outcomes: {serial})", case)
        return
    if robs in serial:
        chk.violation(f"{desc}; the model of the engine-call interleaving predicts {mobs!r} (the observed outcome is serializable, "
                      f"but the model no longer describes the code's steps)", case,
                      broken="Fs.Sched.turn (correspondence of scheduling points)", failing_input=False)
        return
    chk.violation(f"{desc} — not the outcome of any order of whole statements ({serial}); model predicts {mobs!r}", case,
                  broken="C19_serializable_single_call / C19_serializable_disjoint / C19_locked_connects_succeed "
                         "(correspondence with Fs.Sched.runSched)")


def run(chk) -> None:
    jobs = _jobs(chk)
    shards = common.chunks(jobs, 16)
    reals = common.shard_map(_worker, shards)
    for shard, rs in zip(shards, reals):
        reps = common.batch([_line(j, r["trace"], r["locked"]) for j, r in zip(shard, rs)])
        for j, r, rep in zip(shard, rs, reps):
            _check(chk, j, r, rep)
    # free-running stress: supporting evidence; on failure the seed is reported (not replayable deterministically)
    rounds = 16 if chk.tier == "quick" else 160
    args = [(8, 5, chk.seed * 1000 + i) for i in range(rounds)]
    res = [r for s in common.shard_map(_stress_worker, common.chunks(args, 8), procs=8) for r in s]
    bad = [r for r in res if r["errs"] or r["hung"] or r["total"] != r["expect"] or r["distinct"] != r["expect"]]
    chk.count("stress-rounds", len(res))
    chk.extra["stress"] = {"rounds": len(res), "threads": 8, "failed_rounds": len(bad)}
    if bad:
        b = bad[0]
        chk.violation(f"free-running stress (8 threads: 4 connect to the same new database+schema in mixed spellings, 4 connect without database; 5 inserts each into a shared table): "
                      f"{len(bad)}/{len(res)} rounds failed; first: errors={b['errs'][:3]} hung={b['hung']} rows={b['total']} "
                      f"distinct={b['distinct']} expected={b['expect']} (seed {b['seed']}; not deterministic)",
                      {"name": "stress", "args": [8, 5, b["seed"]], "nondeterministic": True}, broken="C19 free-running stress (connects + inserts)")
    # the first connects of a patch() block race each other (free-running; only errors and wrong counts are failures)
    fargs = [(6, chk.seed * 1000 + i) for i in range(8 if chk.tier == "quick" else 48)]
    fres = [r for sh in common.shard_map(_first_connects_worker, common.chunks(fargs, 8), procs=8) for r in sh]
    fbad = [r for r in fres if r["errs"] or any(n != r["expect"] for n in r["seen"])]
    chk.count("first-connect-rounds", len(fres))
    chk.extra["first_connect_stress"] = {"rounds": len(fres), "failed_rounds": len(fbad)}
    if fbad:
        b = fbad[0]
        chk.violation(f"first connects of a patch() block from 6 threads at once, then a shared table created by session 0 and one insert per "
                      f"session: {len(fbad)}/{len(fres)} rounds failed; first (seed {b['seed']}): errors={b['errs'][:3]}, rows each session counts "
                      f"{b['seen']} (expected {b['expect']} everywhere: one account) (non-deterministic stress finding)",
                      {"name": "first-connects", "args": [6, b["seed"]], "nondeterministic": True},
                      broken="C19 free-running first-connect stress (sessions of one patch() must share one instance)")
    # overlapping transactions with the same PRIMARY KEY (deterministic hand-over after every statement)
    rnd = random.Random(chk.seed + 7)
    specs = []
    for i in range(8 if chk.tier == "quick" else 32):
        first = rnd.choice("ab")
        kind = ("samekey", "difftables", "varchar", "difftables")[i % 4]
        specs.append({"kind": kind, "dbpath": kind == "difftables" or i % 8 >= 4, "key": rnd.randrange(1, 9),
                      "begin_order": rnd.choice(["ab", "ba"]), "insert_order": rnd.choice(["ab", "ba"]),
                      "commit_order": first + ("b" if first == "a" else "a"), "api": (i // 4) % 2 == 1})
    tres = [r for sh in common.shard_map(_txconflict_worker, common.chunks(specs, 4), procs=4) for r in sh]
    for spec, r in zip([x for sh in common.chunks(specs, 4) for x in sh], tres):
        _check_txconflict(chk, spec, r)
    # free-running statement stress: thread switches inside fakesnow's own (pure Python) statement processing
    srounds = 4 if chk.tier == "quick" else 24
    sargs = [(4, 5, 30, chk.seed * 1000 + i, i % 2) for i in range(srounds)]     # every other round: db_path + explicit transactions
    sres = [r for sh in common.shard_map(_stress_statements_worker, common.chunks(sargs, 8), procs=8) for r in sh]
    sbad = [r for r in sres if r["errs"] or r["wrong"]]
    chk.count("statement-stress-rounds", len(sres))
    chk.extra["statement_stress"] = {"rounds": len(sres), "threads": 4, "failed_rounds": len(sbad)}
    if sbad:
        b = sbad[0]
        chk.violation(f"free-running statement stress (4 sessions, each 5 INSERTs of 30 rows and 3 MERGEs, COMMENT ON / ALTER SET COMMENT and CREATE OR REPLACE TABLE … VARCHAR(n) on its OWN tables, switch interval 1e-5; every other round on a db_path instance with explicit transactions): "
                      f"{len(sbad)}/{len(sres)} rounds failed; first (seed {b['seed']}): exceptions={b['errs'][:3]} wrong results={b['wrong'][:3]} "
                      f"- in every one-at-a-time order each INSERT answers 30 and each table ends with 150 rows of its own session "
                      f"(non-deterministic stress finding: re-run the replay a few times)",
                      {"name": "statement-stress", "args": [4, 5, 30, b["seed"], b["seed"] % 2], "nondeterministic": True},
                      broken="C19 free-running statement stress (a statement fails or is mixed with another session's because of a race)")
    chk.rule = ("real threads under a deterministic turn-based scheduler (yield points = the model's engine calls and the connect lock); "
                "scenarios: concurrent connects auto-creating the same database/schema, connect + DML, single-call statements on a shared "
                "table (2 and 3 sessions), multi-call statements on disjoint tables, CREATE TABLE COMMENT vs metadata read, MERGE vs "
                "SELECT, two sessions creating the same table; schedules: all A^a B^b / B^b A^a prefixes (<= 2 preemptions) for 2 "
                "sessions, random segment schedules for 3; plus free-running 8-thread stress.  non-trivial = distinct (scenario, "
                "effective schedule) with more than one session taking turns")
    chk.assumptions = ["one engine call is atomic (DuckDB's own locking)", "turn boundaries: the calls the proxy does not treat as yield "
                       "points (status SELECTs, SET, CREATE MACRO, MERGE's temp table and COUNT) are glued to the preceding call",
                       "in MERGE scenarios nobody writes the target concurrently (the candidate table is computed at the start)"]
    chk.trusted += ["threads, the GIL, DuckDB's internal locking and uvicorn's thread pool are not modelled; the free-running stress is evidence only"]


def replay(chk, case) -> None:
    if case.get("name") == "first-connects":
        for k in range(5):
            r = _first_connects_worker([(case["args"][0], case["args"][1] + k)])[0]
            if r["errs"] or any(n != r["expect"] for n in r["seen"]):
                chk.violation(f"first-connect stress failed again (attempt {k + 1}): {r}", case, broken="C19 free-running first-connect stress")
                break
        return
    if case.get("name") == "txconflict":
        _check_txconflict(chk, case["spec"], _txconflict_worker([case["spec"]])[0])
        return
    if case.get("name") == "statement-stress":
        bad = 0
        for k in range(5):   # non-deterministic: try a few times
            r = _stress_statements_worker([tuple(case["args"][:3]) + (case["args"][3] + 2 * k,) + tuple(case["args"][4:])])[0]
            bad += bool(r["errs"] or r["wrong"])
            if bad:
                chk.violation(f"statement stress failed again (attempt {k + 1}): {r['errs'][:2]} {r['wrong'][:2]}", case,
                              broken="C19 free-running statement stress")
                break
        return
    if case.get("name") == "stress":
        r = _stress_worker([tuple(case["args"])])[0]
        if r["errs"] or r["hung"] or r["total"] != r["expect"]:
            chk.violation(f"stress round failed again: {r}", case, broken="C19 free-running stress")
        return
    job = {"name": case["name"], "init": case["init"], "progs": case["progs"], "tables": case["tables"], "sched": case["sched"],
           "flags": case.get("flags", TT)}
    real = _worker([job])[0]
    rep = common.batch([_line(job, real["trace"], real["locked"])])[0]
    _check(chk, job, real, rep)
