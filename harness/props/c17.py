"""C17 — the HTTP server answers exactly like the in-process fake.

Correspondence between `Fs/Model/Http.lean` and the real stack, on every run:

A. wire arithmetic, EXHAUSTIVE: all 10^6 sub-second fractions x {post-1970, pre-1970} x {NTZ, TZ} are encoded by
   `fakesnow.arrow.to_sf`/`to_ipc`, the struct fields compared with the closed form proved in `C17_ts_wire_ranges`,
   decoded by the real connector's Arrow iterator and compared with what the in-process cursor hands out
   (`to_pylist`); a stratified sample (quick) / everything (thorough) is also run through the Lean `encodeTs/decodeTs`;
   TIME values and NULL placement likewise; the pre-fix float formula is tied to Lean's `Float` (34 151 inexact).
B. HTTP differential: a real uvicorn server + the real connector vs the in-process fake on the same generated
   statement stream (all column types, edge values, NULLs, every statement kind): rows (values and Python types),
   description, rowcount, errno/sqlstate/message; verdict per statement from the Lean `specObs/implObs/findingOf`
   and per column from `httpPy/inprocPy`.
C. sessions: generated login/query request sequences over several tokens (shared / :isolated: / path-backed
   logins, forged, empty and missing Authorization headers) against the server, compared with the Lean `run`.
"""
from __future__ import annotations

import datetime
import gzip
import itertools
import json
import os
import random
import socket
import struct
import tempfile
import threading
import time
import urllib.error
import urllib.request
from decimal import Decimal

from lib import common
from lib.common import dec_list, enc_list, enc_str

# ------------------------------------------------------------------------------------------------
# infrastructure: one uvicorn server per worker process
# ------------------------------------------------------------------------------------------------
_SERVER = {}


def _server_port() -> int:
    if _SERVER.get("pid") == os.getpid():
        return _SERVER["port"]
    import uvicorn

    import fakesnow.server
    # An ephemeral port can be taken by another worker between probing and binding (uvicorn then exits at once), and a
    # loaded machine can be slow to start the loop: retry on a fresh port instead of giving up.
    last = ""
    for attempt in range(8):
        s = socket.socket()
        s.bind(("127.0.0.1", 0))
        port = s.getsockname()[1]
        s.close()
        server = uvicorn.Server(uvicorn.Config(fakesnow.server.app, host="127.0.0.1", port=port, log_level="critical"))

        def _run(server=server):
            try:
                server.run()
            except BaseException as e:  # bind failure raises SystemExit inside uvicorn
                nonlocal last
                last = f"{type(e).__name__}: {e}"
        th = threading.Thread(target=_run, name="Server", daemon=True)
        th.start()
        t0 = time.time()
        while not server.started and th.is_alive() and time.time() - t0 < 60:
            time.sleep(0.02)
        if server.started:
            break
        server.should_exit = True
    else:
        raise common.Infra(f"uvicorn server did not start after 8 attempts ({last})")
    _SERVER.update(pid=os.getpid(), port=port, server=server)
    return port


def _real_connect():
    """the connector's own connect, captured before fakesnow.patch() replaces the module attribute"""
    import snowflake.connector
    if "real_connect" not in _SERVER:
        fn = snowflake.connector.connect
        if "fakesnow" in getattr(fn, "__module__", "") or hasattr(fn, "mock_calls"):
            raise common.Infra("snowflake.connector.connect is already patched")
        _SERVER["real_connect"] = fn
    return _SERVER["real_connect"]


NET_TIMEOUT = {"s": 1}     # 1 s keeps HTTP-500 cases cheap (the connector retries 5xx until the timeout); raised for a re-run after a client timeout


def _http_conn(db_path=":isolated:", database="DB1", schema="S1"):
    sp = {"CLIENT_OUT_OF_BAND_TELEMETRY_ENABLED": False}
    if db_path:
        sp["FAKESNOW_DB_PATH"] = db_path
    ctx = {k: v for k, v in (("database", database), ("schema", schema)) if v is not None}
    return _real_connect()(user="fake", password="snow", account="fakesnow", host="localhost", port=_server_port(),
                           protocol="http", session_parameters=sp, network_timeout=NET_TIMEOUT["s"], **ctx)


# ------------------------------------------------------------------------------------------------
# bounding: a check must never hang.  (1) every statement runs under a SIGALRM deadline in the worker; (2) the parent collects
# results per history and, when no result arrives for STALL_S seconds, reads the workers' progress files, reports the histories
# that are stuck (with the statement they are stuck on) and terminates the pool.
# ------------------------------------------------------------------------------------------------
import signal

STMT_DEADLINE_S = 90
STALL_S = 150
PROGRESS = {"dir": None}


class _Deadline(Exception):
    pass


def _on_alarm(signum, frame):
    raise _Deadline()


class _deadline:
    def __init__(self, seconds=STMT_DEADLINE_S):
        self.seconds = seconds

    def __enter__(self):
        try:
            signal.signal(signal.SIGALRM, _on_alarm)
            signal.setitimer(signal.ITIMER_REAL, self.seconds)
        except ValueError:          # not in the main thread
            pass

    def __exit__(self, *a):
        try:
            signal.setitimer(signal.ITIMER_REAL, 0)
        except ValueError:
            pass
        return False


def _progress(task, step, what=""):
    d = PROGRESS.get("dir")
    if d:
        try:
            with open(os.path.join(d, f"{os.getpid()}.json"), "w") as f:
                json.dump({"task": task, "step": step, "what": what[:300]}, f)
        except OSError:
            pass


def _task(arg):
    kind, idx, payload = arg
    PROGRESS["task"] = idx
    _progress(idx, -1)
    r = (_worker_b if kind == "b" else _worker_c)([payload])
    _progress(None, -1)
    return idx, r


def _bounded_map(kind, tasks, stall_s=STALL_S):
    """runs one task per history on a process pool; returns (results aligned with tasks — None when unfinished, stuck: {task index: progress})"""
    import multiprocessing as mp
    import shutil
    PROGRESS["dir"] = tempfile.mkdtemp(prefix="c17-progress-")
    procs = min(len(tasks), int(os.environ.get("VERIF_PROCS", "0")) or (os.cpu_count() or 4))
    results, stuck = [None] * len(tasks), {}
    pool = mp.get_context("fork").Pool(procs)
    try:
        it = pool.imap_unordered(_task, [(kind, i, t) for i, t in enumerate(tasks)], chunksize=1)
        for _ in range(len(tasks)):
            try:
                i, r = it.next(timeout=stall_s)
            except mp.TimeoutError:
                for f in os.listdir(PROGRESS["dir"]):
                    try:
                        p = json.load(open(os.path.join(PROGRESS["dir"], f)))
                    except Exception:
                        continue
                    if p.get("task") is not None and results[p["task"]] is None:
                        stuck[p["task"]] = p
                break
            results[i] = r
    finally:
        pool.terminate()
        shutil.rmtree(PROGRESS["dir"], ignore_errors=True)
        PROGRESS["dir"] = None
    return results, stuck


# ------------------------------------------------------------------------------------------------
# observation of one statement on one connection (public API only)
# ------------------------------------------------------------------------------------------------

def _canon(v):
    t = type(v).__name__
    if v is None:
        return ["NoneType", None]
    if isinstance(v, float):
        return ["float", struct.pack(">d", v).hex()]
    if isinstance(v, datetime.datetime):
        off = v.utcoffset()
        naive = (v - off).replace(tzinfo=None) if off is not None else v
        us = (naive - datetime.datetime(1970, 1, 1)) // datetime.timedelta(microseconds=1)
        return ["aware" if off is not None else "naive", [us, None if off is None else off // datetime.timedelta(minutes=1)]]
    if isinstance(v, (datetime.date, datetime.time)):
        return [t, v.isoformat()]
    if isinstance(v, Decimal):
        return ["Decimal", str(v)]
    if isinstance(v, (bytes, bytearray)):
        return [t, bytes(v).hex()]
    if isinstance(v, (bool, int, str)):
        return [t, v]
    return [t, repr(v)]


def _observe(conn, sql: str) -> dict:
    import snowflake.connector.errors as E
    try:
        with _deadline():
            return _observe_inner(conn, sql)
    except _Deadline:
        return {"k": "X", "cls": "Deadline"}


def _observe_inner(conn, sql: str) -> dict:
    import snowflake.connector.errors as E
    cur = conn.cursor()
    try:
        cur.execute(sql)
    except E.ProgrammingError as e:
        return {"k": "P", "errno": e.errno, "sqlstate": e.sqlstate, "msg": e.msg}
    except _Deadline:
        raise
    except Exception as e:  # raw exception in-process / InternalServerError over HTTP
        return {"k": "X", "cls": type(e).__name__}
    try:
        d = cur.description
        desc = None if d is None else [list(x) for x in d]
    except Exception as e:
        desc = "raises:" + type(e).__name__
    try:
        raw = cur.fetchall()
    except Exception as e:
        return {"k": "X", "cls": "fetch:" + type(e).__name__}
    n, digest = len(raw), None
    if n > 3000:
        # large result: all rows enter a digest (floats by repr, fine for the generated integer/text/decimal columns); a sample is kept for the detailed comparison
        import hashlib
        # (above 200 000 rows only the count and the sample are compared: the witness of the multi-batch finding has 1 000 001 rows)
        digest = hashlib.md5(repr([tuple((type(v).__name__, str(v)) for v in r) for r in raw]).encode()).hexdigest() if n <= 200000 else "not-computed"
        raw = raw[:25] + raw[n // 2: n // 2 + 25] + raw[-25:]
    rows = [[_canon(v) for v in r] for r in raw]
    return {"k": "K", "rows": rows, "nrows": n, "digest": digest, "desc": desc, "rowcount": cur.rowcount, "sqlstate": cur.sqlstate}


# ------------------------------------------------------------------------------------------------
# B. statement stream generator
# ------------------------------------------------------------------------------------------------
INEXACT = [65, 123, 129, 130, 131, 246, 249, 251, 253, 255, 258, 260, 262, 489, 999935, 999999, 500000, 1, 64]


def _ts_lit(rnd) -> str:
    day = rnd.choice(["1969-12-31 23:59:59", "1960-02-29 12:00:00", "0001-01-01 00:00:00", "9999-12-31 23:59:59",
                      "2020-02-29 01:02:03", "1970-01-01 00:00:00", "1900-01-01 00:00:00", "2038-01-19 03:14:08"])
    m = rnd.choice(INEXACT) if rnd.random() < 0.6 else rnd.randrange(10**6)
    return f"{day}.{m:06d}"


def _gen_value(rnd, ty: str) -> str:
    """SQL literal text of a value of column type `ty` (edges forced)"""
    if rnd.random() < 0.18:
        return "NULL"
    if ty in ("INT", "BIGINT", "INTEGER", "SMALLINT"):
        return str(rnd.choice([0, -1, 1, 2**63 - 1, -(2**63) + 1, 2**31, -(2**31), rnd.randrange(-10**12, 10**12)]))
    if ty.startswith("NUMBER") or ty.startswith("DECIMAL"):
        p, s = (int(x) for x in ty[ty.index("(") + 1:-1].split(","))
        digits = rnd.choice([p, p, 1, max(1, p // 2)])
        n = rnd.choice([10**digits - 1, 10**(digits - 1), rnd.randrange(10**digits), 0])
        n = min(n, 10**p - 1)
        txt = str(n).rjust(s + 1, "0")
        txt = txt[:len(txt) - s] + ("." + txt[len(txt) - s:] if s else "")
        return ("-" if rnd.random() < 0.4 and n else "") + txt
    if ty == "FLOAT":
        return rnd.choice(["0.0", "-1.5", "1.7976931348623157e308", "5e-324", "'nan'", "'inf'", "'-inf'", "0.1", "1e-310",
                           repr(rnd.uniform(-1e9, 1e9)), "123456789.123456789"])
    if ty.startswith("VARCHAR") or ty in ("STRING", "TEXT"):
        return "'" + rnd.choice(["", " ", "a", "é😀", "it''s", "x" * 300, "line1\\nline2", "tab\\there", "NULL", "ß∑𝄞",
                                 "%s ; -- /* */", "\"q\""]) + "'"
    if ty == "BOOLEAN":
        return rnd.choice(["true", "false"])
    if ty == "DATE":
        return "'" + rnd.choice(["0001-01-01", "9999-12-31", "1969-12-31", "1970-01-01", "2020-02-29", "1600-03-01"]) + "'"
    if ty == "TIME":
        return "'" + rnd.choice(["00:00:00", "23:59:59.999999", "12:34:56.000065", "00:00:00.000001",
                                 f"{rnd.randrange(24):02d}:{rnd.randrange(60):02d}:{rnd.randrange(60):02d}.{rnd.choice(INEXACT):06d}"]) + "'"
    if ty == "TIMESTAMP_NTZ":
        return "'" + _ts_lit(rnd) + "'"
    if ty == "TIMESTAMP_TZ":
        lit = _ts_lit(rnd)
        # keep the UTC instant inside Python's datetime range (year 1 / 9999 only with offset 0)
        offs = ["+00:00"] if lit.startswith(("0001", "9999")) else ["+00:00", "+00:00", "+02:00", "-08:00", "+05:30"]
        return "'" + lit + rnd.choice(offs) + "'"
    if ty == "BINARY":
        return "'" + rnd.choice(["", "AB", "\\x00\\xff", "hello world"]) + "'::binary"
    if ty == "VARIANT":
        return "parse_json('" + rnd.choice(['{"k":[1,2,{"x":null}],"s":"é\\\\"q"}', "[1,\"a\",null]", "\"str\"", "1.50", "true", "{}",
                                            '{"a":{"b":{"c":[[]]}}}']) + "')"
    if ty == "OBJECT":
        return rnd.choice(["object_construct('a',1)", "object_construct('k','v','n',2.5)"])
    if ty == "ARRAY":
        return rnd.choice(["array_construct(1,2)", "array_construct('x','y')", "array_construct()"])
    raise AssertionError(ty)


COLTYPES = ["INT", "BIGINT", "SMALLINT", "NUMBER(38,0)", "NUMBER(10,0)", "NUMBER(5,0)", "NUMBER(1,0)", "NUMBER(10,2)", "NUMBER(38,10)",
            "NUMBER(38,37)", "DECIMAL(18,6)", "NUMBER(20,15)", "NUMBER(12,12)", "NUMBER(30,29)", "FLOAT", "VARCHAR", "VARCHAR(20)", "STRING", "BOOLEAN", "DATE", "TIME",
            "TIMESTAMP_NTZ", "TIMESTAMP_TZ", "BINARY", "VARIANT", "OBJECT", "ARRAY"]
NO_VALUES_LIST = {"BINARY", "VARIANT", "OBJECT", "ARRAY"}     # expressions: use INSERT ... SELECT

ENDERS = [("truncate", "truncate table {t}"), ("hugeint", "select sum(id) from {t}"), ("list", "select [1, 2]"),
          ("parse", "selec 1"), ("conversion", "select 'x'::int"), ("hugeint-lit", "select 12345678901234567890")]


def _gen_history(rnd, hid: int, force_types=None) -> list[tuple[str, str]]:
    """list of (kind, sql).  A statement in a finding region (ENDERS) ends the history."""
    t = "T"
    ncols = rnd.randint(2, 5)
    types = list(force_types) if force_types else [rnd.choice(COLTYPES) for _ in range(ncols)]
    cols = [f"c{i}" for i in range(len(types))]
    st: list[tuple[str, str]] = [("create", f"create table {t} (id int, " + ", ".join(f"{c} {ty}" for c, ty in zip(cols, types)) + ")")]
    nid = 0
    for _ in range(rnd.randint(1, 3)):
        rows = []
        for _ in range(rnd.randint(1, 4)):
            nid += 1
            rows.append([str(nid)] + [_gen_value(rnd, ty) for ty in types])
        if any(ty in NO_VALUES_LIST for ty in types):
            for r in rows:
                st.append(("insert-select", f"insert into {t} select " + ", ".join(r)))
        else:
            st.append(("insert", f"insert into {t} values " + ", ".join("(" + ", ".join(r) + ")" for r in rows)))
    st.append(("select", f"select * from {t} order by id"))
    mid: list[tuple[str, str]] = []
    k = rnd.randint(0, nid + 1)
    sub = rnd.sample(cols, rnd.randint(1, len(cols)))
    mid.append(("select", f"select {', '.join(sub)} from {t} where id = {k}"))
    mid.append(("select-empty", f"select * from {t} where id > 1000"))
    mid.append(("select-alias", f"select id as \"a b\", {sub[0]} as X, {sub[0]} as x from {t} order by id"))
    # result shapes with REPEATED column names and different contents (same and different types, timestamps, NULLs)
    c0, c1 = cols[0], cols[-1]
    mid.append(("select-dupnames", f"select id as a, {c0} as a, {c1} as A, id + 1 as \"a\", {c0} as \"a\" from {t} order by id"))
    mid.append(("select-dupnames-lit", "select 1 as a, 2 as a, 'x' as a, null as a, 2.5::float as a, 1.25::number(10,2) as a"))
    mid.append(("select-selfjoin", f"select * from {t} t1 join {t} t2 on t1.id = t2.id + 1 order by t1.id"))
    mid.append(("select-selfjoin", f"select t1.{c1}, t2.{c1}, t2.id, t1.id from {t} t1 left join {t} t2 on t1.id = t2.id - 1 order by t1.id"))
    mid.append(("select-dupnames-ts", f"select '{_ts_lit(rnd)}'::timestamp_ntz as ts, null::timestamp_ntz as ts, '{_ts_lit(rnd)}'::timestamp_ntz as ts, "
                                     f"'2020-01-01 00:00:00.{rnd.choice(INEXACT):06d}+00:00'::timestamp_tz as tz, null::timestamp_tz as tz, "
                                     f"'12:00:00.{rnd.choice(INEXACT):06d}'::time as tm, null::time as tm"))
    # a row-less result that cannot be described (LIST column): known finding, does not end the history
    mid.append(("select-list-empty", f"select [1, 2] as l from {t} where id > 1000"))
    mid.append(("select-agg", f"select count(*), min(id), max(id) from {t} where id <= {k}"))
    mid.append(("select-null", f"select null, null::timestamp_ntz, null::timestamp_tz, null::number(10,2), null::time, null::binary, {sub[0]} from {t} order by id"))
    ci = rnd.randrange(len(cols))
    if types[ci] not in NO_VALUES_LIST:
        mid.append(("update", f"update {t} set {cols[ci]} = {_gen_value(rnd, types[ci])} where id > {k}"))
    mid.append(("update-0", f"update {t} set id = id where id > 1000"))
    mid.append(("delete", f"delete from {t} where id = {k}"))
    mid.append(("delete-0", f"delete from {t} where id > 1000"))
    mid.append(("ctas", f"create table T2 as select * from {t}"))
    mid.append(("select", "select * from T2 order by id"))
    mid.append(("create-view", f"create view V as select id, {sub[0]} from {t}"))
    mid.append(("select", "select * from V order by id"))
    mid.append(("describe", f"describe table {t}"))
    mid.append(("show", rnd.choice(["show tables", "show schemas", "show tables in schema S1"])))
    mid.append(("alter", f"alter table {t} add column z{rnd.randrange(1000)} int"))
    mid.append(("drop", "drop table if exists T2"))
    mid.append(("err-table", "select * from nope"))
    mid.append(("err-column", f"select nope from {t}"))
    mid.append(("err-arity", f"insert into {t} values (1)"))
    mid.append(("err-exists", f"create table {t} (id int)"))
    mid.append(("err-schema", "select * from nodb.nos.t"))
    mid.append(("set", f"set v{rnd.randrange(3)} = {rnd.randrange(100)}"))
    mid.append(("select-var", f"select $v{rnd.randrange(3)}"))
    mid.append(("ctx", "select current_database(), current_schema()"))
    mid.append(("use", rnd.choice(["use schema S1", "use database DB1", "create schema if not exists S2", "use schema S2", "use schema DB1.S1"])))
    mid.append(("tx", rnd.choice(["begin", "commit", "rollback"])))
    mid.append(("select-ts", f"select '{_ts_lit(rnd)}'::timestamp_ntz, '{_ts_lit(rnd)}+00:00'::timestamp_tz, '23:59:59.{rnd.choice(INEXACT):06d}'::time"))
    mid.append(("select-lit", "select 1, 1.5, 'a', true, 1::number(10,0), 1.5::number(10,1), 2.5::float, to_date('2020-01-01')"))
    rnd.shuffle(mid)
    st += mid[: rnd.randint(10, 22)]
    same: list[tuple[str, str]] = [("other-schema", "use schema DB1.S1"), ("select-same-text", f"select * from {t} order by id")]
    # the SAME statement text with a different meaning: after ALTER TABLE ADD/DROP COLUMN, and under another current schema
    # that holds a different table of the same name
    zc = f"z{rnd.randrange(1000)}"
    same.append(("alter", f"alter table {t} add column {zc} int"))
    same.append(("select-same-text", f"select * from {t} order by id"))
    if rnd.random() < 0.5:
        same.append(("alter-drop", f"alter table {t} drop column if exists {zc}"))
        same.append(("select-same-text", f"select * from {t} order by id"))
    same.append(("other-schema", "create schema if not exists DB1.S3"))
    same.append(("other-schema", "use schema DB1.S3"))
    same.append(("other-schema", f"create table if not exists {t} (id varchar, w timestamp_ntz, v number(10,3))"))
    same.append(("other-schema", f"insert into {t} values ('k', '1969-12-31 23:59:59.000065', 1.125), (NULL, NULL, NULL)"))
    same.append(("select-same-text", f"select * from {t} order by id"))
    same.append(("other-schema", "use schema DB1.S1"))
    same.append(("select-same-text", f"select * from {t} order by id"))
    if rnd.random() < 0.7:
        st += same
    # explicit transactions with a FAILING statement in the middle: the failure must not end (or commit) the transaction
    fq = f"DB1.S1.{t}"
    for end in rnd.sample(["commit", "rollback"], 2)[: rnd.choice([0, 1, 1, 2])]:
        base = 100 * (1 + len([1 for k, _ in st if k == "tx-begin"]))
        fails = [("tx-fail-table", "select * from nope_in_tx"), ("tx-fail-column", f"select nope from {fq}"), ("tx-fail-arity", f"insert into {fq} values (1)"),
                 ("tx-fail-exists", f"create table {fq} (id int)")]
        st.append(("tx-reset", "rollback"))            # leave whatever transaction the random statements above opened
        st.append(("tx-begin", "begin"))
        st.append(("tx-insert", f"insert into {fq} (id) values ({base + 1}), ({base + 2})"))
        st.append(rnd.choice(fails))
        st.append(("tx-insert", f"insert into {fq} (id) values ({base + 3})"))
        if rnd.random() < 0.5:
            st.append(rnd.choice(fails))
            st.append(("tx-delete", f"delete from {fq} where id = {base + 1}"))
        st.append(("tx-select", f"select id from {fq} where id > 99 order by id"))
        st.append(("tx-end-" + end, end))
        st.append(("tx-select", f"select id from {fq} where id > 99 order by id"))
    st.append(("select", f"select * from DB1.S1.{t} order by id"))
    if rnd.random() < 0.35:
        kind, sql = rnd.choice(ENDERS)
        st.append(("ender-" + kind, sql.format(t=f"DB1.S1.{t}")))
    return st


TYPE_EXPRS = [  # (DuckTy token, select expression) — exhaustive over types.py's table x a grid of (p, s)
    ("bigint", "1::bigint"), ("bigint", "1::int"), ("bigint", "count(*)"), ("blob", "'AB'::binary"), ("boolean", "true"),
    ("date", "to_date('2020-01-01')"), ("double", "1.5::float"), ("json", "parse_json('[1]')"), ("json", "object_construct('a',1)"),
    ("time", "'01:02:03'::time"), ("timestamptz", "'2020-01-01 00:00:00+00:00'::timestamp_tz"),
    ("timestamp", "'2020-01-01 00:00:00'::timestamp_ntz"), ("varchar", "'a'"), ("varchar", "'a'::varchar(5)"),
] + [(f"decimal:{p}:{s}", f"1::number({p},{s})") for p, s in
     [(38, 0), (10, 0), (1, 0), (5, 0), (10, 2), (38, 10), (38, 37), (18, 6), (2, 1)]] + \
    [("decimal:38:38", "0::number(38,38)"), ("decimal:9:9", "0::number(9,9)")]

FIELD_NAMES = {0: "fixed", 1: "real", 2: "text", 3: "date", 4: "timestamp", 5: "variant", 6: "timestamp_ltz", 7: "timestamp_tz",
               8: "timestamp_ntz", 9: "object", 10: "array", 11: "binary", 12: "time", 13: "boolean"}


def _col_ty(desc_entry, inproc_vals) -> str | None:
    """DuckTy token of a result column, from the in-process description + value types (public API only)"""
    code, prec, scale = desc_entry[1], desc_entry[4], desc_entry[5]
    name = FIELD_NAMES.get(code)
    types = {v[0] for v in inproc_vals if v[0] != "NoneType"}
    if name == "fixed":
        if types == {"Decimal"}:
            return f"decimal:{prec}:{scale}"
        if types == {"int"}:
            return "bigint"
        return None
    return {"real": "double", "text": "varchar", "date": "date", "variant": "json", "timestamp_tz": "timestamptz",
            "timestamp_ntz": "timestamp", "binary": "blob", "time": "time", "boolean": "boolean"}.get(name)


def _worker_b(shard):
    """runs histories on an HTTP connection and on an in-process connection; returns raw observations"""
    import fakesnow
    import snowflake.connector
    _real_connect()

    def run_hist(hist):
        login = {"database": "DB1", "schema": "S1"}
        if hist and hist[0][0] == "login":
            login = json.loads(hist[0][1])
        http = _http_conn(database=login.get("database"), schema=login.get("schema"))
        res = []
        with fakesnow.patch():
            inpr = snowflake.connector.connect(**{k: v for k, v in login.items() if v is not None})
            for si, (kind, sql) in enumerate(hist):
                if kind == "login":
                    res.append(({"k": "L"}, {"k": "L"}))
                    continue
                _progress(PROGRESS.get("task"), si, sql)
                b = _observe(inpr, sql)
                a = _observe(http, sql)
                res.append((a, b))
                if a.get("cls") == "Deadline" or b.get("cls") == "Deadline":
                    break           # the connection is in an unknown state: stop this history here
        try:
            http.close()
        except Exception:
            pass
        return res

    out = []
    for hid, hist in shard:
        try:
            res = run_hist(hist)
        except Exception as e:        # the login itself timed out
            if type(e).__name__ != "OperationalError":
                raise
            res = [({"k": "X", "cls": "OperationalError"}, {"k": "X", "cls": "-"})]
        if any(a.get("cls") == "OperationalError" for a, _ in res):
            # a client-side network timeout on the loaded machine (not an answer of the server): run the history again, patiently
            NET_TIMEOUT["s"] = 8
            try:
                res = run_hist(hist)
            finally:
                NET_TIMEOUT["s"] = 1
        out.append(res)
    return out


def _obs_exec(b: dict) -> str:
    """in-process observation -> Exec token of the model"""
    if b["k"] == "P":
        return f"P:{b['errno']}:{b['sqlstate'] or '-'}"
    if b["k"] == "X":
        return "X"
    describable = isinstance(b["desc"], list)
    return f"K:{1 if describable else 0}:{b['nrows']}:{b['rowcount']}"


def _obs_http(a: dict) -> str:
    if a["k"] == "P":
        return f"P:{a['errno']}:{a['sqlstate'] or '-'}"
    if a["k"] == "X":
        return "H500" if a["cls"] == "InternalServerError" else "X:" + a["cls"]
    d = a["desc"]
    dk = "raises" if isinstance(d, str) else ("empty" if not d else "cols")
    return f"K:{a['nrows']}:{a['rowcount']}:{dk}"


def _val_eq(x, y) -> bool:
    """equal Python values irrespective of the (separately compared) type"""
    if x == y:
        return True
    tx, ty = x[0], y[0]
    if {tx, ty} == {"int", "Decimal"}:
        return Decimal(str(x[1])) == Decimal(str(y[1])) and Decimal(str(y[1])) == Decimal(str(y[1])).to_integral_value()
    if {tx, ty} == {"bytes", "bytearray"}:
        return x[1] == y[1]
    return False


def _check_stmt(chk, case, kind, sql, a, b, reply, ty_replies):
    chk.count("stmt:" + kind)
    fa, fb = a.get("cls", "").startswith("fetch:"), b.get("cls", "").startswith("fetch:")
    if fa or fb:
        # the value cannot be represented by the Python type at all (fetch raises): must happen on both sides
        chk.count("outcome:fetch-raises")
        if not (fa and fb):
            chk.violation(f"`{sql}`: fetch raises on one side only: HTTP {a}, in-process {b}", case, broken="C17_response_partial (fetch)")
        return False
    exec_tok, real = _obs_exec(b), _obs_http(a)
    spec, impl, fkey = reply.get("spec"), reply.get("impl"), reply.get("finding", "-")
    chk.count("outcome:" + exec_tok.split(":")[0] + ("" if exec_tok[0] != "K" else (":desc" if exec_tok.split(":")[1] == "1" else ":nodesc")))
    what = f"`{sql}`: over HTTP {real}, in-process {spec}"
    if real != spec:
        if fkey != "-" and real == impl:
            chk.finding(fkey, what, case)
        else:
            chk.violation(f"{what} (model of server.py predicts {impl})", case, broken="C17_response_partial (correspondence with implObs)")
        return False
    if fkey != "-":
        chk.notes.append(f"finding {fkey} no longer reproduces on `{sql}`") if len(chk.notes) < 5 else None
    if a["k"] == "P":
        if a["msg"] != b["msg"]:
            chk.violation(f"`{sql}`: error message over HTTP {a['msg']!r} ≠ in-process {b['msg']!r}", case, broken="C17_response_partial (message)")
            return False
        return True
    if a["k"] != "K":
        return True
    if a["desc"] != b["desc"]:
        chk.violation(f"`{sql}`: description over HTTP {a['desc']} ≠ in-process {b['desc']}", case, broken="C17_response_partial (description)")
        return False
    if a["digest"] != b["digest"]:
        chk.violation(f"`{sql}`: the {b['nrows']} rows over HTTP differ from the in-process rows (digest over all rows; first rows HTTP {a['rows'][:2]} / in-process {b['rows'][:2]})", case,
                      broken="C17_response_partial (rows of a large result)")
        return False
    if a["sqlstate"] != b["sqlstate"]:
        chk.violation(f"`{sql}`: cursor.sqlstate over HTTP {a['sqlstate']!r} ≠ in-process {b['sqlstate']!r}", case, broken="C17_response_partial (sqlstate)")
        return False
    # per column: Python type per the type model, value equal
    ok = True
    ncols = len(b["desc"])
    for ci in range(ncols):
        hv = [r[ci] for r in a["rows"]]
        iv = [r[ci] for r in b["rows"]]
        ty = _col_ty(b["desc"][ci], iv)
        trep = ty_replies.get(ty) if ty else None
        for ri, (x, y) in enumerate(zip(hv, iv)):
            if not _val_eq(x, y):
                chk.violation(f"`{sql}`: row {ri} column {ci} over HTTP {x} ≠ in-process {y}", case,
                              broken="C17_ts_roundtrip/C17_time_roundtrip/C17_null_roundtrip (value correspondence)")
                return False
            if x[0] != y[0]:
                key = trep.get("finding", "-") if trep else "-"
                if trep and key != "-" and x[0] == trep["impl"] and y[0] == trep["spec"]:
                    chk.finding(key, f"`{sql}`: column {ci} ({ty}) is {x[0]} over HTTP, {y[0]} in-process", case)
                    ok = False
                else:
                    chk.violation(f"`{sql}`: row {ri} column {ci} ({ty}) has Python type {x[0]} over HTTP, {y[0]} in-process "
                                  f"(type model: {trep.get('impl') if trep else '?'} / {trep.get('spec') if trep else '?'})", case,
                                  broken="C17_pytype_partial (correspondence with httpPy/inprocPy)")
                    return False
            elif trep and y[0] != "NoneType" and (y[0] != trep["spec"] or x[0] != trep["impl"]):
                chk.violation(f"`{sql}`: column {ci} ({ty}) is {x[0]}/{y[0]} but the type model says {trep['impl']}/{trep['spec']}", case,
                              broken="httpPy/inprocPy (type model)", failing_input=False)
                return False
        if ty:
            chk.count("coltype:" + ty.split(":")[0])
    return ok


def _run_b(chk, rnd, nhist: int):
    hists = []
    # committed corpus first (one witness per known finding + the repaired defects)
    for f in sorted((common.CORPUS / "C17").glob("*.json")):
        c = json.loads(f.read_text())
        hists.append((-1 - len(hists), list(zip(c["kinds"], c["history"]))))
    # every column type at least once with forced single-type tables, then random mixes
    for i, ty in enumerate(COLTYPES):
        hists.append((i, _gen_history(rnd, i, force_types=[ty, ty])))
    for i in range(len(COLTYPES), nhist):
        hists.append((i, _gen_history(rnd, i)))
    # logins with every combination of database / schema given or omitted (and lower-case spellings): each login is its own
    # session with exactly the context it asked for — same first statements over HTTP and in-process
    for li, login in enumerate([{"database": "DB1", "schema": None}, {"database": None, "schema": None}, {"database": "db1", "schema": "s1"},
                                {"database": "DB1", "schema": "S1"}, {"database": None, "schema": "S1"}, {"database": "lg", "schema": None}]):
        h = [("login", json.dumps(login)), ("ctx", "select current_database(), current_schema()"), ("show", "show schemas"),
             ("create", "create table LT (id int, c varchar)"), ("insert", "insert into LT values (1, 'x')"), ("select", "select * from LT"),
             ("show", "show tables")]
        if login["database"] is None:
            h += [("create-db", "create database DBL"), ("use", "use database DBL"), ("ctx", "select current_database(), current_schema()")]
        h += [("create-schema", "create schema LS"), ("use", "use schema LS"), ("ctx", "select current_database(), current_schema()"),
              ("create", "create table LT (id int, c varchar)"), ("insert", "insert into LT values (2, 'y'), (3, NULL)"),
              ("select", "select * from LT order by id"), ("show", "show schemas")]
        hists.append((nhist + 10 + li, h))
    # large results (more than one DuckDB vector / more than 1000 rows — still ONE arrow record batch up to 1 000 000 rows)
    big = [("create", "create table BIG as select i as id, i * 1.5 as f, 'r' || i as s, case when i % 3 = 0 then null else i end as n, "
                      "(i % 1000)::number(10,2) / 8 as d from range(10000) t(i)")]
    for nrows in (1001, 2500, 10000, rnd.choice([1000, 2048, 2049, 4097, 7777])):
        big.append(("select-big", f"select id, f, s, n, d from BIG where id < {nrows} order by id"))
    big.append(("select-big", "select i, i % 7 as m, '1969-12-31 23:59:59.000065'::timestamp_ntz as ts from range(2500) t(i) order by i"))
    big.append(("update", "update BIG set n = 0 where id >= 5000"))
    big.append(("delete", "delete from BIG where id < 1200"))
    big.append(("select-big", "select count(*), sum(n), min(id) from BIG"))
    if chk.tier != "quick":
        big.append(("select-big", "select i from range(1000000) t(i)"))      # the largest single-batch result (C17_single_batch)
    hists.append((nhist + 1, big))
    # the type table sweep: one statement per type expression
    type_hist = [("type:" + tok, f"select {expr} as c from (select 1) t") for tok, expr in TYPE_EXPRS]
    hists.append((nhist, type_hist))
    shards = [[h] for h in hists]
    reals, stuck = _bounded_map("b", hists)
    for ti, p in sorted(stuck.items()):
        hid, hist = hists[ti]
        si = max(0, min(p.get("step", 0), len(hist) - 1))
        chk.violation(f"`{hist[si][1]}` (statement #{si} of a history): no answer within {STALL_S} s — the HTTP request or its in-process twin is stuck; "
                      f"the worker was terminated", {"part": "B", "history": [q for _, q in hist[: si + 1]], "kinds": [k for k, _ in hist[: si + 1]]},
                      broken="C17_response_partial (request did not complete)")
    if any(r is None for r in reals):
        chk.extra["histories_unfinished"] = sum(1 for r in reals if r is None)
    keep = [i for i, r in enumerate(reals) if r is not None]
    shards, reals = [shards[i] for i in keep], [reals[i] for i in keep]
    # model: one `resp` line per statement + the type table
    tys = set({tok for tok, _ in TYPE_EXPRS} | {"other", "integer", "timestamp_ns"} | {f"decimal:{p}:{s}" for p in (38, 18, 10, 5, 1) for s in (0, 2, 6, 10, 37)})
    ty_list = sorted(tys)
    lines, index = [], []
    all_obs = []
    for shard, res in zip(shards, reals):
        for (hid, hist), obs in zip(shard, res):
            for si, ((kind, sql), (a, b)) in enumerate(zip(hist, obs)):
                if kind == "login":
                    continue
                lines.append("http\tresp\t" + _obs_exec(b))
                index.append((hid, si))
                all_obs.append((hid, hist, si, kind, sql, a, b))
                # decimal columns seen in results get their own type line
                if b["k"] == "K" and isinstance(b["desc"], list):
                    for ci in range(len(b["desc"])):
                        ty = _col_ty(b["desc"][ci], [r[ci] for r in b["rows"]])
                        if ty and ty not in tys:
                            tys.add(ty)
                            ty_list.append(ty)
    replies = common.batch(lines + ["http\tty\t" + t for t in ty_list])
    ty_replies = {t: r for t, r in zip(ty_list, replies[len(lines):])}
    ended = set()
    for (hid, hist, si, kind, sql, a, b), reply in zip(all_obs, replies):
        if b.get("cls") == "Deadline":
            raise common.Infra(f"in-process statement `{sql[:80]}` did not finish within {STMT_DEADLINE_S} s")
        if a.get("cls") == "OperationalError":
            raise common.Infra(f"connector network timeout persisted on `{sql[:80]}` (machine overloaded?)")
        if hid in ended:
            continue
        case = {"part": "B", "history": [s for _, s in hist[: si + 1]], "kinds": [k for k, _ in hist[: si + 1]]}
        nontrivial = b["k"] != "K" or bool(b["rows"])
        chk.case(("B", hid, si, sql), nontrivial=nontrivial,
                 sample={"sql": sql[:160], "http": _obs_http(a), "inproc": _obs_exec(b)} if kind in ("select", "update", "err-table") and si % 7 == 0 else None)
        good = _check_stmt(chk, case, kind, sql, a, b, reply, ty_replies)
        if not good and (reply.get("finding", "-") != "-" or kind.startswith("ender")):
            ended.add(hid)      # state after a finding-region statement may differ (retries re-execute it)
        if kind.startswith("type:"):
            _check_type_row(chk, case, kind[5:], sql, a, b, ty_replies)
    chk.extra["histories"] = len(hists)


def _check_type_row(chk, case, tok, sql, a, b, ty_replies):
    """ties types.py's table (sf type, precision, scale, length) to the model's sfType/rowtypeNums"""
    rep = ty_replies[tok]
    if b["k"] != "K" or not isinstance(b["desc"], list):
        chk.violation(f"type sweep `{sql}` not describable in-process: {b}", case, broken="sfType (type model)", failing_input=False)
        return
    d = b["desc"][0]
    got = (FIELD_NAMES.get(d[1]), d[4], d[5], d[3])
    r = rep["row"].split(",")
    want = (rep["sf"], None if r[0] == "-" else int(r[0]), None if r[1] == "-" else int(r[1]), None if r[2] == "-" else int(r[2]))
    if got != want:
        chk.violation(f"`{sql}`: description (type, precision, scale, internal_size) = {got}, types.py model says {want}", case,
                      broken="sfType/rowtypeNums (C17_decimal_meta correspondence)")


# ------------------------------------------------------------------------------------------------
# A. wire arithmetic
# ------------------------------------------------------------------------------------------------
EPOCHS = [1577836800, -12345, -62135596800, 253402300799]     # 2020-01-01, pre-1970, 0001-01-01, 9999-12-31 23:59:59


def _worker_a(shard):
    try:
        return _worker_a_inner(shard)
    except Exception as e:        # an exception while encoding with arrow.py / decoding with the connector is a result, not a harness crash
        import traceback
        tb = traceback.extract_tb(e.__traceback__)[-1]
        return {"bad": [f"part A `{shard[0]}` on {str(shard[1])[:120]}: {type(e).__name__}: {str(e)[:160]} (at {os.path.basename(tb.filename)}:{tb.lineno})"],
                "n": 0, "wire": [], "sum": 0, "crashed": True}


def _worker_a_inner(shard):
    """shard = (kind, payload).  Returns a list of problems (strings with the failing input) and counts."""
    import numpy as np
    import pyarrow as pa
    import pyarrow.compute as pc
    from snowflake.connector.arrow_context import ArrowConverterContext
    from snowflake.connector.result_batch import IterUnit, _create_nanoarrow_iterator

    import fakesnow.arrow as A
    from fakesnow.types import describe_as_rowtype
    ctx = ArrowConverterContext()
    kind, payload = shard
    bad, n = [], 0

    def decode(tbl, duck_types):
        rowtype = describe_as_rowtype([(f"C{i}", t, "YES", None, None, None) for i, t in enumerate(duck_types)])
        sf = A.to_sf(tbl, rowtype)
        data = A.to_ipc(sf).to_pybytes()
        return sf, list(_create_nanoarrow_iterator(data, ctx, False, False, False, IterUnit.ROW_UNIT, True))

    if kind == "ts":
        epoch_s, lo, hi, tz = payload[:4]
        us = np.arange(lo, hi, dtype="int64") + epoch_s * 10**6
        col = pa.array(us, type=pa.timestamp("us", tz="UTC") if tz else pa.timestamp("us"))
        tbl = pa.table({"C0": col})
        try:
            sf, rows = decode(tbl, ["TIMESTAMP WITH TIME ZONE" if tz else "TIMESTAMP"])
        except Exception as e:
            # find the first failing value
            first = None
            for m in range(lo, hi):
                try:
                    A.timestamp_to_sf_struct(pa.array([m + epoch_s * 10**6], type=col.type))
                except Exception:
                    first = m
                    break
            return {"bad": [f"to_sf raised {type(e).__name__} on {'TIMESTAMP_TZ' if tz else 'TIMESTAMP_NTZ'} value us={None if first is None else first + epoch_s * 10**6} "
                            f"(epoch second {epoch_s}, fraction {first} µs): {str(e)[:120]}"], "n": 0, "wire": []}
        st = sf.column(0).combine_chunks()
        layout = None
        if pa.types.is_struct(st.type) and {"epoch", "fraction"} <= {st.type.field(i).name for i in range(st.type.num_fields)}:
            e = st.field("epoch").to_numpy()
            f = st.field("fraction").to_numpy().astype("int64")
            want_e, want_f = us // 10**6, (us % 10**6) * 1000
            if not (e == want_e).all() or not (f == want_f).all():
                i = int(np.argmax((e != want_e) | (f != want_f)))
                bad.append(f"struct fields for us={int(us[i])}: (epoch, fraction)=({int(e[i])}, {int(f[i])}), closed form of C17_ts_wire_ranges gives ({int(want_e[i])}, {int(want_f[i])})")
            if tz:
                z = st.field("timezone").to_numpy()
                if not (z == 1440).all():
                    bad.append(f"timezone field {int(z[0])} ≠ 1440 for us={int(us[0])}")
            if st.null_count:
                bad.append("valid timestamps encoded as NULL structs")
        else:
            # another wire layout than the modelled struct: only the decoded values can be judged here (the parent looks for a failing input)
            layout = str(st.type)
            e = f = None
        exp = col.to_pylist()       # what the in-process cursor hands out
        for i, (r, x) in enumerate(zip(rows, exp)):
            if r[0] != x or (r[0].utcoffset() != x.utcoffset()):
                bad.append(f"us={int(us[i])} ({'TZ' if tz else 'NTZ'}): connector decodes {r[0]!r} (offset {r[0].utcoffset()}), in-process value is {x!r}")
                break
        n = len(rows)
        # a sample of the wire fields for the Lean model
        step = payload[4] if len(payload) > 4 else 0
        wire = []
        if step and layout is None:
            idx = list(range(0, hi - lo, step))
            wire = [(int(us[i]), int(e[i]), int(f[i]), 1440 if tz else None) for i in idx]
        return {"bad": bad, "n": n, "wire": wire, "layout": layout}
    if kind == "extremes":
        # the ends of the Snowflake timestamp range and of what fits int64 nanoseconds, both layouts, with NULLs in between
        for tz in (False, True):
            vals = list(payload)
            col = pa.array(vals, type=pa.timestamp("us", tz="UTC") if tz else pa.timestamp("us"))
            try:
                _, rows = decode(pa.table({"C0": col}), ["TIMESTAMP WITH TIME ZONE" if tz else "TIMESTAMP"])
            except Exception as e:
                bad.append(f"to_sf/decoding raised {type(e).__name__} on the {'TIMESTAMP_TZ' if tz else 'TIMESTAMP_NTZ'} column {vals}: {str(e)[:120]}")
                continue
            for v, r, x in zip(vals, rows, col.to_pylist()):
                if r[0] != x or (x is not None and r[0].utcoffset() != x.utcoffset()):
                    bad.append(f"{'TIMESTAMP_TZ' if tz else 'TIMESTAMP_NTZ'} value us={v} ({x!r} in-process): the connector decodes {r[0]!r} from the server's arrow encoding")
                    break
        return {"bad": bad, "n": 2 * len(payload), "wire": []}
    if kind == "time":
        vals = payload
        col = pa.array(vals, type=pa.time64("us"))
        try:
            sf, rows = decode(pa.table({"C0": col}), ["TIME"])
        except Exception as e:
            return {"bad": [f"to_sf raised {type(e).__name__} on a TIME column: {str(e)[:120]}"], "n": 0, "wire": []}
        ns = sf.column(0).to_pylist()
        exp = col.to_pylist()
        for v, r, x in zip(vals, rows, exp):
            if r[0] != x:
                bad.append(f"TIME {v} µs: connector decodes {r[0]!r}, in-process value is {x!r}")
                break
        return {"bad": bad, "n": len(rows), "wire": [(v, w, [r[0].hour, r[0].minute, r[0].second, r[0].microsecond]) for v, w, r in zip(vals, ns, rows)][:: max(1, len(vals) // 400)]}
    if kind == "nullcol":
        cols = payload      # list of (tz, [us|None])
        out = []
        for tz, xs in cols:
            col = pa.array(xs, type=pa.timestamp("us", tz="UTC") if tz else pa.timestamp("us"))
            try:
                _, rows = decode(pa.table({"C0": col}), ["TIMESTAMP WITH TIME ZONE" if tz else "TIMESTAMP"]) if len(xs) else (None, [])
            except Exception as e:
                bad.append(f"to_sf raised {type(e).__name__} on the timestamp column {xs} ({'TZ' if tz else 'NTZ'}): {str(e)[:120]}")
                out.append([["ERR", None]] * len(xs))
                continue
            out.append([None if r[0] is None else _canon(r[0])[1] for r in rows])
        return {"bad": bad[:3], "n": len(cols), "wire": out}
    if kind == "oldfloat":
        lo, hi = payload
        us = np.arange(lo, hi, dtype="int64")
        x = pc.multiply(pc.subsecond(pa.array(us, type=pa.timestamp("us"))), 1_000_000_000).to_numpy()
        inexact = us[x != np.floor(x)]
        inexact2 = us[x != (us * 1000).astype("float64")]
        return {"bad": [] if len(inexact) == len(inexact2) else ["float formula: non-integral ≠ differs-from-m*1000"],
                "n": int(len(inexact)), "wire": [int(v) for v in inexact[:20]], "sum": int(inexact.sum())}
    if kind == "meta":
        import pyarrow as pa2  # noqa: F401
        out = []
        for duck in payload:
            rowtype = describe_as_rowtype([("C", duck, "YES", None, None, None)])
            sch = A.to_sf_schema(pa.schema([pa.field("C", pa.int64())]), rowtype)
            md = sch.field(0).metadata
            out.append((duck, md[b"logicalType"].decode(), int(md[b"precision"]), int(md[b"scale"]), int(md[b"charLength"])))
        return {"bad": [], "n": len(out), "wire": out}
    raise AssertionError(kind)


DUCK_NAMES = {"bigint": "BIGINT", "integer": "INTEGER", "blob": "BLOB", "boolean": "BOOLEAN", "date": "DATE", "double": "DOUBLE",
              "json": "JSON", "time": "TIME", "timestamptz": "TIMESTAMP WITH TIME ZONE", "timestamp_ns": "TIMESTAMP_NS",
              "timestamp": "TIMESTAMP", "varchar": "VARCHAR"}


def _run_a(chk, rnd, thorough: bool):
    nsh = 16
    size = 10**6 // nsh
    step = 1 if thorough else 53       # sample of each shard that also goes through the Lean model
    shards = []
    # quick: all 10^6 fractions for a pre-1970 NTZ second and a post-1970 TZ second (every fraction x both signs of the epoch x both
    # struct layouts); thorough adds the two other sign/layout pairs and the years 1 and 9999
    combos = [(EPOCHS[1], False), (EPOCHS[0], True)]
    if thorough:
        combos += [(EPOCHS[0], False), (EPOCHS[1], True), (EPOCHS[2], False), (EPOCHS[3], True)]
    for epoch_s, tz in combos:
        for i in range(nsh):
            lo, hi = i * size, (10**6 if i == nsh - 1 else (i + 1) * size)
            shards.append(("ts", (epoch_s, lo, hi, tz, step if (epoch_s, tz) in combos[:2] or thorough else 997)))
    # TIME: edges + random, NULL columns, old float formula, metadata
    tvals = sorted({0, 1, 65, 999999, 86399999999, 43200000000, 3599999999, 3600000000} | {rnd.randrange(86400 * 10**6) for _ in range(4000 if not thorough else 100000)})
    shards.append(("time", tvals))
    shards.append(("extremes", [-62135596800000000, 253402300799999999, None, -9223372036854776, -9223372036854775, 9223372036854775, 9223372036854776,
                                -1, 0, None, 253402300799999999 - 86400 * 10**6, -62135596800000000 + 65]))
    ncols = []
    for n in range(0, 5):
        for pat in itertools.product([0, 1], repeat=n):
            for tz in (False, True):
                ncols.append((tz, [None if p else rnd.choice([65, -1, 1577836800000065, -12345999935, 0]) for p in pat]))
    for _ in range(200 if not thorough else 3000):
        ncols.append((rnd.random() < 0.5, [None if rnd.random() < 0.4 else rnd.randrange(-2 * 10**15, 2 * 10**15) for _ in range(rnd.randint(1, 12))]))
    shards.append(("nullcol", ncols))
    for i in range(4):
        shards.append(("oldfloat", (i * 250000, (i + 1) * 250000)))
    ducks = [(k, v) for k, v in DUCK_NAMES.items()] + [(f"decimal:{p}:{s}", f"DECIMAL({p},{s})") for p in (1, 5, 10, 18, 38) for s in (0, 1, 2, 10, 37) if s <= p]
    shards.append(("meta", [d for _, d in ducks]))
    res = common.shard_map(_worker_a, shards)

    lines, expect = [], []
    old_n, old_sum, old_first = 0, 0, []
    layouts = sorted({r.get("layout") for r in res if r.get("layout")})
    for (kind, payload), r in zip(shards, res):
        if r.get("crashed") and kind in ("oldfloat",):
            raise common.Infra(r["bad"][0])
        for b in r["bad"]:
            us_case = {"part": "A", "kind": kind, "payload": [payload[0], payload[1], payload[2], payload[3]] if kind == "ts" else None, "detail": b}
            chk.violation(b, us_case, broken={"ts": "C17_ts_roundtrip/C17_ts_wire_ranges (real arrow.py vs closed form)", "time": "C17_time_roundtrip",
                                               "nullcol": "C17_ts_roundtrip/C17_null_roundtrip (to_sf raises)"}.get(kind, "C17 part A"))
        if kind == "extremes":
            chk.evaluations += r["n"]
            chk.count("ts:extremes", r["n"])
        if r.get("crashed"):
            continue
        if kind == "ts":
            chk.evaluations += r["n"]
            chk.count(f"ts:{'tz' if payload[3] else 'ntz'}:{'pre1970' if payload[0] < 0 else 'post1970'}", r["n"])
            chk.nontrivial.add(("A", payload[0], payload[3], payload[1]))
            for us, e, f, z in r["wire"]:
                lines.append(f"http\tts\t{1 if payload[3] else 0}\t{us}")
                expect.append(("ts", us, f"{e},{f},{'-' if z is None else z}", f"{us},{'0' if payload[3] else '-'}"))
        elif kind == "time":
            chk.evaluations += r["n"]
            chk.count("time", r["n"])
            for v, ns, hmsu in r["wire"]:
                lines.append(f"http\ttime\t{v}")
                expect.append(("time", v, str(ns), ",".join(str(x) for x in hmsu)))
        elif kind == "nullcol":
            for (tz, xs), got in zip(payload, r["wire"]):
                lines.append(f"http\ttscol\t1\t{1 if tz else 0}\t" + enc_list(["-" if x is None else str(x) for x in xs]))
                expect.append(("nullcol", (tz, xs), got, None))
                chk.case(("A-null", tz, tuple(xs)), nontrivial=None in xs and any(x is not None for x in xs))
            chk.count("nullcol", len(payload))
        elif kind == "oldfloat":
            old_n += r["n"]
            old_sum += r["sum"]
            old_first = old_first or r["wire"]
        elif kind == "meta":
            for (tok, duck), got in zip(ducks, r["wire"]):
                lines.append(f"http\tty\t{tok}")
                expect.append(("meta", tok, got, None))
            chk.count("meta", len(ducks))
    if layouts and not any(r["bad"] for r in res):
        # the code no longer builds the struct the model describes and no value decoded wrongly: the model/proof no longer covers it
        chk.violation(f"timestamps are sent as {layouts} instead of the (epoch, fraction[, timezone]) struct modelled by encodeTs; every explored value still decodes correctly",
                      {"part": "A", "layout": layouts}, broken="C17_ts_roundtrip (model of arrow.py no longer applies)", failing_input=False)
    lines.append("http\tfloatinexact\t0\t1000000")
    expect.append(("oldfloat", None, None, None))
    replies = common.batch(lines)
    for (kind, x, w, d), rep in zip(expect, replies):
        if kind == "ts":
            if rep.get("wire") != w or rep.get("dec") != d:
                chk.violation(f"timestamp us={x}: arrow.py builds (epoch, fraction, tz)=({w}); Lean encodeTs gives {rep.get('wire')} decoding to {rep.get('dec')} (expected {d})",
                              {"part": "A", "us": x}, broken="C17_ts_roundtrip (correspondence with encodeTs)")
        elif kind == "time":
            if rep.get("ns") != w or rep.get("dec") != d:
                chk.violation(f"TIME {x} µs: arrow.py sends {w} ns decoded {d}; Lean gives {rep.get('ns')} / {rep.get('dec')}", {"part": "A", "time_us": x},
                              broken="C17_time_roundtrip (correspondence with encodeTime/decodeTime)")
        elif kind == "nullcol":
            tz, xs = x
            want = dec_list(rep.get("spec", "[]"))
            impl = dec_list(rep.get("impl", "[]"))
            got = ["-" if g is None else f"{g[0]},{'-' if g[1] is None else g[1]}" for g in w]
            if got != want:
                chk.violation(f"timestamp column {xs} ({'TZ' if tz else 'NTZ'}) comes back as {got}; in-process/spec {want} (model of arrow.py: {impl})",
                              {"part": "A", "tz": tz, "column": xs}, broken="C17_null_roundtrip")
            elif impl != want:
                chk.violation("model inconsistency: encodeCol with mask ≠ specCol", {"part": "A", "column": xs}, broken="C17_null_roundtrip", failing_input=False)
        elif kind == "meta":
            duck, lt, p, s, ln = w
            m = rep["meta"].split(",")
            if (lt.lower(), p, s, ln) != (rep["sf"], int(m[0]), int(m[1]), int(m[2])):
                chk.violation(f"arrow field metadata for {duck}: real ({lt}, precision {p}, scale {s}, charLength {ln}) ≠ model ({rep['sf']}, {rep['meta']})",
                              {"part": "A", "duck": duck}, broken="C17_decimal_meta (correspondence with arrowMeta)", failing_input=False)
        elif kind == "oldfloat":
            # trusted-base tie for the regression witness: pyarrow's double arithmetic == Lean Float on all 10^6 fractions
            if (int(rep["n"]), int(rep["sum"])) != (old_n, old_sum) or dec_list(rep["first"]) != [str(v) for v in old_first]:
                chk.violation(f"pre-fix float formula: pyarrow has {old_n} inexact fractions (sum {old_sum}), Lean Float {rep['n']} (sum {rep['sum']})",
                              {"part": "A", "oldfloat": True}, broken="C17_float_fraction_inexact (Float model of pyarrow doubles)", failing_input=False)
            chk.extra["prefix_float_formula_inexact_fractions"] = old_n
    chk.extra["model_ts_lines"] = sum(1 for e in expect if e[0] == "ts")


# ------------------------------------------------------------------------------------------------
# C. sessions
# ------------------------------------------------------------------------------------------------

def _post(port, path, body, auth=None):
    req = urllib.request.Request(f"http://localhost:{port}{path}", data=gzip.compress(json.dumps(body).encode()), method="POST")
    if auth is not None:
        req.add_header("Authorization", auth)
    try:
        with urllib.request.urlopen(req, timeout=20) as r:
            return r.status, json.loads(r.read())
    except urllib.error.HTTPError as e:
        raw = e.read()
        try:
            return e.code, json.loads(raw)
        except Exception:
            return e.code, {"raw": raw[:200].decode("latin1")}


BODY_KINDS = ["ok", "empty", "nogzip", "nojson", "nosql"]


def _post_raw(port, path, kind, sql, auth=None):
    """a raw request whose BODY is well-formed or broken in one of four ways"""
    good = json.dumps({"sqlText": sql}).encode()
    data = {"ok": gzip.compress(good), "empty": b"", "nogzip": good, "nojson": gzip.compress(b"this is not json"),
            "nosql": gzip.compress(json.dumps({"foo": 1}).encode())}[kind]
    req = urllib.request.Request(f"http://localhost:{port}{path}", data=data, method="POST")
    if auth is not None:
        req.add_header("Authorization", auth)
    try:
        with urllib.request.urlopen(req, timeout=20) as r:
            return r.status, json.loads(r.read())
    except urllib.error.HTTPError as e:
        raw = e.read()
        try:
            return e.code, json.loads(raw)
        except Exception:
            return e.code, {"raw": raw[:200].decode("latin1")}


def _gen_session_history(rnd, hid: int) -> list:
    """abstract requests: ('L', name, backing, schema) | ('Q', who, q) with who = session name | 'forged:<text>' | 'none' | 'empty' | 'raw:<name>'"""
    reqs = []
    names = []
    nlog = rnd.randint(2, 4)
    for i in range(nlog):
        names.append(f"s{i}")
    backs = [rnd.choice(["s", "s", "i", "p"]) for _ in names]
    if "s" not in backs[:2]:
        backs[0] = "s"
    if rnd.random() < 0.6:
        backs[1] = "s"
    live = []
    pending = list(zip(names, backs))
    rnd.shuffle(pending)
    # first login up front, others interleaved
    nm, b = pending.pop()
    reqs.append(("L", nm, b, rnd.choice([0, 1, 2, 3])))      # 0 = the login names a database but no schema
    live.append(nm)
    v = 0
    for _ in range(rnd.randint(8, 22)):
        r = rnd.random()
        if pending and r < 0.15:
            nm, b = pending.pop()
            reqs.append(("L", nm, b, rnd.choice([0, 1, 2, 3])))      # 0 = the login names a database but no schema
            live.append(nm)
            continue
        if r < 0.3:
            who = rnd.choice(["none", "empty", "forged:x", "forged:" + "A" * 43, "forged:", "forged:None", "short:Bearer x", "trunc:" + rnd.choice(live)])
            # unauthenticated requests are refused whatever their body looks like
            who += "|" + rnd.choice(BODY_KINDS)
        elif r < 0.4:
            who = "raw:" + rnd.choice(live)
        else:
            who = rnd.choice(live)
        if who in live and rnd.random() < 0.2:
            # a contiguous transaction block of one session (no other session acts in between: DuckDB's snapshot point and
            # catalog conflicts are not modelled), with a failing statement in the middle
            reqs.append(("Q", who, "all"))
            reqs.append(("Q", who, "begin"))
            for _ in range(rnd.randint(1, 4)):
                k2 = rnd.choice(["put", "fail", "all", "put", "fail"])
                if k2 == "put":
                    v += 1
                    reqs.append(("Q", who, f"put,{v}"))
                else:
                    reqs.append(("Q", who, k2))
            reqs.append(("Q", who, rnd.choice(["commit", "rollback"])))
            reqs.append(("Q", rnd.choice(live), "all"))
            continue
        kind = rnd.choice(["sv", "gv", "us", "cs", "put", "all", "put", "all"])
        if kind == "sv":
            v += 1
            q = f"sv,{rnd.randint(0, 2)},{v}"
        elif kind == "gv":
            q = f"gv,{rnd.randint(0, 2)}"
        elif kind == "us":
            q = f"us,{rnd.randint(1, 3)}"
        elif kind == "put":
            v += 1
            q = f"put,{v}"
        else:
            q = {"cs": "cs", "all": "all"}[kind]
        if "|" in who and not who.endswith("|ok"):
            q = "bad"
        reqs.append(("Q", who, q))
    while pending:
        nm, b = pending.pop()
        reqs.append(("L", nm, b, rnd.choice([0, 1, 2, 3])))      # 0 = the login names a database but no schema
        live.append(nm)
    # final sweep: full observable state of every session
    for nm in live:
        for n in range(3):
            reqs.append(("Q", nm, f"gv,{n}"))
        reqs.append(("Q", nm, "cs"))
        reqs.append(("Q", nm, "all"))
    return reqs


def _sql_of(q: str, hid: int, seq: int) -> list[str]:
    p = q.split(",")
    tbl = f"SHARED_DB.PUB.T{hid}"
    if p[0] == "sv":
        return [f"set v{p[1]} = {p[2]}"]
    if p[0] == "gv":
        return [f"select $v{p[1]}"]
    if p[0] == "us":
        return [f"create schema if not exists SHARED_DB.S{p[1]}", f"use schema SHARED_DB.S{p[1]}"]
    if p[0] == "cs":
        return ["select current_schema()"]
    if p[0] == "put":
        return ["create schema if not exists SHARED_DB.PUB", f"create table if not exists {tbl} (seq int, v int)", f"insert into {tbl} values ({seq}, {p[1]})"]
    if p[0] == "all":
        return ["create schema if not exists SHARED_DB.PUB", f"create table if not exists {tbl} (seq int, v int)", f"select v from {tbl} order by seq"]
    if p[0] in ("begin", "commit", "rollback"):
        return [p[0]]
    if p[0] == "fail":
        return ["select * from SHARED_DB.PUB.NOPE_C17"]
    raise AssertionError(q)


def _worker_c(shard):
    import snowflake.connector.errors as E
    port = _server_port()
    out = []
    import fakesnow.server

    def run_hist(hid, reqs, attempt):
        conns, tokens, resp, tmpdirs = {}, {}, [], []
        seq = 0
        before_sessions = len(fakesnow.server.sessions)
        for ri, r in enumerate(reqs):
            _progress(PROGRESS.get("task"), ri, str(r))
            if r[0] == "L":
                _, nm, b, sch = r
                dbp = None
                if b == "i":
                    dbp = ":isolated:"
                elif b == "p":
                    d = tempfile.mkdtemp(prefix="c17-")
                    tmpdirs.append(d)
                    dbp = d
                c = _http_conn(db_path=dbp, database="SHARED_DB", schema=f"S{sch}" if sch else None)
                conns[nm] = c
                tokens[nm] = c.rest.token
                resp.append(f"T:{nm}")
                continue
            _, who, q = r
            who, _, body_kind = who.partition("|")
            seq += 1
            sqls = _sql_of(q, f"{os.getpid()}_{hid}_{attempt}", seq) if q != "bad" else ["select 1"]
            if who in conns:
                try:
                    with _deadline():
                        cur = conns[who].cursor()
                        for s in sqls:
                            cur.execute(s)
                        rows = cur.fetchall()
                    p0 = q.split(",")[0]
                    if p0 in ("sv", "us", "put", "begin", "commit", "rollback"):
                        resp.append("S")
                    elif p0 == "gv":
                        resp.append(f"V:{rows[0][0]}")
                    elif p0 == "cs":
                        # without a current schema DuckDB's own `main` shows through (C03: `main` ≡ no current schema)
                        resp.append("C:None" if rows[0][0] in (None, "main") else f"C:{rows[0][0]}")
                    else:
                        resp.append("R:" + ",".join(str(x[0]) for x in rows))
                except E.ProgrammingError as e:
                    resp.append("V:-" if q.startswith("gv") and "does not exist" in str(e.msg) else ("E" if q == "fail" and e.errno == 2003 else f"ERR:{e.errno}:{str(e.msg)[:80]}"))
                except Exception as e:
                    resp.append(f"EXC:{type(e).__name__}:{str(e)[:80]}")
                continue
            # raw HTTP request with a chosen Authorization header
            if who == "none":
                auth = None
            elif who == "empty":
                auth = ""
            elif who.startswith("forged:"):
                auth = f'Snowflake Token="{who[7:]}"'
            elif who.startswith("short:"):
                auth = who[6:]
            elif who.startswith("trunc:"):
                auth = f'Snowflake Token="{tokens[who[6:]][:-1]}"'
            elif who.startswith("raw:"):
                auth = f'Snowflake Token="{tokens[who[4:]]}"'
            else:
                raise AssertionError(who)
            last = None
            for s in sqls:
                last = _post_raw(port, "/queries/v1/query-request", body_kind or "ok", s, auth=auth)
                if last[0] != 200:
                    break
            status, body = last
            if status == 401:
                resp.append(f"U:{body.get('code')}:{body.get('success')}")
            elif status == 200 and body.get("success"):
                resp.append("RAWOK")
            elif status == 200:
                resp.append("RAWERR")
            else:
                resp.append(f"HTTP:{status}:{str(body)[:80]}")
        nsess = len(fakesnow.server.sessions) - before_sessions
        for c in conns.values():
            try:
                c.close()
            except Exception:
                pass
        for d in tmpdirs:
            import shutil
            shutil.rmtree(d, ignore_errors=True)
        return {"resp": resp, "tokens": {k: len(v) for k, v in tokens.items()}, "distinct_tokens": len(set(tokens.values())), "new_sessions": nsess}

    for hid, reqs in shard:
        try:
            r = run_hist(hid, reqs, 0)
        except Exception as e:        # a login timed out
            if type(e).__name__ != "OperationalError":
                raise
            r = {"resp": ["EXC:OperationalError"]}
        if any("OperationalError" in x or "timed out" in x for x in r["resp"]):
            NET_TIMEOUT["s"] = 8         # client-side timeout on the loaded machine: run the sequence again, patiently
            try:
                r = run_hist(hid, reqs, 1)
            finally:
                NET_TIMEOUT["s"] = 1
        out.append(r)
    return out


def _model_line_c(reqs) -> tuple[str, list]:
    """abstract requests -> Lean request list.  Session names are the model's tokens; raw header texts are passed verbatim."""
    items, shape = [], []
    for r in reqs:
        if r[0] == "L":
            _, nm, b, sch = r
            items.append(f"L:{enc_str(nm)}:{b}:{sch if sch else '-'}")
            shape.append(("L", nm))
            continue
        _, who, q = r
        who = who.partition("|")[0]
        if who == "none":
            auth = "-"
        elif who == "empty":
            auth = "e"
        elif who.startswith("forged:"):
            auth = enc_str(f'Snowflake Token="{who[7:]}"')
        elif who.startswith("short:"):
            auth = enc_str(who[6:])
        elif who.startswith("trunc:"):
            auth = enc_str(f'Snowflake Token="{who[6:][:-1]}"')     # a live token with its last character cut
        elif who.startswith("raw:"):
            auth = enc_str(f'Snowflake Token="{who[4:]}"')
        else:
            auth = enc_str(f'Snowflake Token="{who}"')
        items.append(f"Q:{auth}:{q}")
        shape.append(("Q", who, q))
    return "http\tsess\t" + enc_list(items), shape


def _norm_model_resp(m: str, shape) -> str:
    k = m.split(":", 1)
    if k[0] == "T":
        return "T:" + common.dec_str(k[1])
    if shape[0] == "Q" and (shape[1].startswith("raw:")) and k[0] in ("S", "V", "C", "R"):
        return "RAWERR" if m == "V:-" else "RAWOK"
    if k[0] == "C":
        return "C:None" if k[1] == "-" else f"C:S{k[1]}"
    if k[0] == "U":
        return f"U:{k[1]}:False"
    return m


def _run_c(chk, rnd, nhist: int):
    hists = [(i, _gen_session_history(rnd, i)) for i in range(nhist)]
    shards = [[h] for h in hists]
    reals, stuck = _bounded_map("c", hists)
    for ti, p in sorted(stuck.items()):
        hid, reqs = hists[ti]
        si = max(0, min(p.get("step", 0), len(reqs) - 1))
        chk.violation(f"request #{si} {reqs[si]} of a login/query sequence: no answer within {STALL_S} s; the worker was terminated",
                      {"part": "C", "requests": reqs[: si + 1]}, broken="C17 sessions (request did not complete)")
    keep = [i for i, r in enumerate(reals) if r is not None]
    shards, reals = [shards[i] for i in keep], [reals[i] for i in keep]
    lines, shapes = [], []
    for shard in shards:
        for hid, reqs in shard:
            ln, sh = _model_line_c(reqs)
            lines.append(ln)
            shapes.append(sh)
    replies = common.batch(lines)
    i = 0
    for shard, res in zip(shards, reals):
        for (hid, reqs), real in zip(shard, res):
            rep, shape = replies[i], shapes[i]
            i += 1
            model = [_norm_model_resp(m, s) for m, s in zip(dec_list(rep.get("out", "[]")), shape)]
            got = real["resp"]
            nlog = sum(1 for r in reqs if r[0] == "L")
            case = {"part": "C", "requests": reqs}
            chk.case(("C", hid, tuple(map(tuple, reqs))), nontrivial=True,
                     sample={"requests": [list(r) for r in reqs[:10]], "responses": got[:10]} if hid == 0 else None)
            for r in reqs:
                w = r[1].partition("|")[0] if r[0] == "Q" else ""
                chk.count("req:" + ("login:" + r[2] if r[0] == "L" else ("query:" + (w.split(":")[0] if ":" in w or w in ("none", "empty") else "session"))))
                if r[0] == "Q" and "|" in r[1]:
                    chk.count("unauth-body:" + r[1].partition("|")[2])
            if any("OperationalError" in x for x in got):
                raise common.Infra("connector network timeout persisted in a session sequence (machine overloaded?)")
            if got != model:
                j = next(k for k in range(len(got)) if k >= len(model) or got[k] != model[k])
                chk.violation(f"request #{j} {reqs[j]} of a login/query sequence answered {got[j]!r}, the session model says {model[j] if j < len(model) else None!r}; "
                              f"real={got} model={model}", case, broken="C17_auth_refused/C17_session_local/C17_sharing (correspondence with Fs.Http.run)")
            elif real["distinct_tokens"] != nlog or real["new_sessions"] != nlog:
                chk.violation(f"{nlog} logins produced {real['distinct_tokens']} distinct tokens and {real['new_sessions']} new server sessions", case,
                              broken="C17_sharing (fresh token per login)")
    # token slice: the header format the connector really sends
    toks = ["abc", "", "A" * 43, "x\"y", "é"]
    srep = common.batch(["http\tslice\t" + enc_str(f'Snowflake Token="{t}"') for t in toks])
    for t, r in zip(toks, srep):
        if common.dec_str(r["tok"]) != f'Snowflake Token="{t}"'[17:-1] or f'Snowflake Token="{t}"'[17:-1] != t:
            chk.violation(f"slice17 of header for token {t!r}: model {common.dec_str(r['tok'])!r}", {"part": "C", "token": t}, broken="C17_token_slice", failing_input=False)


# ------------------------------------------------------------------------------------------------

def run(chk) -> None:
    import fakesnow  # noqa: F401
    thorough = chk.tier != "quick"
    rnd = random.Random(chk.seed)
    _real_connect()
    chk.rule = ("A: all 10^6 sub-second fractions x {2020, pre-1970[, year 1, year 9999]} x {NTZ, TZ} through fakesnow.arrow.to_sf/to_ipc and the "
                "connector's Arrow iterator (exhaustive), sample/all through Lean encodeTs/decodeTs; TIME values; NULL placements of length ≤ 4 "
                "exhaustively + random columns; arrow metadata for every type.  B: generated statement histories (every column type forced "
                "once, edge values, NULLs, all statement kinds incl. errors, USE/BEGIN/COMMIT, finding-region enders) over HTTP and in-process. "
                "C: login/query request sequences over shared/:isolated:/path logins with forged, truncated, empty and missing Authorization "
                "headers.  non-trivial = statement that returns rows or an error / request sequence / NULL column mixing NULLs and values")
    t0 = time.time()
    _run_a(chk, rnd, thorough)
    t1 = time.time()

    def part(fn, *a):
        # an infrastructure problem in a later part must not hide violations already found
        try:
            fn(chk, rnd, *a)
        except common.Infra as e:
            if not chk.violations:
                raise
            chk.notes.append(f"{fn.__name__} not completed: {e}")
    part(_run_b, 1000 if thorough else 70)
    t2 = time.time()
    part(_run_c, 700 if thorough else 50)
    chk.extra["wall_parts_s"] = {"A": round(t1 - t0, 1), "B": round(t2 - t1, 1), "C": round(time.time() - t2, 1)}
    chk.exhaustive = True
    chk.extra["exhaustive_part"] = "all 10^6 microsecond fractions per (epoch, tz) combination; all NULL placements of columns of length ≤ 4; the whole types.py table"
    chk.assumptions = ["secrets.token_urlsafe(32) never repeats a token (checked: distinct per history)",
                       "DuckDB/pyarrow hand the in-process cursor the stored value (reference side of the comparison)",
                       "path-backed logins use distinct fresh directories (two logins on one path are not modelled)"]
    chk.trusted += ["pyarrow: floor_temporal/subtract/multiply on int64, safe cast to int32, StructArray.from_arrays(mask=), IPC stream (exercised exhaustively over the 10^6 fractions)",
                    "snowflake-connector-python 3.18.1 nanoarrow iterator: struct timestamp/TIME(scale 9)/FIXED scale decoding (modelled in decodeTs/decodeTime/httpPy; exercised on every value)",
                    "Lean Float = IEEE binary64 as pyarrow computes it (tied on all 10^6 fractions: 34151 inexact)",
                    "starlette/uvicorn request routing and the connector's HTTP layer (login, retry on 5xx)"]


def replay(chk, case) -> None:
    import fakesnow  # noqa: F401
    _real_connect()
    part = case.get("part")
    if part == "B":
        hist = list(zip(case["kinds"], case["history"]))
        obs = _worker_b([(0, hist)])[0]
        lines = ["http\tresp\t" + _obs_exec(b) for _, b in obs]
        tys = set()
        for _, b in obs:
            if b["k"] == "K" and isinstance(b["desc"], list):
                for ci in range(len(b["desc"])):
                    ty = _col_ty(b["desc"][ci], [r[ci] for r in b["rows"]])
                    if ty:
                        tys.add(ty)
        tyl = sorted(tys)
        reps = common.batch(lines + ["http\tty\t" + t for t in tyl])
        tyr = dict(zip(tyl, reps[len(lines):]))
        (kind, sql), (a, b) = hist[-1], obs[-1]
        _check_stmt(chk, case, kind, sql, a, b, reps[len(lines) - 1], tyr)
    elif part == "C":
        reqs = [tuple(r) for r in case["requests"]]
        real = _worker_c([(0, reqs)])[0]
        ln, shape = _model_line_c(reqs)
        rep = common.batch([ln])[0]
        model = [_norm_model_resp(m, s) for m, s in zip(dec_list(rep.get("out", "[]")), shape)]
        if real["resp"] != model:
            chk.violation(f"login/query sequence: real={real['resp']} model={model}", case, broken="C17 sessions")
    elif part == "A":
        if case.get("kind") == "ts" and case.get("payload"):
            e, lo, hi, tz = case["payload"]
            r = _worker_a(("ts", (e, lo, hi, tz, 0)))
            for b in r["bad"]:
                chk.violation(b, case, broken="C17_ts_roundtrip")
        elif "column" in case:
            r = _worker_a(("nullcol", [(case.get("tz", False), case["column"])]))
            rep = common.batch([f"http\ttscol\t1\t{1 if case.get('tz') else 0}\t" + enc_list(["-" if x is None else str(x) for x in case["column"]])])[0]
            got = ["-" if g is None else f"{g[0]},{'-' if g[1] is None else g[1]}" for g in r["wire"][0]]
            if got != dec_list(rep["spec"]):
                chk.violation(f"timestamp column {case['column']} comes back as {got}, spec {dec_list(rep['spec'])}", case, broken="C17_null_roundtrip")
        elif "us" in case:
            us = case["us"]
            r = _worker_a(("ts", (us // 10**6, us % 10**6, us % 10**6 + 1, False, 0)))
            for b in r["bad"]:
                chk.violation(b, case, broken="C17_ts_roundtrip")
